#!/usr/bin/env python3
"""Regenerates /verif/MANIFEST.json from tools/units.py + tools/claims.py (single source of truth)."""
import json, os, sys, subprocess
ROOT = os.path.dirname(os.path.dirname(os.path.abspath(__file__)))
sys.path.insert(0, os.path.join(ROOT, "tools"))
from units import PROPS
from claims import CLAIMS, NOT_APPLICABLE, HOOK_COMMITS

checks = []
for pid in sorted(PROPS):
    c = CLAIMS[pid]
    checks.append(dict(
        property_id=pid,
        quick_cmd=f"./check {pid} --tier quick",
        thorough_cmd=f"./check {pid} --tier thorough",
        evidence_file=f"/verif/evidence/{pid}.json",
        replay_cmd_template=f"./check {pid} --replay {{path}}",
        engine="tlc+mv",
        level_claimed=dict(category="model_checking", text=c["text"] + (" " + c["text_extra"] if c.get("text_extra") else ""), design_ref=c.get("design_ref", "DESIGN.md §6")),
        level_note=c["note"],
        technique=c.get("technique", "TLA+ spec checked by TLC; TLC behaviours replayed into the real code under a baton scheduler; real schedules explored against the spec's oracle"),
    ))
m = dict(
    version=1,
    setup_cmd="cp /repo/Cargo.lock harness/Cargo.lock && cd harness && cargo build --release --offline",
    hooks=dict(
        guard="--cfg may_verif",
        enable="harness/.cargo/config.toml sets rustflags = [\"--cfg\", \"may_verif\"]; every check starts with `cargo build --release --offline` in /verif/harness, which rebuilds /repo (path dependency) from its current working tree",
        baseline_off_cmd="cd /repo && cargo nextest run --workspace --no-fail-fast --test-threads 8 --offline || cargo test --workspace --no-fail-fast --offline",
        source_commits=HOOK_COMMITS,
        add_only=True,
    ),
    engines=[
        dict(name="tlc", path="/verif/spec", serves_properties=sorted(PROPS), kind_free_text="TLA+ specifications (one action per shared-memory operation, pc labels = hook site names) model-checked by TLC; MC wrappers export behaviours"),
        dict(name="mv", path="/verif/harness", serves_properties=sorted(PROPS), kind_free_text="Rust conformance harness: baton controller installed into may's verification hooks; replay of TLC behaviours, seeded/PCT and preemption-bounded DFS exploration, property-level oracles"),
    ],
    checks=checks,
    not_applicable=[dict(property_id=p, reason=r) for p, r in sorted(NOT_APPLICABLE.items()) if p not in PROPS],
    notes="See DESIGN.md. Exit 0 held / 1 VIOLATION with replay file / 2 tool error. known findings: /verif/known_findings.json",
)
json.dump(m, open(os.path.join(ROOT, "MANIFEST.json"), "w"), indent=1)
print("MANIFEST.json:", len(checks), "checks,", len(m["not_applicable"]), "not_applicable")
