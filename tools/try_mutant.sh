#!/bin/bash
# usage: try_mutant.sh <patch> <property> [tier]   -- applies a seeded change to /repo, runs the check, reverts
set -u
patch=$1; pid=$2; tier=${3:-quick}
cd /repo || exit 2
if ! git diff --quiet; then echo "repo dirty"; exit 2; fi
if ! git apply --3way "$patch" 2>/tmp/apply.err; then cat /tmp/apply.err; git checkout -- . ; git reset -q --hard HEAD; echo "PATCH DOES NOT APPLY"; exit 3; fi
git reset -q   # unstage (3way stages)
cd /verif && ./check $pid --tier $tier 2>&1 | grep -E "^(VIOLATION|OK|KNOWN|TOOL|  unit)|replay:|explore:|dfs:" | cut -c1-400
rc=${PIPESTATUS[0]}
cd /repo && git checkout -- . && git status --short | head -3
echo "check exit=$rc"
