#!/usr/bin/env python3
"""prints the prompt given to an independent sub-agent that seeds a property-breaking change"""
import json, sys
pid, wdir = sys.argv[1], sys.argv[2]
p = next(json.loads(l) for l in open('/verif/properties.jsonl') if json.loads(l)['id'] == pid)
print(f"""You are given a scratch git worktree of the Rust library `may` (Xudong-Huang/may: a stackful coroutine runtime with a work-stealing scheduler, lock-free queues in the sub-crate may_queue, coroutine-aware sync primitives, timers, cancellation and async network I/O) at {wdir}. Work ONLY inside {wdir}; never read or touch /repo or /verif. There is no network; `cargo` works offline (use --offline).

Here is a semantic property the library is supposed to satisfy:

  id: {p['id']}
  title: {p['title']}
  statement: {p['statement']}
  quantified over: {p['quantifier']['text']}
  relevant files: {', '.join(p['anchors']['files'])}

YOUR TASK: write a realistic change to the library's source (under src/ or may_queue/src/) that BREAKS this property while
  (a) the workspace still compiles,
  (b) the existing test suite still passes: run `cargo nextest run --workspace --no-fail-fast --test-threads 8 --offline` in {wdir} (the unchanged tree passes 249 tests; run it at least twice with your change, tests must not become flaky),
  (c) the breakage needs something specific to manifest - a particular interleaving, a cancel/panic/timeout at a particular point, a multi-step sequence of operations, an unusual input, or two cooperating sites that each look fine alone - NOT something that ordinary use or the existing tests would expose at once. Think of the kind of subtle regression a well-meaning refactoring, "optimisation" or "simplification" could introduce (a dropped re-check, a reordered store/load, an off-by-one in a counter test, a forgotten hand-off on an error path, a wrong branch on a rarely taken path, ...).
Also write a DEMONSTRATION: a test file or small program (for example {wdir}/tests/demo_{pid.lower()}_1.rs) that FAILS (assertion failure, hang detected by a timeout, wrong result) with your change and PASSES without it. The demonstration may use many iterations, many threads/coroutines, sleeps and timeouts to hit the window with high probability, but must not modify the library. Verify both directions yourself (with the change: fails; library change reverted: passes). NEVER use `git stash` (the stash is shared with sibling worktrees used by other people): save your change with `git diff > file` and revert with `git checkout -- src may_queue`.

Lines guarded by `#[cfg(may_verif)]` in the sources are inert instrumentation (not compiled in normal builds): leave them in place; if you move or delete a statement, keep the guarded line that precedes it attached to it (move it along / leave it where it is), and do not rely on them.

Produce TWO different such changes if you can (different mechanisms), each delivered as a directory:
  {wdir}/MUTANT1/patch.diff   - `git diff` of the library sources only (must apply with `git apply` to a clean checkout of this worktree's HEAD)
  {wdir}/MUTANT1/demo.rs      - the demonstration (say in README how to place and run it)
  {wdir}/MUTANT1/README.md    - what the change is, why it breaks the property, what it needs in order to manifest, the exact commands you ran and what you observed (test-suite result with the change, demo result with and without the change)
and likewise {wdir}/MUTANT2/. At the end, make sure the worktree's tracked files are back to HEAD (no library change left applied; untracked MUTANT*/ and demo files may stay) and run `cargo clean` in {wdir} to free disk space. Reply with a short summary of each mutant (files touched, mechanism, how it manifests).""")
