#!/usr/bin/env python3
"""Run every seeded change under /verif/seeded/<id>/ against the check of its property (quick tier) and record the
outcome in /verif/seeded/<id>/meta.json and /verif/seeded/MATRIX.json.
The change is applied to /repo (git apply --3way; patch_adapted.diff if present), the check is run, and /repo is
restored (git checkout -- .) straight afterwards.  Never commit while this runs."""
import os, sys, json, subprocess, re, glob, time
ROOT = "/verif"
def sh(cmd, **kw):
    return subprocess.run(cmd, shell=True, capture_output=True, text=True, **kw)
def main():
    only = sys.argv[1:]
    matrix = {}
    mfile = os.path.join(ROOT, "seeded", "MATRIX.json")
    if os.path.exists(mfile):
        matrix = json.load(open(mfile))
    for d in sorted(glob.glob(os.path.join(ROOT, "seeded", "C*-*"))):
        sid = os.path.basename(d)
        if only and sid not in only:
            continue
        pid = sid.split("-")[0]
        patch = os.path.join(d, "patch_adapted.diff")
        adapted = os.path.exists(patch)
        if not adapted:
            patch = os.path.join(d, "patch.diff")
        assert sh("git -C /repo status --porcelain").stdout.strip() == "", "/repo is not clean"
        r = sh(f"git -C /repo apply --3way {patch}")
        conflict = sh("git -C /repo diff --name-only --diff-filter=U").stdout.strip()
        if r.returncode != 0 or conflict:
            sh("git -C /repo reset -q --hard HEAD")
            matrix[sid] = dict(property=pid, result="patch does not apply to the current tree (the lines were changed by a fix: commit)")
            continue
        sh("git -C /repo reset -q")          # keep the change in the working tree only
        t0 = time.time()
        c = sh(f"{ROOT}/check {pid} --tier quick", timeout=3000)
        wall = round(time.time() - t0, 1)
        sh("git -C /repo checkout -- .")
        viol = re.findall(r"^VIOLATION property=(\S+) replay=(\S+)", c.stdout, re.M)
        known = re.findall(r"^KNOWN-FINDING: (.*)$", c.stdout, re.M)
        units = []
        ev = os.path.join(ROOT, "evidence", pid + ".json")
        try:
            e = json.load(open(ev))
            for v in e.get("violations_detail", e.get("violations_list", []))[:6]:
                units.append(v)
        except Exception:
            pass
        details = re.findall(r"^\s+(\S+)/(\S+): (\S+) (.*)$", c.stderr, re.M)[:4]
        res = dict(property=pid, adapted_patch=adapted, exit=c.returncode, caught=(c.returncode == 1 and bool(viol)),
                   violations=len(viol), first_replays=[v[1] for v in viol[:3]], wall_s=wall,
                   tail=(c.stdout.strip().splitlines() or [""])[-1][:300])
        matrix[sid] = res
        json.dump(matrix, open(mfile, "w"), indent=1, sort_keys=True)
        print(sid, "CAUGHT" if res["caught"] else f"missed (exit {c.returncode})", wall, flush=True)
    json.dump(matrix, open(mfile, "w"), indent=1, sort_keys=True)
if __name__ == "__main__":
    main()
