#!/bin/bash
# usage: confirm_mutant.sh <worktree> <mutant-dir-name> <seed-id>
# Confirms a seeded change in a scratch worktree: compiles, passes the pinned suite, the demonstration fails
# with the change and passes without it.  On success copies it to /verif/seeded/<seed-id>/.
wt=$1; m=$2; sid=$3
log=/tmp/mut/confirm_$sid.log
exec >$log 2>&1
cd $wt || exit 2
git checkout -q -- . ; rm -f tests/zz_demo.rs tests/demo_c*.rs
git apply $m/patch.diff || { echo "RESULT apply-failed"; exit 1; }
cp $m/demo.rs tests/zz_demo.rs
echo "== suite with change"
timeout 1200 cargo nextest run --workspace --no-fail-fast --test-threads 8 --offline -E 'not binary(zz_demo)' 2>&1 | tail -4
suite=$(timeout 1200 cargo nextest run --workspace --no-fail-fast --test-threads 8 --offline -E 'not binary(zz_demo)' 2>&1 | grep -E "^\s+Summary" )
echo "suite(2nd run): $suite"
echo "== demo with change"
timeout 600 cargo test --offline --test zz_demo 2>&1 | tail -15
timeout 600 cargo test --offline --test zz_demo >/dev/null 2>&1; with=$?
git checkout -q -- .
echo "== demo without change"
timeout 600 cargo test --offline --test zz_demo 2>&1 | tail -6
timeout 600 cargo test --offline --test zz_demo >/dev/null 2>&1; without=$?
rm -f tests/zz_demo.rs
echo "RESULT suite='$suite' demo_with_change_exit=$with demo_without_change_exit=$without"
if echo "$suite" | grep -q "249 passed" && [ $with -ne 0 ] && [ $without -eq 0 ]; then
  mkdir -p /verif/seeded/$sid && cp $m/patch.diff $m/demo.rs $m/README.md /verif/seeded/$sid/ 2>/dev/null
  echo "CONFIRMED $sid"
else
  echo "NOT-CONFIRMED $sid"
fi
