#!/usr/bin/env python3
"""Write /verif/seeded/<id>/meta.json from the confirmation logs and seeded/MATRIX.json, and print the markdown
table used in DESIGN.md."""
import os, re, json, glob, sys
ROOT = "/verif/seeded"
matrix = json.load(open(os.path.join(ROOT, "MATRIX.json"))) if os.path.exists(os.path.join(ROOT, "MATRIX.json")) else {}
rows = []
for d in sorted(glob.glob(os.path.join(ROOT, "C*-*"))):
    sid = os.path.basename(d)
    pid = sid.split("-")[0]
    readme = open(os.path.join(d, "README.md"), errors="replace").read() if os.path.exists(os.path.join(d, "README.md")) else ""
    title = (readme.splitlines() or [""])[0].lstrip("# ").strip()
    title = re.sub(r"^C\d\d\s*/\s*MUTANT\d\s*(\([^)]*\))?\s*[-–]\s*", "", title)
    m = re.search(r"^##\s*What it needs[^\n]*\n(.*?)(?=^## )", readme, re.S | re.M)
    needs = " ".join(m.group(1).split())[:900] if m else ""
    log = f"/tmp/mut/confirm_{sid}.log"
    confirm = None
    if os.path.exists(log):
        t = open(log, errors="replace").read()
        r = re.search(r"RESULT (.*)", t)
        confirm = dict(result="CONFIRMED" if re.search(r"^CONFIRMED", t, re.M) else "NOT-CONFIRMED", detail=r.group(1)[:300] if r else "")
    old = {}
    mp = os.path.join(d, "meta.json")
    if os.path.exists(mp):
        try: old = json.load(open(mp))
        except Exception: old = {}
    if confirm is None:
        confirm = old.get("confirmation")
    mx = matrix.get(sid)
    meta = dict(
        id=sid, property=pid, title=title,
        files=sorted(set(re.findall(r"^diff --git a/(\S+)", open(os.path.join(d, "patch.diff")).read(), re.M))),
        needs_to_manifest=needs or old.get("needs_to_manifest", ""),
        source="written by a sub-agent that was given only the text of the property and its own scratch worktree of /repo",
        confirmation=confirm,
        confirmation_procedure="in the agent's scratch worktree: git apply patch.diff; cargo nextest run --workspace --no-fail-fast --test-threads 8 --offline (twice, demo excluded): 249 passed; cargo test --test zz_demo (the demonstration) fails with the change; git checkout -- .; the demonstration passes without it (tools/confirm_mutant.sh)",
        adapted_patch=os.path.exists(os.path.join(d, "patch_adapted.diff")),
        checks=mx, also_caught_by=old.get("also_caught_by", []),
    )
    json.dump(meta, open(mp, "w"), indent=1)
    res = "—"
    if mx:
        res = "caught" if mx.get("caught") else ("n/a: " + mx["result"] if "result" in mx else "**missed**")
    also = ", ".join(meta["also_caught_by"])
    rows.append(f"| {sid} | {title[:95]} | {res}{(' (also: ' + also + ')') if also else ''} |")
print("| id | change | check of its property (quick) |\n|---|---|---|")
print("\n".join(rows))
