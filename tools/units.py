"""Per-property verification units: which TLA+ configs are model-checked, which harness scenario
binds them to the code, and the tier budgets."""

def co(name, prog, **kw):
    return dict(name=name, co=True, prog=prog, **kw)
def th(name, prog, **kw):
    return dict(name=name, co=False, prog=prog, **kw)

PROPS = {}

PROPS["C05"] = dict(
    assumptions=["Park/ThreadPark satisfy the AbsBlocker contract (decided separately by C02)",
                 "the to_wake queue is a linearizable FIFO (decided separately by C03)"],
    units=[
        dict(name="co3", scenario="mutex",
             tlc=[("spec/l2/MCMutex.tla", "spec/l2/MCMutex.cfg")],
             sim_spec=("spec/l2/MCMutex.tla", "spec/l2/MCMutex.cfg"),
             params=dict(actors=[co("a1", ["lock"]), co("a2", ["lock"]), co("a3", ["try", "lock"])], victims=["a2"], workers=8),
             quick=dict(sim=dict(num=400, depth=150), explore=dict(n=300), dfs=dict(max=400, pb=2)),
             thorough=dict(sim=dict(num=6000, depth=150), explore=dict(n=3000), dfs=dict(max=6000, pb=3))),
        dict(name="mix3", scenario="mutex",
             tlc=[("spec/l2/MCMutex.tla", "spec/l2/MCMutex_mix.cfg")],
             sim_spec=("spec/l2/MCMutex.tla", "spec/l2/MCMutex_mix.cfg"),
             params=dict(actors=[th("a1", ["lock", "lock"]), co("a2", ["lock"]), th("a3", ["try", "lock"])], victims=[], workers=8),
             quick=dict(sim=dict(num=300, depth=200), explore=dict(n=200), dfs=dict(max=300, pb=2)),
             thorough=dict(sim=dict(num=4000, depth=200), explore=dict(n=2000), dfs=dict(max=5000, pb=3))),
    ],
)
