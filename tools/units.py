"""Per-property verification units: which TLA+ configs are model-checked, which harness scenario
binds them to the code, and the tier budgets."""

def co(name, prog, **kw):
    return dict(name=name, co=True, prog=prog, **kw)
def th(name, prog, **kw):
    return dict(name=name, co=False, prog=prog, **kw)

PROPS = {}

PROPS["C05"] = dict(
    assumptions=["Park/ThreadPark satisfy the AbsBlocker contract (decided separately by C02)",
                 "the to_wake queue is a linearizable FIFO (decided separately by C03)"],
    units=[
        dict(name="co3", scenario="mutex",
             tlc=[("spec/l2/MCMutex.tla", "spec/l2/MCMutex.cfg")],
             sim_spec=("spec/l2/MCMutex.tla", "spec/l2/MCMutex.cfg"),
             params=dict(actors=[co("a1", ["lock"]), co("a2", ["lock"]), co("a3", ["try", "lock"])], victims=["a2"], workers=8),
             quick=dict(sim=dict(num=400, depth=150), explore=dict(n=300), dfs=dict(max=400, pb=2)),
             thorough=dict(sim=dict(num=6000, depth=150), explore=dict(n=3000), dfs=dict(max=6000, pb=3))),
        dict(name="mix3", scenario="mutex",
             tlc=[("spec/l2/MCMutex.tla", "spec/l2/MCMutex_mix.cfg")],
             sim_spec=("spec/l2/MCMutex.tla", "spec/l2/MCMutex_mix.cfg"),
             params=dict(actors=[th("a1", ["lock", "lock"]), co("a2", ["lock"]), th("a3", ["try", "lock"])], victims=[], workers=8),
             quick=dict(sim=dict(num=300, depth=200), explore=dict(n=200), dfs=dict(max=300, pb=2)),
             thorough=dict(sim=dict(num=4000, depth=200), explore=dict(n=2000), dfs=dict(max=5000, pb=3))),
    ],
)

def semunit(name, cfg, actors, init, victims, quick, thorough, tier=None):
    u = dict(name=name, scenario="sem",
             tlc=[("spec/l2/MCSemaphore.tla", cfg)], sim_spec=("spec/l2/MCSemaphore.tla", cfg),
             params=dict(actors=actors, init=init, victims=victims, workers=8),
             quick=quick, thorough=thorough)
    if tier:
        u["tier"] = tier
    return u

PROPS["C05"]["units"] += [
    # the b_ignore (cancel disabled) path of lock(): reachable only through Condvar::wait's re-lock
    dict(name="nocancel_spec",
         tlc=[("spec/l2/MCMutex.tla", "spec/l2/MCMutex_F16.cfg"), ("spec/l2/MCMutex.tla", "spec/l2/MCMutex_F16fixed.cfg")],
         tlc_expect_error="TryLockSound is violated|MutualExclusion is violated|Deadlock reached"),
    dict(name="relock_nocancel", scenario="condvar",
         params=dict(actors=[co("a1", ["wait"]), th("a2", ["notify_one"]), co("a3", ["notify_one"])], victims=["a1"], workers=8, deep=True),
         quick=dict(explore=dict(n=300), dfs=dict(max=300, pb=2)),
         thorough=dict(explore=dict(n=5000), dfs=dict(max=5000, pb=3))),
]

PROPS["C10"] = dict(
    assumptions=["Park/ThreadPark satisfy the AbsBlocker contract (C02); timers fire at their deadline (C08)",
                 "the SegQueue of waiters is a linearizable FIFO (crossbeam, trusted)"],
    units=[
        semunit("timed3", "spec/l2/MCSemaphore_timed3.cfg",
                [co("a1", ["twait"], dur=1), co("a2", ["twait", "try"], dur=2), co("a3", ["post"])], 0, [],
                dict(sim=dict(num=300, depth=200), explore=dict(n=200), dfs=dict(max=300, pb=2)),
                dict(sim=dict(num=4000, depth=200), explore=dict(n=2000), dfs=dict(max=4000, pb=3))),
        semunit("cancel3", "spec/l2/MCSemaphore_cancel.cfg",
                [co("a1", ["wait"]), co("a2", ["wait", "post"]), th("a3", ["post", "try"])], 0, ["a1"],
                dict(sim=dict(num=300, depth=200), explore=dict(n=200), dfs=dict(max=300, pb=2)),
                dict(sim=dict(num=4000, depth=200), explore=dict(n=2000), dfs=dict(max=4000, pb=3))),
        semunit("mix3", "spec/l2/MCSemaphore_mix.cfg",
                [th("a1", ["wait", "post"]), co("a2", ["wait", "post"]), th("a3", ["try", "wait", "post"])], 1, [],
                dict(sim=dict(num=300, depth=200), explore=dict(n=200), dfs=dict(max=300, pb=2)),
                dict(sim=dict(num=4000, depth=200), explore=dict(n=2000), dfs=dict(max=4000, pb=3))),
        semunit("timed4", "spec/l2/MCSemaphore.cfg",
                [co("a1", ["twait"], dur=1), co("a2", ["twait"], dur=2), co("a3", ["post"]), th("a4", ["post", "try"])], 0, [],
                dict(), dict(sim=dict(num=4000, depth=250), explore=dict(n=2000), dfs=dict(max=3000, pb=2), tlc_timeout=900), tier="thorough"),
        dict(name="flag3", scenario="flag",
             tlc=[("spec/l2/MCSyncFlag.tla", "spec/l2/MCSyncFlag.cfg")], sim_spec=("spec/l2/MCSyncFlag.tla", "spec/l2/MCSyncFlag.cfg"),
             params=dict(actors=[co("a1", ["twait", "wait"], dur=1), co("a2", ["wait"], dur=2), th("a3", ["fire", "wait"], dur=3)], victims=["a2"], workers=8),
             quick=dict(sim=dict(num=300, depth=250), explore=dict(n=200), dfs=dict(max=300, pb=2)),
             thorough=dict(sim=dict(num=4000, depth=250), explore=dict(n=2000), dfs=dict(max=4000, pb=3))),
    ],
)

def rwunit(name, cfg, actors, victims, poison, n=300, fixed_cfg=None, **kw):
    # a unit with fixed_cfg model-checks two configs: the pinned tree's protocol (a counter-example is
    # expected: the defect) and the repaired protocol, whose behaviours are the ones replayed
    tlc = [("spec/l2/MCRwLock.tla", cfg)] + ([("spec/l2/MCRwLock.tla", fixed_cfg)] if fixed_cfg else [])
    return dict(name=name, scenario="rwlock",
                tlc=tlc, sim_spec=("spec/l2/MCRwLock.tla", fixed_cfg or cfg),
                params=dict(actors=actors, victims=victims, poison=poison, workers=8),
                quick=dict(sim=dict(num=n, depth=250), explore=dict(n=200), dfs=dict(max=300, pb=2)),
                thorough=dict(sim=dict(num=5000, depth=250), explore=dict(n=3000), dfs=dict(max=5000, pb=3)), **kw)

PROPS["C12"] = dict(
    assumptions=["the internal reader mutex `rlock` satisfies the Mutex contract (C05); AbsBlocker (C02)"],
    units=[
        rwunit("clean3", "spec/l2/MCRwLock_clean.cfg",
               [co("a1", ["read", "try_write"]), co("a2", ["write"]), th("a3", ["try_read", "read"])], ["a2"], False),
        rwunit("panic3", "spec/l2/MCRwLock_panic.cfg",
               [co("a1", ["wpanic"]), th("a2", ["try_read", "write"]), co("a3", ["write", "try_write"])], [], False),
        rwunit("poisoned3", "spec/l2/MCRwLock_poisoned.cfg",
               [co("a1", ["try_read", "read"]), th("a2", ["write"]), co("a3", ["try_write", "read"])], [], True),
        rwunit("poisoned_tryread", "spec/l2/MCRwLock_F1.cfg",
               [co("a1", ["try_read"]), th("a2", ["write"])], [], True, n=100,
               tlc_expect_error="Invariant NothingBad is violated", fixed_cfg="spec/l2/MCRwLock_F1fixed.cfg"),
        rwunit("poisoned_2writers", "spec/l2/MCRwLock_F2.cfg",
               [co("a1", ["write"]), th("a2", ["write"])], [], True, n=100,
               tlc_expect_error="Invariant RWExclusion is violated", fixed_cfg="spec/l2/MCRwLock_F2fixed.cfg"),
    ],
)

def tx(name, prog, is_co=False, **kw):
    return dict(name=name, co=is_co, role="tx", prog=prog, **kw)
def rx(name, prog, is_co=False, **kw):
    return dict(name=name, co=is_co, role="rx", prog=prog, **kw)

def chanunit(name, kind, module, cfg, actors, victims=(), n=300, fixed_cfg=None, **kw):
    tlc = [(module, cfg)] + ([(module, fixed_cfg)] if fixed_cfg else [])
    return dict(name=name, scenario="chan", tlc=tlc, sim_spec=(module, fixed_cfg or cfg),
                params=dict(kind=kind, actors=actors, victims=list(victims), workers=8),
                quick=dict(sim=dict(num=n, depth=300), explore=dict(n=200), dfs=dict(max=300, pb=2)),
                thorough=dict(sim=dict(num=5000, depth=300), explore=dict(n=3000), dfs=dict(max=5000, pb=3)), **kw)

MPSC = "spec/l2/MCMpscChan.tla"
C06_UNITS = [
    chanunit("mpsc_2x2", "mpsc", MPSC, "spec/l2/MCMpscChan.cfg",
             [rx("rx", ["recv", "recv", "try", "recv"], True), tx("s1", ["send", "send", "drop"], True), tx("s2", ["send", "drop"])]),
    chanunit("mpsc_timed", "mpsc", MPSC, "spec/l2/MCMpscChan_timed.cfg",
             [rx("rx", ["trecv", "trecv", "recv"], True, dur=1), tx("s1", ["send", "drop"]), tx("s2", ["clone", "drop", "send", "drop"], True)]),
]
C07_UNITS = [
    chanunit("mpsc_rdrop", "mpsc", MPSC, "spec/l2/MCMpscChan_rdrop.cfg",
             [rx("rx", ["try", "rdrop"]), tx("s1", ["send", "send", "drop"], True), tx("s2", ["send", "drop"])]),
    chanunit("mpsc_cancel", "mpsc", MPSC, "spec/l2/MCMpscChan_cancel.cfg",
             [rx("rx", ["recv", "recv"], True), tx("s1", ["send", "drop"]), tx("s2", ["send", "drop"], True)], victims=["rx"]),
]
SPSC = "spec/l2/MCSpscChan.tla"
C06_UNITS += [
    chanunit("spsc_co", "spsc", SPSC, "spec/l2/MCSpscChan_co.cfg",
             [rx("rx", ["recv", "try", "recv", "recv"], True), tx("s1", ["send", "send", "drop"])]),
    chanunit("spsc_th", "spsc", SPSC, "spec/l2/MCSpscChan_th.cfg",
             [rx("rx", ["recv", "try", "recv", "recv"], False), tx("s1", ["send", "send", "drop"], True)]),
]
C07_UNITS += [
    chanunit("spsc_rdrop", "spsc", SPSC, "spec/l2/MCSpscChan_rdrop.cfg",
             [rx("rx", ["try", "rdrop"], True), tx("s1", ["send", "send", "drop"])]),
    chanunit("spsc_lastdrop", "spsc", SPSC, "spec/l2/MCSpscChan_F3.cfg",
             [rx("rx", ["recv"], True), tx("s1", ["drop"])], n=100,
             tlc_expect_error="Deadlock reached", fixed_cfg="spec/l2/MCSpscChan_F3fixed.cfg"),
]
MPMC = "spec/l2/MCMpmcChan.tla"
C06_UNITS += [
    chanunit("mpmc_2x2", "mpmc", MPMC, "spec/l2/MCMpmcChan_2x2.cfg",
             [rx("r1", ["recv", "try", "recv"], True), rx("r2", ["recv", "recv"]), tx("s1", ["send", "send", "drop"], True), tx("s2", ["send", "drop"])]),
    chanunit("mpmc_timed", "mpmc", MPMC, "spec/l2/MCMpmcChan_timed.cfg",
             [rx("r1", ["trecv", "recv"], True, dur=1), rx("r2", ["try", "rdrop"]), tx("s1", ["send", "drop"]), tx("s2", ["clone", "drop", "send", "drop"], True)]),
]
C07_UNITS += [
    chanunit("mpmc_lastdrop", "mpmc", MPMC, "spec/l2/MCMpmcChan_F4.cfg",
             [rx("r1", ["recv"], True), rx("r2", ["try"]), tx("s1", ["send", "drop"])], n=200,
             tlc_expect_error="DrainThenDisconnected is violated|Deadlock reached", fixed_cfg="spec/l2/MCMpmcChan_F4fixed.cfg"),
    chanunit("mpmc_try_lastdrop", "mpmc", MPMC, "spec/l2/MCMpmcChan_F4b.cfg",
             [rx("r1", ["try"], True), tx("s1", ["send", "drop"])], n=100,
             tlc_expect_error="DrainThenDisconnected is violated", fixed_cfg="spec/l2/MCMpmcChan_F4bfixed.cfg"),
]
def deepunit(name, actors, n=400):
    return dict(name=name, scenario="chan",
                params=dict(kind="mpmc", deep=True, actors=actors, victims=[], workers=8),
                quick=dict(explore=dict(n=n), dfs=dict(max=n, pb=2)),
                thorough=dict(explore=dict(n=10 * n), dfs=dict(max=10 * n, pb=3)))
C06_UNITS += [
    deepunit("mpmc_deep_timed", [rx("r1", ["trecv", "try"], True, dur=1), tx("s1", ["send", "drop"])], n=1200),
    deepunit("mpmc_deep_timed2", [rx("r1", ["trecv", "try"], True, dur=1), rx("r2", ["trecv"], True, dur=2), tx("s1", ["send", "drop"]), tx("s2", ["send", "drop"], True)], n=600),
]
C07_UNITS += [
    deepunit("mpmc_deep_lastdrop", [rx("r1", ["recv"], True), rx("r2", ["recv"]), tx("s1", ["send", "drop"])]),
]
PROPS["C06"] = dict(assumptions=["queues are linearizable FIFOs (C03); AbsBlocker (C02); timers (C08)"], units=C06_UNITS + C07_UNITS)
PROPS["C07"] = dict(assumptions=["queues are linearizable FIFOs (C03); AbsBlocker (C02); timers (C08)"], units=C07_UNITS + C06_UNITS)

def cvunit(name, cfg, actors, victims=(), n=300):
    return dict(name=name, scenario="condvar",
                tlc=[("spec/l2/MCCondvar.tla", cfg)], sim_spec=("spec/l2/MCCondvar.tla", cfg),
                params=dict(actors=actors, victims=list(victims), workers=8),
                quick=dict(sim=dict(num=n, depth=300), explore=dict(n=200), dfs=dict(max=300, pb=2)),
                thorough=dict(sim=dict(num=5000, depth=300), explore=dict(n=3000), dfs=dict(max=5000, pb=3)))
def cvdeep(name, actors, victims=(), n=500, barrier=2, deep=True):
    return dict(name=name, scenario="condvar",
                params=dict(actors=actors, victims=list(victims), workers=8, deep=deep, barrier=barrier),
                quick=dict(explore=dict(n=n), dfs=dict(max=n, pb=2)),
                thorough=dict(explore=dict(n=10 * n), dfs=dict(max=10 * n, pb=3)))

PROPS["C11"] = dict(
    assumptions=["the user Mutex satisfies its contract (C05); AbsBlocker (C02); timers (C08)"],
    units=[
        cvunit("timed3", "spec/l2/MCCondvar_timed.cfg", [co("a1", ["wait"]), co("a2", ["twait"], dur=1), th("a3", ["notify_one"])]),
        cvunit("cancel3", "spec/l2/MCCondvar_cancel.cfg", [co("a1", ["wait"]), th("a2", ["wait"]), co("a3", ["notify_one"])], victims=["a1"]),
        cvunit("all3", "spec/l2/MCCondvar_all.cfg", [co("a1", ["wait"]), th("a2", ["wait"]), co("a3", ["notify_one", "notify_all"])]),
        cvdeep("deep_cancel", [co("a1", ["wait"]), th("a2", ["notify_one"]), co("a3", ["wait"]), th("a4", ["notify_one"])], victims=["a1"], n=800),
        cvdeep("barrier2x2", [co("a1", ["barrier", "barrier"]), th("a2", ["barrier", "barrier"])], deep=False, n=300),
        cvdeep("barrier3", [co("a1", ["barrier"]), th("a2", ["barrier"]), co("a3", ["barrier"])], barrier=3, deep=False, n=300),
    ],
)

def cqunit(name, cfg, events, npoll, owner_co=False, n=300, fixed_cfg=None, **kw):
    tlc = [("spec/l2/MCCqueue.tla", cfg)] + ([("spec/l2/MCCqueue.tla", fixed_cfg)] if fixed_cfg else [])
    return dict(name=name, scenario="cqueue", tlc=tlc, sim_spec=("spec/l2/MCCqueue.tla", fixed_cfg or cfg),
                params=dict(events=events, npoll=npoll, owner_co=owner_co, workers=8),
                quick=dict(sim=dict(num=n, depth=300), explore=dict(n=200), dfs=dict(max=300, pb=2)),
                thorough=dict(sim=dict(num=5000, depth=300), explore=dict(n=3000), dfs=dict(max=5000, pb=3)), **kw)

C16_UNITS = [
    cqunit("select2", "spec/l2/MCCqueue_F8.cfg", [1, 1], 1, owner_co=False,
           tlc_expect_error="FinishedMeansJoined is violated|NoArmRunningAtReturn is violated", fixed_cfg="spec/l2/MCCqueue_select2.cfg"),
    cqunit("select2_co", "spec/l2/MCCqueue_select2.cfg", [1, 1], 1, owner_co=True),
    cqunit("poll3", "spec/l2/MCCqueue_poll3.cfg", [2, 1], 3, owner_co=True),
    cqunit("select3", "spec/l2/MCCqueue_select3.cfg", [1, 1, 1], 1, owner_co=False, n=300),
]
C16_UNITS += [
    # finding F19: the kernel side of an arm's yield can outlive the arm and the scope
    dict(name="kernel_race", scenario="cqueue",
         tlc=[("spec/l2/MCCqueue.tla", "spec/l2/MCCqueue_F19.cfg"), ("spec/l2/MCCqueue.tla", "spec/l2/MCCqueue_F19fixed.cfg")],
         tlc_expect_error="NoKernelAtReturn is violated",
         sim_spec=("spec/l2/MCCqueue.tla", "spec/l2/MCCqueue_F19fixed.cfg"),
         params=dict(events=[1, 1], npoll=1, owner_co=False, workers=8, urgent_kernel=False),
         quick=dict(sim=dict(num=150, depth=300), explore=dict(n=150), dfs=dict(max=200, pb=2)),
         thorough=dict(sim=dict(num=2000, depth=300), explore=dict(n=2000), dfs=dict(max=3000, pb=3))),
]
C16_UNITS += [
    # an arm panics while the other arm is still blocked in its top half and the poller may be asleep:
    # the panic must reach the poller (explore only: the blocking top half is outside the spec)
    dict(name="panic_top", scenario="cqueue",
         params=dict(events=[1, 1], npoll=1, owner_co=False, workers=8, block_top=[0], panic_top=1),
         quick=dict(explore=dict(n=300), dfs=dict(max=300, pb=2)), thorough=dict(explore=dict(n=3000), dfs=dict(max=3000, pb=3))),
    dict(name="panic_bottom", scenario="cqueue",
         params=dict(events=[1, 1], npoll=2, owner_co=True, workers=8, panic_arm=0),
         quick=dict(explore=dict(n=300), dfs=dict(max=300, pb=2)), thorough=dict(explore=dict(n=3000), dfs=dict(max=3000, pb=3))),
]
PROPS["C16"] = dict(assumptions=["the event queue is a linearizable FIFO (C03); AbsBlocker (C02); join contract (C01)"], units=C16_UNITS)

def scunit(name, n=400, **params):
    return dict(name=name, scenario="scope", params=dict(workers=8, **params),
                quick=dict(explore=dict(n=n), dfs=dict(max=n, pb=2)),
                thorough=dict(explore=dict(n=10 * n), dfs=dict(max=10 * n, pb=3)))
PROPS["C14"] = dict(
    assumptions=["AbsBlocker (C02); join contract (C01)"],
    units=[
        dict(name="scope_spec",
             tlc=[("spec/l2/Scope.tla", "spec/l2/MCScope_F7.cfg"), ("spec/l2/Scope.tla", "spec/l2/MCScope_fixed.cfg")],
             tlc_expect_error="FrameOutlivesChildren is violated"),
        scunit("cancel_owner", children=2, steps=2, owner_co=True, cancel_owner=True, n=500),
        scunit("owner_panic", children=2, steps=2, owner_co=True, owner_panic=True),
        scunit("child_panic", children=2, steps=1, owner_co=False, child_panic=1),
        scunit("child_panic_lifo", children=3, steps=2, owner_co=True, child_panic=2, explicit_join=False),
        scunit("plain_thread", children=2, steps=2, owner_co=False),
    ] + [dict(u, name="cq_" + u["name"]) for u in C16_UNITS if u["name"] in ("select2", "select2_co", "kernel_race", "panic_top")],
)

def pkunit(name, n=500, **params):
    return dict(name=name, scenario="park", params=dict(workers=8, **params),
                quick=dict(explore=dict(n=n), dfs=dict(max=n, pb=2)),
                thorough=dict(explore=dict(n=10 * n), dfs=dict(max=10 * n, pb=3)))
C02_UNITS = [
    dict(name="park_spec", tlc=[("spec/l1/MCPark.tla", "spec/l1/MCPark.cfg")]),
    pkunit("blocker2", parker_co=True, kind="blocker", rounds=["park", "tpark"], unparkers=2, unparks_each=1),
    pkunit("blocker_co", parker_co=True, kind="blocker", rounds=["park", "park"], unparkers=2, unparks_each=1, unparker_co=True),
    pkunit("handle3", parker_co=True, kind="handle", rounds=["park", "tpark", "park"], unparkers=2, unparks_each=2),
    pkunit("cancel1", parker_co=True, kind="blocker", rounds=["park"], unparkers=1, unparks_each=1, canceller=True),
    pkunit("thread2", parker_co=False, kind="blocker", rounds=["park", "tpark"], unparkers=2, unparks_each=1, n=200),
    # code -> spec: the point traces of these explored executions are validated by TLC against Park.tla (TVPark.tla)
    dict(pkunit("handle_tv", parker_co=True, kind="handle", rounds=["tpark", "park"], unparkers=2, unparks_each=1, canceller=True, ao=False, n=400),
         tv_custom=("spec/l1/TVPark.tla", "spec/l1/TVPark.cfg", "park")),
]
PROPS["C02"] = dict(assumptions=["run queues deliver every scheduled coroutine (C01, C03, C04); timer contract (C08)"], units=C02_UNITS)
# (registered below, once C15's units exist: a park must not return a result left behind by an earlier occupant of the stack)

# ---------------------------------------------------------------------------------------------
# C15: coroutine-local storage; nothing inherited through the stack pool
# ---------------------------------------------------------------------------------------------
def ruunit(kind, n=150):
    cfg = f"spec/l1/MCReuse_{kind}.cfg"
    return dict(name="reuse_" + kind, scenario="reuse",
                tlc=[("spec/l1/MCReuse.tla", cfg)], sim_spec=("spec/l1/MCReuse.tla", cfg),
                params=dict(kind=kind, pool_capacity=1, workers=8),
                quick=dict(sim=dict(num=60, depth=80), explore=dict(n=n), dfs=dict(max=n, pb=2)),
                thorough=dict(sim=dict(num=600, depth=80), explore=dict(n=10 * n), dfs=dict(max=10 * n, pb=3)))
def clsunit(name, actors, victims, n=300, **kw):
    return dict(name=name, scenario="cls", params=dict(actors=actors, victims=victims, workers=8, **kw),
                quick=dict(explore=dict(n=n), dfs=dict(max=n, pb=2)),
                thorough=dict(explore=dict(n=10 * n), dfs=dict(max=10 * n, pb=3)))
def ca(name, co=True, rounds=2, end="ret"):
    return dict(name=name, co=co, rounds=rounds, end=end)
C15_UNITS = [
    dict(name="para_matrix",
         tlc=[("spec/l1/Cls.tla", "spec/l1/MCCls_F14.cfg"), ("spec/l1/Cls.tla", "spec/l1/MCCls.cfg")],
         tlc_expect_error="FreshStart is violated"),
    dict(name="reuse_spec_f14",
         tlc=[("spec/l1/MCReuse.tla", "spec/l1/MCReuse_select_cancel_F14.cfg"), ("spec/l1/MCReuse.tla", "spec/l1/MCReuse_select_cancel.cfg")],
         tlc_expect_error="StartsClean is violated"),
] + [ruunit(k) for k in ("normal", "panic", "park_cancel", "sleep_cancel", "tpark_timeout", "select_cancel",
                       # a destructor that yields, run by the Cancel panic (C15-3); the user-panic variant is a C13 unit (F25)
                       "sleep_dropyield_cancel")] + [
    dict(ruunit("tpark_timeout"), name="reuse_handle_timeout", params=dict(kind="handle_timeout", pool_capacity=1, workers=8)),
    clsunit("cls4", [ca("a1"), ca("a2", end="panic"), ca("a3"), ca("t1", co=False, rounds=1)], ["a3"], pool_capacity=1),
    clsunit("cls_many", [ca("a1", rounds=3), ca("a2", rounds=3), ca("a3", rounds=1), ca("a4", rounds=1, end="panic"), ca("t1", co=False, rounds=2)], ["a1"]),
]
PROPS["C15"] = dict(assumptions=["the generator crate gives each generator its own stack and local-data pointer (trusted)"], units=C15_UNITS)
C15_UNITS += [
    # the occupant's last park is raced by its timer and an unpark at atomic-step granularity; then the innocent one
    pkunit("timer_vs_unpark_then_innocent", parker_co=True, kind="blocker", rounds=["tpark"], unparkers=1, unparks_each=1, innocent=True, pool_capacity=1, n=400),
    pkunit("handle_timer_vs_unpark_then_innocent", parker_co=True, kind="handle", rounds=["tpark", "tpark"], unparkers=1, unparks_each=2, innocent=True, pool_capacity=1, n=300),
    pkunit("cancel_vs_unpark_then_innocent", parker_co=True, kind="blocker", rounds=["park"], unparkers=1, unparks_each=1, canceller=True, innocent=True, pool_capacity=1, n=300),
    # the same through a SyncBlocker (Semphore::wait: its Park does not raise the Cancel panic in yield_back, so a Canceled
    # result reaches the epilogue of park_timeout, which has to consume it whatever the token says; seeded change C09-3)
    pkunit("cancel_vs_post_then_innocent", parker_co=True, kind="blocker", rounds=["sem"], unparkers=1, unparks_each=1, canceller=True, innocent=True, pool_capacity=1, n=300),
]
PROPS["C02"]["units"] += [dict(u, name="stale_result_" + u["name"]) for u in C15_UNITS if u["name"] in ("reuse_park_cancel", "reuse_sleep_cancel", "reuse_select_cancel", "reuse_sleep_dropyield_cancel")]

# ---------------------------------------------------------------------------------------------
# C13: a panic stays in its coroutine; poisoning follows std
# ---------------------------------------------------------------------------------------------
def mpunit(name, actors, victims, n=300):
    return dict(name=name, scenario="mutex", params=dict(actors=actors, victims=victims, workers=8, check_poison=True),
                quick=dict(explore=dict(n=n), dfs=dict(max=n, pb=2)),
                thorough=dict(explore=dict(n=10 * n), dfs=dict(max=10 * n, pb=3)))
C13_UNITS = [
    dict(name="poison_spec",
         tlc=[("spec/l2/MCPoison.tla", "spec/l2/MCPoison_F21.cfg"), ("spec/l2/MCPoison.tla", "spec/l2/MCPoison_F21fixed.cfg"),
              ("spec/l2/MCPoison.tla", "spec/l2/MCPoison.cfg")],
         tlc_expect_error="PoisonIffPanic is violated"),
    mpunit("mutex_panic", [co("a1", ["plock"]), co("a2", ["lock", "lock"]), th("a3", ["lock"])], []),
    mpunit("mutex_cancel_in_guard", [co("a1", ["ylock", "lock"]), co("a2", ["lock", "lock"]), th("a3", ["lock"])], ["a1"]),
    mpunit("mutex_panic_cancel_pending", [co("a1", ["plock"]), co("a2", ["lock", "lock"]), th("a3", ["lock"])], ["a1"]),
] + [dict(u, name="rw_" + u["name"]) for u in PROPS["C12"]["units"] if u["name"] in ("panic3", "poisoned3")] \
  + [dict(ruunit("panic"), name="stack_reuse_after_panic"),
     # the panicking coroutine owns a guard whose destructor yields; a cancel may be pending or arrive during that yield (C13-3; F25)
     dict(ruunit("dropyield_cancel"), name="stack_reuse_after_panic_dropyield", params=dict(kind="dropyield_cancel", pool_capacity=1, workers=8, cancel_first=True), tv=False,
          # (the hold removes the model's other order: exploration only, no replay of model behaviours)
          quick=dict(explore=dict(n=150), dfs=dict(max=150, pb=2)), thorough=dict(explore=dict(n=1500), dfs=dict(max=1500, pb=3))),
     # ... and the cancel racing that yield (F25: the process aborts; the worker threads' panic counts are off afterwards,
     # so everything this unit's process shows belongs to that finding)
     dict(ruunit("dropyield_cancel", n=60), name="panic_dropyield_cancel_race", tv=False),
     # the model of that finding: per-thread panic counters vs a coroutine that migrates while its stack unwinds
     dict(name="panic_count_spec", tlc=[("spec/l1/PanicCount.tla", "spec/l1/MCPanicCount.cfg"), ("spec/l1/PanicCount.tla", "spec/l1/MCPanicCount_pinned.cfg")],
          tlc_expect_error="Contained is violated"),
     dict(name="panic_count_counters_spec", tlc=[("spec/l1/PanicCount.tla", "spec/l1/MCPanicCount_counters.cfg")],
          tlc_expect_error="CountersSound is violated"),
     dict(ruunit("sleep_dropyield_cancel"), name="stack_reuse_after_cancel_dropyield"),
     clsunit("locals_after_panic", [ca("a1"), ca("a2", end="panic"), ca("a3", end="panic"), ca("a4")], [], pool_capacity=1)] \
  + [dict(u, name="scope_" + u["name"]) for u in PROPS["C14"]["units"] if u["name"] in ("owner_panic", "child_panic", "child_panic_lifo")] \
  + [dict(u, name="cq_" + u["name"]) for u in C16_UNITS if u["name"] in ("panic_top", "panic_bottom")]
PROPS["C13"] = dict(assumptions=["Mutex/RwLock protocols (C05, C12); join contract (C01)"], units=C13_UNITS)

# ---------------------------------------------------------------------------------------------
# C09: cancellation
# ---------------------------------------------------------------------------------------------
def cmunit(name, prog, after=0, n=250):
    return dict(name=name, scenario="cancelmix", params=dict(prog=prog, after=after, workers=8),
                quick=dict(explore=dict(n=n), dfs=dict(max=n, pb=2)),
                thorough=dict(explore=dict(n=10 * n), dfs=dict(max=10 * n, pb=3)))
def _pick(pid, names, prefix):
    return [dict(u, name=prefix + u["name"]) for u in PROPS[pid]["units"] if u["name"] in names]
C09_UNITS = [
    # the cancel protocol itself at atomic-step granularity (canceller as an actor): Park.tla + the park scenario
    dict(name="park_spec", tlc=[("spec/l1/MCPark.tla", "spec/l1/MCPark.cfg")]),
    [u for u in C02_UNITS if u["name"] == "handle_tv"][0],
    pkunit("cancel_blocker", parker_co=True, kind="blocker", rounds=["park"], unparkers=1, unparks_each=1, canceller=True),
    pkunit("cancel_blocker_alone", parker_co=True, kind="blocker", rounds=["park"], unparkers=0, unparks_each=0, canceller=True),
    pkunit("cancel_handle", parker_co=True, kind="handle", rounds=["park", "tpark"], unparkers=1, unparks_each=1, canceller=True),
    pkunit("cancel_sleep", parker_co=True, kind="handle", rounds=["sleep"], unparkers=0, unparks_each=0, canceller=True),
    # F24: the cancel registration over two consecutive blocking calls (CancelReg.tla): counter-examples on the pinned order,
    # repaired order verified; the real code explored with the coroutine free to run while the kernel side of its previous
    # yield is still at work (no hold-back), every explored execution validated by TLC against the repaired model
    dict(name="cancelreg_sleep_spec", tlc=[("spec/l1/MCCancelReg.tla", "spec/l1/MCCancelReg_sleep.cfg"), ("spec/l1/MCCancelReg.tla", "spec/l1/MCCancelReg_sleep_fixed.cfg")],
         tlc_expect_error="NoLostCancel is violated"),
    dict(name="cancelreg_park_spec", tlc=[("spec/l1/MCCancelReg.tla", "spec/l1/MCCancelReg_park.cfg"), ("spec/l1/MCCancelReg.tla", "spec/l1/MCCancelReg_park_fixed.cfg")],
         tlc_expect_error="NoLostCancel is violated"),
    dict(pkunit("reg_sleep_park", parker_co=True, kind="handle", rounds=["sleep", "park"], unparkers=0, unparks_each=0, canceller=True, ao=False, no_holdback=True, n=400),
         tv_gen=("spec/l1/MCCancelReg.tla", "spec/l1/MCCancelReg_sleep_fixed.cfg", "reg_sleep")),
    dict(pkunit("reg_park_park", parker_co=True, kind="blocker", rounds=["park", "park"], unparkers=1, unparks_each=1, canceller=True, ao=False, no_holdback=True,
                unpark_first_only=True, n=400),
         tv_gen=("spec/l1/MCCancelReg.tla", "spec/l1/MCCancelReg_park_fixed.cfg", "reg_park")),
    # one victim through every primitive: join result, drops, nothing leaked or poisoned, no hang
    cmunit("mix_a0", ["park", "sleep", "lock", "sem", "recv"], 0),
    cmunit("mix_a2", ["park", "sleep", "lock", "sem", "recv"], 2),
    cmunit("mix_a3", ["park", "sleep", "lock", "sem", "recv"], 3),
    cmunit("mix_b0", ["mrecv", "flag", "cv", "join", "rwlock"], 0),
    cmunit("mix_b2", ["mrecv", "flag", "cv", "join", "rwlock"], 2),
    cmunit("mix_b4", ["mrecv", "flag", "cv", "join", "rwlock"], 4),
    cmunit("mix_c1", ["join", "recv", "park", "cv"], 1),
    cmunit("mix_d", ["sem", "lock", "rwlock", "mrecv", "sleep", "flag"], 1),
    cmunit("mix_d4", ["sem", "lock", "rwlock", "mrecv", "sleep", "flag"], 4),
] + _pick("C05", ("co3",), "mutex_") + _pick("C10", ("cancel3", "mix3"), "sem_") + _pick("C11", ("cancel3", "deep_cancel"), "cv_") \
  + _pick("C12", ("clean3",), "rw_") + _pick("C06", ("mpsc_cancel",), "chan_") + _pick("C14", ("cancel_owner",), "scope_") \
  + _pick("C13", ("mutex_cancel_in_guard", "mutex_panic_cancel_pending"), "poison_") \
  + _pick("C15", ("reuse_park_cancel", "reuse_sleep_cancel", "reuse_select_cancel", "reuse_sleep_dropyield_cancel",
                  # a cancel racing the unpark that chose this waiter, then an innocent coroutine on the same stack
                  "cancel_vs_unpark_then_innocent", "cancel_vs_post_then_innocent"), "innocent_")
PROPS["C09"] = dict(assumptions=["socket read/accept/connect cancellation is decided with C18"], units=C09_UNITS)

# ---------------------------------------------------------------------------------------------
# C03 / C04 / C19: the lock-free queues of may_queue
# ---------------------------------------------------------------------------------------------
QLIN = ("spec/l0/QueueLin.tla", "spec/l0/QueueLin.cfg")
def qa(name, prog):
    return dict(name=name, prog=prog)
def qunit(name, kind, start, actors, n=400, prefill=0, **kw):
    return dict(name=name, scenario="queue", params=dict(kind=kind, start=start, prefill=prefill, actors=actors, workers=2, **kw),
                trace_spec=QLIN, trace_reject_is_violation=True,
                quick=dict(explore=dict(n=n), dfs=dict(max=n, pb=2)),
                thorough=dict(explore=dict(n=10 * n), dfs=dict(max=10 * n, pb=3)))
C03_UNITS = [
    dict(name="mpsc_spec", tlc=[("spec/l0/MpscQueue.tla", "spec/l0/MCMpscQueue.cfg")]),
    dict(name="spsc_spec", tlc=[("spec/l0/SpscQueue.tla", "spec/l0/MCSpscQueue.cfg")]),
    qunit("mpsc_mid", "mpsc", 30, [qa("p1", ["push", "push"]), qa("p2", ["push", "push"]), qa("c", ["pop", "len", "pop", "bulk", "empty"])]),
    qunit("mpsc_boundary", "mpsc", 62, [qa("p1", ["push", "push"]), qa("p2", ["push", "push"]), qa("c", ["pop", "pop", "bulk", "pop"])]),
    qunit("mpsc_boundary3", "mpsc", 61, [qa("p1", ["push", "push"]), qa("p2", ["push"]), qa("p3", ["push", "push"]), qa("c", ["bulk", "pop", "bulk", "len"])]),
    qunit("mpsc_fresh", "mpsc", 0, [qa("p1", ["push"]), qa("p2", ["push"]), qa("c", ["empty", "pop", "len", "pop", "pop"])]),
    qunit("spsc_mid", "spsc", 5, [qa("p1", ["push", "push", "push", "push"]), qa("c", ["pop", "len", "bulk", "pop", "empty", "pop"])]),
    qunit("spsc_boundary", "spsc", 30, [qa("p1", ["push", "push", "push", "push"]), qa("c", ["pop", "len", "bulk", "pop", "empty", "pop"])]),
    qunit("spsc_boundary2", "spsc", 31, [qa("p1", ["push", "push", "push"]), qa("c", ["bulk", "pop", "bulk", "pop"])]),
    # the producer is almost two blocks ahead: the block the consumer drains is the next one the producer recycles
    qunit("spsc_recycle", "spsc", 32, [qa("p1", ["push", "push", "push"]), qa("c", ["bulk", "pop", "bulk"])], prefill=63),
    qunit("spsc_recycle_pop", "spsc", 63, [qa("p1", ["push", "push", "push"]), qa("c", ["pop", "pop", "bulk"])], prefill=63),
    qunit("mpsc_ahead", "mpsc", 62, [qa("p1", ["push", "push"]), qa("p2", ["push"]), qa("c", ["pop", "bulk", "pop", "bulk"])], prefill=66),
]
PROPS["C03"] = dict(assumptions=["sequentially consistent memory; block size of the real code (32/64), model block size 2-4"], units=C03_UNITS)
C04_UNITS = [
    dict(name="spmc_spec", tlc=[("spec/l0/MCSpmcQueue.tla", "spec/l0/MCSpmcQueue.cfg"), ("spec/l0/MCSpmcQueue.tla", "spec/l0/MCSpmcQueue_ABA.cfg")]),
    qunit("steal_boundary", "steal", 29, [qa("o", ["push", "push", "push", "lpop", "push", "lpop", "lpop"]), qa("s1", ["steal", "steal"]), qa("s2", ["steal"])]),
    qunit("steal_mid", "steal", 3, [qa("o", ["push", "push", "lpop", "push", "push", "lpop"]), qa("s1", ["steal"]), qa("s2", ["steal", "steal"])]),
    qunit("steal_last_slot", "steal", 30, [qa("o", ["push", "push", "lpop", "push", "lpop"]), qa("s1", ["steal", "steal"])]),
    qunit("spmcq_boundary", "spmcq", 30, [qa("o", ["push", "push", "push", "push"]), qa("s1", ["pop", "pop"]), qa("s2", ["bulk", "pop"])]),
    qunit("steal_ahead", "steal", 30, [qa("o", ["push", "lpop", "push", "lpop"]), qa("s1", ["steal"]), qa("s2", ["steal", "steal"])], prefill=34),
    qunit("spmcq_ahead", "spmcq", 31, [qa("o", ["push", "push"]), qa("s1", ["pop", "bulk"]), qa("s2", ["bulk", "pop"])], prefill=33),
    # ABA: the stealer is held right before its CAS on head while the owner works through two blocks; the harness'
    # allocator hands the freed block out again at the same address, so the stale CAS succeeds on the new incarnation
    qunit("steal_aba", "steal", 0, [qa("o", ["lpop"] * 3 + ["push", "lpop"] * 61 + ["push", "push", "push", "lpop", "lpop", "lpop"]), qa("s1", ["steal"])],
          n=60, prefill=3, lifo_alloc=True,
          holds=[dict(actor="s1", site="q.cas", nth=1, until_actor="o", until_site="qh.op", until_n=127)]),
    qunit("spmcq_aba", "spmcq", 0, [qa("o", ["push"] * 66), qa("s1", ["pop"]), qa("s2", ["bulk"] * 4 + ["pop"] * 3)],
          n=60, prefill=2, lifo_alloc=True,
          holds=[dict(actor="s1", site="q.cas", nth=1, until_actor="o", until_site="qh.op", until_n=64)]),
    # ABA in plain pop with the queue EMPTY at the stale CAS: the consumer claims the slot the owner is about to push
    # (pop_index == tail.index) and has to wait for that push (found missing by seeded change C04-3); the "nop" gives the
    # held consumer a moment between the owner's last pop and its next push
    qunit("spmcq_aba_pop_empty", "spmcq", 0, [qa("o", ["pop"] + ["push", "pop"] * 63 + ["nop", "push"]), qa("s1", ["pop"])],
          n=60, prefill=1, lifo_alloc=True,
          holds=[dict(actor="s1", site="q.cas", nth=1, until_actor="o", until_site="qh.op", until_n=128)]),
    qunit("spmcq_mid", "spmcq", 7, [qa("o", ["push", "push", "push"]), qa("s1", ["pop", "bulk"]), qa("s2", ["pop", "pop"]), qa("s3", ["bulk"])]),
]
PROPS["C04"] = dict(assumptions=["sequentially consistent memory"], units=C04_UNITS)
C19_UNITS = [
    dict(name="tlist_spec", tlc=[("spec/l0/MCTimerList.tla", "spec/l0/MCTimerList.cfg"), ("spec/l0/MCTimerList.tla", "spec/l0/MCTimerList_c2.cfg"),
                                  ("spec/l0/MCTimerList.tla", "spec/l0/MCTimerList_c3.cfg")]),
    qunit("tlist_mix", "tlist", 0, [qa("p1", ["push", "push"]), qa("p2", ["push"]), qa("c", ["peek", "rm0", "pop", "rm1", "popif_even", "pop", "rm2", "pop"])]),
    qunit("tlist_rm", "tlist", 2, [qa("p1", ["push", "push"]), qa("p2", ["push", "push"]), qa("c", ["rm1", "rm0", "pop", "rm3", "rm2", "pop", "empty"])]),
    qunit("tlist_prefilled", "tlist", 1, [qa("p1", ["push"]), qa("p2", ["push"]), qa("c", ["rm1", "pop", "rm2", "rm0", "pop", "peek", "pop"])], prefill=3),
    qunit("tlist_pop", "tlist", 0, [qa("p1", ["push", "push"]), qa("p2", ["push"]), qa("p3", ["push"]), qa("c", ["pop", "popif_any", "peek", "pop", "pop", "empty"])]),
]
PROPS["C19"] = dict(assumptions=["sequentially consistent memory; remove() is called by the consumer only (as in the timer thread)"], units=C19_UNITS)

# ---------------------------------------------------------------------------------------------
# C08: timed waits
# ---------------------------------------------------------------------------------------------
MSNS = 1_000_000
def tmunit(name, actors, victims=(), n=300):
    return dict(name=name, scenario="timers", params=dict(actors=actors, victims=list(victims), workers=8),
                quick=dict(explore=dict(n=n), dfs=dict(max=n, pb=2)),
                thorough=dict(explore=dict(n=10 * n), dfs=dict(max=10 * n, pb=3)))
def ta(name, prog, co=True):
    return dict(name=name, co=co, prog=[[op, ns] for op, ns in prog])
C08_UNITS = [
    # Park.tla with the time-out re-check (F6): counter-example on the pinned protocol, repaired protocol verified
    dict(name="park_spec", tlc=[("spec/l1/MCPark.tla", "spec/l1/MCPark_F6.cfg"), ("spec/l1/MCPark.tla", "spec/l1/MCPark_F6fixed.cfg"),
                                ("spec/l1/MCPark.tla", "spec/l1/MCPark.cfg")],
         tlc_expect_error="NoLostTimeout is violated"),
    dict(name="atomic_dur_spec", tlc=[("spec/l1/MCAtomicDur.tla", "spec/l1/MCAtomicDur_F5.cfg"), ("spec/l1/MCAtomicDur.tla", "spec/l1/MCAtomicDur.cfg")],
         tlc_expect_error="NeverEarly is violated|AlwaysArmed is violated"),
    dict(name="timer_spec", tlc=[("spec/l1/MCTimer.tla", "spec/l1/MCTimer_friendly.cfg")]),
    dict(name="timer_spec_adversarial", tier="thorough", tlc=[("spec/l1/MCTimer.tla", "spec/l1/MCTimer_adversarial.cfg")]),
    # the park protocol at atomic-step granularity with nobody but the timer to end the wait: every duration
    [u for u in C02_UNITS if u["name"] == "handle_tv"][0],
    pkunit("tpark_10ms", parker_co=True, kind="blocker", rounds=["tpark", "tpark"], unparkers=0, unparks_each=0, n=300),
    pkunit("tpark_500us", parker_co=True, kind="blocker", rounds=["tpark", "tpark"], unparkers=0, unparks_each=0, dur_ns=500_000, n=200),
    pkunit("tpark_1500us", parker_co=True, kind="blocker", rounds=["tpark"], unparkers=1, unparks_each=1, dur_ns=1_500_000, n=200),
    pkunit("tpark_zero", parker_co=True, kind="blocker", rounds=["tpark", "park"], unparkers=1, unparks_each=1, dur_ns=0, n=200),
    pkunit("hpark_sleep", parker_co=True, kind="handle", rounds=["tpark", "sleep", "tpark"], unparkers=0, unparks_each=0, n=300),
    pkunit("thread_tpark", parker_co=False, kind="blocker", rounds=["tpark"], unparkers=0, unparks_each=0, dur_ns=1_500_000, n=50),
    # many timers at once, all kinds of timed waits, equal and different intervals, a cancelled sleeper, odd durations
    tmunit("mix5", [ta("a1", [("sleep", 20 * MSNS), ("tpark", 10 * MSNS), ("sem", 30 * MSNS)]),
                    ta("a2", [("recv", 10 * MSNS), ("sleep", 10 * MSNS), ("cv", 20 * MSNS)]),
                    ta("a3", [("flag", 30 * MSNS), ("mrecv", 10 * MSNS)]),
                    ta("a4", [("hpark", 20 * MSNS), ("sleep", 500_000), ("tpark", 1_500_000), ("sem", 0)]),
                    ta("a5", [("sleep", 10 * MSNS), ("sleep", 10 * MSNS), ("sleep", 10 * MSNS)])], victims=["a5"]),
    tmunit("odd_durations", [ta("a1", [("tpark", 1), ("sem", 999_999), ("recv", 1_000_001), ("sleep", 1)]),
                             ta("a2", [("flag", 2_500_000), ("cv", 0), ("mrecv", 300_000), ("sleep", 0)]),
                             ta("a3", [("sleep", 2 * MSNS), ("sleep", 2 * MSNS), ("tpark", 2 * MSNS)])]),
    tmunit("same_interval", [ta("a1", [("sleep", 10 * MSNS), ("sleep", 10 * MSNS)]), ta("a2", [("sleep", 10 * MSNS), ("tpark", 10 * MSNS)]),
                             ta("a3", [("tpark", 10 * MSNS), ("sleep", 10 * MSNS)]), ta("a4", [("sem", 10 * MSNS), ("recv", 10 * MSNS)]),
                             ta("t1", [("tpark", 2 * MSNS), ("sem", 1_500_000)], co=False)], victims=["a1", "a3"]),
    tmunit("cq_poll_rearm", [ta("a1", [("cqpoll", 20 * MSNS), ("cqpoll", 3 * MSNS)]), ta("a2", [("sleep", 5 * MSNS), ("sleep", 30 * MSNS)])], n=150),
] + _pick("C10", ("timed3", "timed4", "flag3"), "sem_") + _pick("C11", ("timed3",), "cv_") \
  + _pick("C06", ("mpsc_timed", "mpmc_timed", "mpmc_deep_timed"), "chan_") + _pick("C16", ("poll3",), "cq_")
PROPS["C08"] = dict(assumptions=["the generator switches stacks correctly; SC memory"], units=C08_UNITS)

# ---------------------------------------------------------------------------------------------
# C01: every spawned coroutine runs exactly once; join() reports its true outcome
# ---------------------------------------------------------------------------------------------
def spunit(name, n=300, **params):
    return dict(name=name, scenario="spawn", params=dict(workers=8, **params),
                quick=dict(explore=dict(n=n), dfs=dict(max=n, pb=2)),
                thorough=dict(explore=dict(n=10 * n), dfs=dict(max=10 * n, pb=3)))
def manyunit(name, workers, n=40, runs=40):
    return dict(name=name, scenario="spawn_many", params=dict(workers=workers, n=n, yields=3),
                quick=dict(explore=dict(n=runs)), thorough=dict(explore=dict(n=2 * runs)))
C01_UNITS = [
    dict(name="join_spec", tlc=[("spec/l1/Join.tla", "spec/l1/MCJoin.cfg")]),
    dict(name="sched_spec", tlc=[("spec/l1/MCSched.tla", "spec/l1/MCSched.cfg")]),
    # the global run queue hand-off: the two protections (read-then-collect, re-collect when empty) may each be
    # dropped alone, not both (first config: both dropped, counter-example expected)
    dict(name="globalq_spec", tlc=[("spec/l1/GlobalQ.tla", "spec/l1/MCGlobalQ_M.cfg"), ("spec/l1/GlobalQ.tla", "spec/l1/MCGlobalQ.cfg"),
                                   ("spec/l1/GlobalQ.tla", "spec/l1/MCGlobalQ_swap.cfg"), ("spec/l1/GlobalQ.tla", "spec/l1/MCGlobalQ_norecollect.cfg")],
         tlc_expect_error="NoStranded is violated"),
    dict(name="gq_handoff", scenario="gq", params=dict(workers=8, spawners=2, each=2, worker=2),
         quick=dict(explore=dict(n=300), dfs=dict(max=300, pb=2)), thorough=dict(explore=dict(n=3000), dfs=dict(max=3000, pb=3))),
    dict(name="gq_handoff3", scenario="gq", params=dict(workers=8, spawners=3, each=1, worker=5),
         quick=dict(explore=dict(n=200), dfs=dict(max=200, pb=2)), thorough=dict(explore=dict(n=2000), dfs=dict(max=2000, pb=3))),
    spunit("ret_thread", end="ret", **{"from": "thread"}, yields=2, polls=2, q_waits=True),
    spunit("ret_co", end="ret", **{"from": "co"}, yields=2, polls=3, q_waits=False),
    spunit("panic_thread", end="panic", **{"from": "thread"}, yields=1, polls=2, q_waits=True),
    spunit("panic_co", end="panic", **{"from": "co"}, yields=2, polls=2, q_waits=True),
    spunit("cancel_thread", end="cancel", **{"from": "thread"}, yields=2, polls=2, q_waits=True),
    spunit("cancel_co", end="cancel", **{"from": "co"}, yields=1, polls=2, q_waits=True),
    spunit("ret_custom_stack", end="ret", **{"from": "thread"}, yields=3, polls=2, q_waits=True, stack=0x4000),
    spunit("ret_noyield", end="ret", **{"from": "co"}, yields=0, polls=3, q_waits=True),
    # the joiner (a coroutine) is cancelled while it waits: no early "done"
    spunit("joiner_cancelled", end="ret", **{"from": "co"}, yields=3, polls=1, q_waits=False, victims=["s"]),
    spunit("joiner_cancelled_target_parked", end="cancel", **{"from": "co"}, yields=1, polls=1, q_waits=False, victims=["s"]),
    manyunit("many_w1", 1), manyunit("many_w3", 3), manyunit("many_w8", 8, n=60),
] + _pick("C14", ("plain_thread", "child_panic"), "scoped_") + _pick("C16", ("select2_co",), "cq_")
PROPS["C01"] = dict(assumptions=["the run queues hand every task to exactly one taker (C03, C04); AbsBlocker (C02)"], units=C01_UNITS)

# ---------------------------------------------------------------------------------------------
# C17 / C18: socket I/O
# ---------------------------------------------------------------------------------------------
def iounit(name, n=300, **params):
    return dict(name=name, scenario="io", params=dict(workers=8, **params),
                quick=dict(explore=dict(n=n), dfs=dict(max=n, pb=2)),
                thorough=dict(explore=dict(n=10 * n), dfs=dict(max=6 * n, pb=3)))
def iounit18(name, n=300, **params):
    """C18: the run without hold-back (late kernel sides of earlier yields interleave with the coroutine's next calls) keeps its
    quick budget in the thorough tier - deeper exploration of that space keeps producing new signatures of the open F15 / F23
    family (a lost cancel, an early time-out from a stale kernel side) that cannot be told from new defects without an analysis
    per signature; the thorough tier adds a 10x twin WITH hold-back instead."""
    q = dict(explore=dict(n=n), dfs=dict(max=n, pb=2))
    base = dict(name=name, scenario="io", params=dict(workers=8, **params), quick=q, thorough=q)
    twin = dict(name=name + "_hb", tier="thorough", scenario="io", params=dict(workers=8, **dict(params, no_holdback=False)),
                quick=q, thorough=dict(explore=dict(n=10 * n), dfs=dict(max=6 * n, pb=3)))
    return [base, twin]
def bulkunit(name, kind, runs=6, **params):
    return dict(name=name, scenario="io_bulk", params=dict(workers=4, kind=kind, **params),
                quick=dict(explore=dict(n=runs)), thorough=dict(explore=dict(n=20 * runs)))
def fxunit(name, transport, n=100):
    return dict(name=name, scenario="fdreuse", params=dict(workers=8, transport=transport),
                tv_gen=("spec/l3/FdReuse.tla", "spec/l3/MCFdReuse_fixed.cfg", "fdreuse"),
                quick=dict(explore=dict(n=n), dfs=dict(max=n, pb=3)),
                thorough=dict(explore=dict(n=10 * n), dfs=dict(max=10 * n, pb=4)))
C17_UNITS = [
    dict(name="iowait_spec", tlc=[("spec/l3/IoWait.tla", "spec/l3/MCIoWait.cfg")]),
    dict(name="stream_spec", tlc=[("spec/l3/Stream.tla", "spec/l3/MCStream.cfg")]),
    iounit("read_3_2_buf4", chunks=[3, 2], buf=4, close=True),
    iounit("read_1x4_buf2", chunks=[1, 1, 1, 1], buf=2, close=True, n=400),
    iounit("read_5_buf1", chunks=[5], buf=1, close=True),
    iounit("read_noclose", chunks=[2, 3], buf=8, close=False),
    iounit("read_empty_then_close", chunks=[], buf=4, close=True, n=100),
    iounit("read_paused_writer", chunks=[2, 2, 1], buf=3, close=True, pauses=[0, 2, 1]),
    iounit("tcp_read_3_2_buf4", chunks=[3, 2], buf=4, close=True, transport="tcp"),
    iounit("tcp_read_1x3_buf2", chunks=[1, 1, 1], buf=2, close=True, transport="tcp"),
    iounit("write_unix_40k", role="write", write_total=40000, peer_chunk=8192, n=150),
    iounit("write_tcp_6m", role="write", write_total=6_000_000, peer_chunk=400_000, transport="tcp", n=80),
    bulkunit("bulk_unix", "unix", conns=3, size=600_000, thread_reader=True),
    bulkunit("bulk_tcp", "tcp", conns=3, size=900_000, thread_reader=True),
    bulkunit("bulk_tcp_many", "tcp", conns=12, size=120_000),
    bulkunit("dgram_udp", "udp", conns=2),
    bulkunit("dgram_unix", "udg", conns=2),
    # the registration of a socket against the life cycle of its fd number (F26): counter-example on the pinned drop order
    # of CoIo, repaired order verified; the real drop / create / read race explored for CoIo (unix) and TcpStream, every
    # explored execution validated by TLC against the repaired model
    dict(name="fdreuse_spec", tlc=[("spec/l3/FdReuse.tla", "spec/l3/MCFdReuse.cfg"), ("spec/l3/FdReuse.tla", "spec/l3/MCFdReuse_fixed.cfg")],
         tlc_expect_error="LiveStaysRegistered is violated|NoMissedReadiness is violated"),
    fxunit("fdreuse_unix", "unix"),
    fxunit("fdreuse_tcp", "tcp"),
]
PROPS["C17"] = dict(assumptions=["the kernel delivers socket data and edge-triggered epoll events as documented"], units=C17_UNITS)
C18_UNITS = [
    # the hand-over between an expiring io timer and an early completion on another worker: known finding F15
    dict(name="io_timer_race_spec", tlc=[("spec/l3/IoTimerRace.tla", "spec/l3/MCIoTimerRace.cfg")], tlc_expect_error="NothingBad is violated"),
    *iounit18("timeout_then_data", chunks=[2, 2], buf=4, close=True, read_timeout=2, pauses=[0, 3], n=250),
    *iounit18("stale_timer", chunks=[2, 2], buf=4, close=True, read_timeout=3, pauses=[1, 4], n=250),
    *iounit18("data_in_time", chunks=[1, 1, 1], buf=2, close=True, read_timeout=5, pauses=[1, 1, 1], n=250),
    *iounit18("cancel_blocked_read", chunks=[3, 2], buf=2, close=False, victims=["r"]),
    *iounit18("cancel_idle_read", chunks=[], buf=2, close=False, victims=["r"], n=200),
    *iounit18("cancel_idle_read_tcp", chunks=[], buf=2, close=False, victims=["r"], transport="tcp", n=150),
    *iounit18("tcp_timeout_then_data", chunks=[2, 2], buf=4, close=True, read_timeout=2, pauses=[0, 3], transport="tcp", n=150),
    *iounit18("cancel_timed_read", chunks=[2], buf=2, close=False, victims=["r"], read_timeout=4, pauses=[2], n=200),
    # a socket the cancelled coroutine does not own (datagram socket shared through an Arc): the cancel leaves the read
    # time-out armed, it fails the next coroutine's recv early (F27, open): IoSharedCancel.tla has the counter-example for the
    # code as it is and verifies a cancel that disarms; the `ioshared` scenario shows it on the real code
    dict(name="ioshared_spec", tlc=[("spec/l3/IoSharedCancel.tla", "spec/l3/MCIoSharedCancel.cfg"), ("spec/l3/IoSharedCancel.tla", "spec/l3/MCIoSharedCancel_disarm.cfg")],
         tlc_expect_error="NoOrphanEntry is violated|NoEarlyTimeout is violated"),
    # (one execution shows it; the stale entry goes on to trip over the F15 races in the executions that follow, so the
    # scenario process stops at the first finding)
    dict(name="shared_cancel_then_recv", scenario="ioshared", params=dict(workers=8, short=5, long=50),
         mv_extra=["--max-violations", "1"], quick=dict(explore=dict(n=5)), thorough=dict(explore=dict(n=5))),
]
PROPS["C18"] = dict(assumptions=["virtual clock for the io timers; the fd is served by one selector"], units=C18_UNITS)
