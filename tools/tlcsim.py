#!/usr/bin/env python3
"""Behaviour export: run `tlc -simulate file=...` on an MC wrapper whose `last` variable labels every
step (<<actor, site, expected-arg>> | <<"~", actor, _>> internal | <<"!what", arg, _>> environment) and
turn the trace files into replayable schedules (JSON)."""
import os, re, sys, json, glob, subprocess, shutil, hashlib

LAST_RE = re.compile(r'/\\ last = <<(.*?)>>\s*$', re.M)

def parse_last(txt):
    parts = [p.strip() for p in txt.split(',')]
    out = []
    for p in parts:
        if p.startswith('"'):
            out.append(p.strip('"'))
        else:
            try: out.append(int(p))
            except ValueError: out.append(p)
    return out

def parse_trace_file(path):
    txt = open(path, errors='replace').read()
    blocks = re.split(r'^STATE_\d+ ==\s*$', txt, flags=re.M)[1:]
    steps = []
    prev = None
    for b in blocks:
        body = b.split('\n\n')[0].strip()
        if body == prev:
            continue            # stutter
        prev = body
        m = LAST_RE.search(body)
        if not m:
            continue
        l = parse_last(m.group(1))
        if not l or l[0] == "":
            continue
        steps.append(l)
    return steps

def simulate(tla, cfg, num, depth, seed, workdir, extra=()):
    """returns list of behaviours (each a list of steps)"""
    shutil.rmtree(workdir, ignore_errors=True)
    os.makedirs(workdir + "/tr", exist_ok=True)
    # simulation configs: no VIEW, no deadlock check
    c = open(cfg).read()
    c = re.sub(r'^VIEW .*$', '', c, flags=re.M)
    c = re.sub(r'^CHECK_DEADLOCK .*$', 'CHECK_DEADLOCK FALSE', c, flags=re.M)
    if 'MCSpecU' in open(tla).read():
        c = re.sub(r'^SPECIFICATION MCSpec\s*$', 'SPECIFICATION MCSpecU', c, flags=re.M)
    simcfg = os.path.join(workdir, "sim.cfg")
    open(simcfg, "w").write(c)
    cmd = ["tlc", "-workers", "1", "-simulate", f"file={workdir}/tr/t,num={num}", "-depth", str(depth),
           "-seed", str(seed), "-metadir", workdir + "/meta", "-noGenerateSpecTE", "-config", simcfg, *extra, tla]
    r = subprocess.run(cmd, stdout=subprocess.PIPE, stderr=subprocess.STDOUT, text=True, timeout=600)
    if "Error:" in r.stdout and "states checked" not in r.stdout:
        sys.stderr.write(r.stdout[-3000:])
        raise SystemExit(2)
    behs = []
    seen = set()
    for f in sorted(glob.glob(workdir + "/tr/t_*")):
        st = parse_trace_file(f)
        key = hashlib.sha1(json.dumps(st).encode()).hexdigest()
        if key in seen or not st:
            continue
        seen.add(key)
        behs.append(st)
    shutil.rmtree(workdir + "/tr", ignore_errors=True)
    shutil.rmtree(workdir + "/meta", ignore_errors=True)
    return behs

def to_schedule(steps):
    """spec steps -> harness schedule: [actor, site, expect] | ["!what", arg]; internal steps dropped"""
    out = []
    for s in steps:
        if s[0] == "~":
            continue
        if isinstance(s[0], str) and s[0].startswith("!"):
            out.append([s[0], s[1] if len(s) > 1 else ""])
        else:
            if "." not in str(s[1]):
                continue        # label without a dot: no hook
            out.append([s[0], s[1], s[2] if len(s) > 2 else -1])
    return out

if __name__ == "__main__":
    tla, cfg, num, depth, seed, out = sys.argv[1:7]
    b = simulate(tla, cfg, int(num), int(depth), int(seed), "/verif/work/sim_cli")
    json.dump([to_schedule(x) for x in b], open(out, "w"))
    print(len(b), "behaviours; avg len", sum(map(len, b)) / max(1, len(b)))
