"""Claim texts per property (feeds MANIFEST.json)."""
HOOK_COMMITS = []   # filled by gen from git below
import subprocess
try:
    HOOK_COMMITS = subprocess.run(["git", "-C", "/repo", "log", "--format=%h", "--grep=^verif:"], stdout=subprocess.PIPE, text=True).stdout.split()
except Exception:
    pass

PENDING = "not built yet in this round; will be claimed when its check exists (see DESIGN.md §6 for the plan)"
NOT_APPLICABLE = {f"C{i:02d}": PENDING for i in range(1, 20)}

CLAIMS = {}
CLAIMS["C05"] = dict(
    text="Mutex.tla (literal model of mutex.rs over the SyncBlocker hand-shake) is checked exhaustively by TLC for 3 actors "
         "(lock/try_lock programs, one cancellable waiter): mutual exclusion, data visibility, never-empty pop, lock free at "
         "quiescence, no stranded waiter (deadlock-freedom). TLC behaviours are replayed step by step into the real "
         "may::sync::Mutex with coroutine and thread actors and a real cancel(); seeded/PCT and preemption-bounded systematic "
         "schedules of the real code are explored; every execution is judged by an occupancy/data/hang oracle.",
    note="Assumes the AbsBlocker contract of Park/ThreadPark (C02) and an atomic FIFO to_wake queue (C03); sequentially "
         "consistent memory; exhaustive only within the model's bounds (3 actors, <= 3 operations each, one cancel).",
    design_ref="DESIGN.md §6 C05",
)

CLAIMS["C10"] = dict(
    text="Semaphore.tla / SyncFlag.tla (literal models of semphore.rs and sync_flag.rs over the SyncBlocker hand-shake, "
         "timed waits driven by a virtual clock, one cancellable waiter) are checked exhaustively by TLC: never overdrawn, "
         "conservation at every quiescent state (value = initial + posts - successful waits, nobody parked while a permit "
         "exists), never-empty pop, deadlock-freedom up to legitimately blocked untimed waits; latch monotonicity for SyncFlag. "
         "TLC behaviours (incl. Tick = the timer of the earliest deadline fires, and cancel) are replayed into the real "
         "Semphore/SyncFlag with coroutine and thread actors; seeded and preemption-bounded schedules are explored; an "
         "arithmetic/hang/early-timeout oracle judges every execution.",
    note="Assumes AbsBlocker (C02) and timer contract (C08) for the layer below; crossbeam SegQueue trusted; sequentially "
         "consistent memory; exhaustive only within the model's bounds (3-4 actors, <= 3 operations each).",
    design_ref="DESIGN.md §6 C10",
)

CLAIMS["C12"] = dict(
    text="RwLock.tla (literal model of rwlock.rs: global lock with the SyncBlocker hand-shake, reader count under the internal "
         "mutex, poison flag, the Poisoned-guard paths of all four entry points, a panicking writer, a cancellable waiter) is "
         "checked exhaustively by TLC for 3 actors in clean, freshly poisoned and already poisoned state: writer exclusion, no "
         "counter underflow, never-empty pop, lock free once all guards are dropped, no stranded locker. The two defects of the "
         "pinned tree (F1, F2) are switchable in the spec: TLC shows their counter-examples with the switch off and verifies the "
         "repaired protocol with it on. TLC behaviours are replayed into the real RwLock (coroutine + thread actors, real "
         "cancel, guards recovered from PoisonError); seeded and preemption-bounded schedules are explored; an occupancy / "
         "try_write-after-all-dropped / panic / hang oracle judges every execution.",
    note="Assumes the Mutex contract for the internal rlock (C05) and AbsBlocker (C02); crossbeam SegQueue trusted; SC memory; "
         "exhaustive only within the model's bounds (3 actors, <= 2 operations each, one cancel).",
    design_ref="DESIGN.md §6 C12",
)

CLAIMS["C06"] = dict(
    text="MpscChan.tla / SpscChan.tla / MpmcChan.tla (literal models of the three channels: send, recv, try_recv, recv_timeout, "
         "clone and drop of either side, over the abstract queue and blocker/semaphore) are checked exhaustively by TLC for 2 "
         "senders x 1-2 messages and 1-2 receivers: delivered once, nothing invented, per-sender order, nothing lost at the end, "
         "deadlock-freedom = the send that makes a value available wakes the blocked receiver. TLC behaviours are replayed "
         "into the real channels with thread and coroutine endpoints, virtual-clock timeouts and a real cancel; seeded and "
         "preemption-bounded schedules are explored; a multiset / order / exactly-once-drop / hang oracle judges every execution.",
    note="Assumes linearizable FIFO queues (C03), AbsBlocker (C02), timer contract (C08), Semphore contract for mpmc (C10); SC "
         "memory; exhaustive only within the model's bounds.",
    design_ref="DESIGN.md §6 C06",
)
CLAIMS["C07"] = dict(
    text="Same specifications as C06 with the disconnect properties: Disconnected only after the queue is drained and all "
         "senders are gone, no receiver left blocked after the last sender's drop (deadlock-freedom with the drop at every "
         "position against each receiver's try / register / park steps), send fails after the port is dropped and left-over "
         "values are dropped exactly once. TLC behaviours replayed into the real channels; schedules explored; oracle: "
         "Disconnected-before-drain, receiver hang with no sender alive, drop counts after tear-down.",
    note="As C06.",
    design_ref="DESIGN.md §6 C07",
)

CLAIMS["C11"] = dict(
    text="Condvar.tla (literal model of wait_impl / notify_one / notify_all with the standard predicate client, the "
         "forwarding of a notification by a waiter that times out or is cancelled, re-lock before return) is checked "
         "exhaustively by TLC for 2 waiters + notifier with a timed bystander, a cancelled waiter and notify_all: no lost "
         "notification (state-based witness + deadlock-freedom), mutex re-acquired before wait returns. TLC behaviours are "
         "replayed into the real Condvar (coroutine + thread actors, virtual-clock timeouts, real cancel); Barrier and the "
         "predicate client are additionally explored with seeded and preemption-bounded schedules; oracle: occupancy of the "
         "mutex at every return of wait, served/notified arithmetic, one leader per Barrier generation, release only after n "
         "arrivals, hang.",
    note="The user mutex is abstract in the replayed spec (C05 decides it); WaitGroup is covered through the same Condvar "
         "paths only; SC memory; exhaustive only within the model's bounds.",
    design_ref="DESIGN.md §6 C11",
)

CLAIMS["C16"] = dict(
    text="Cqueue.tla (literal model of EventSender::send/drop, Cqueue::poll incl. the register-then-recheck, continue_bottom "
         "nested on the poller's stack, check_panic's join, Cqueue::drop's cancel-and-drain as used by cqueue::scope and "
         "select!) is checked exhaustively by TLC for 2-3 arms (oneshot and looping), thread and coroutine pollers: events "
         "consumed once, bottom half never without/before its top half, Finished only when every arm has ended and been "
         "joined, no arm running when the scope is left, poll returns only fully run arms, deadlock-freedom. The defect of the "
         "pinned tree (F8: Finished with a Done event unconsumed) is switchable in the spec. TLC behaviours are replayed into "
         "the real cqueue with the select coroutines as externally spawned actors; schedules are explored; oracle: per-arm "
         "top/bottom counters, tokens returned, arms still executing at scope exit, re-raised panic, hang.",
    note="poll with a timeout is covered by C08's deadline checks only; SC memory; exhaustive only within the model's bounds.",
    design_ref="DESIGN.md §6 C16",
)

CLAIMS["C14"] = dict(
    text="Scope.tla (literal model of Scope::drop_all, JoinState::join, Join::wait's load/register/re-load/park, the "
         "park short-circuit of a cancelled coroutine and the no-second-panic-while-unwinding rule) is checked by TLC for 1-2 "
         "children with the owner cancelled at every step: the frame outlives every child (the pinned tree's counter-example F7 "
         "is shown with the switch off, the repaired protocol verified with it on); Cqueue.tla covers cqueue::scope / select! "
         "(no arm and no kernel side of an arm still at work when the scope is left). The real coroutine::scope is explored "
         "under the baton with the children as externally spawned actors and a real cancel of the owner at every point, an owner "
         "panic, a child panic and a thread owner; the cqueue units are the replayed C16 units. Oracle: children (or arms) still "
         "running / touching the frame flag after the scope was left, panic propagation, result once, hang.",
    note="coroutine::scope is bound by exploration (seeded + preemption-bounded DFS over the join.* / scope.* points) and by the "
         "TLC-checked design model; step-level replay exists for the cqueue half only; SC memory; bounded instances.",
    design_ref="DESIGN.md §6 C14",
)

CLAIMS["C02"] = dict(
    text="Park.tla (literal model of park.rs: check_park's load/store|swap, the wait_kernel spin, the kernel side of the "
         "yield - timer, store into wait_co, state re-check, fast wake-up, cancel registration -, unpark's swap+take, the timer "
         "thread's take, the canceller's steps, two consecutive rounds) is checked exhaustively by TLC: resumed at most once per "
         "round, a token always has a taker (no lost wake-up, state-based witness), Canceled only after a cancel, deadlock-freedom. "
         "The real Park / ThreadPark are explored under the baton at the same granularity: the user side, the kernel side (an "
         "actor of its own per OS thread), unparkers (threads and coroutines), the runtime's timer thread and a canceller are "
         "stopped before every atomic step (seeded/PCT walk + preemption-bounded DFS), virtual clock for time-outs. Oracle: the "
         "parker sleeps although an unpark on this round's fresh Blocker / its handle has returned (or a cancel was issued), "
         "Timeout before the deadline, Canceled without cancel, panic, hang.",
    note="Bound by exploration of the real code at atomic-step granularity plus the TLC-checked design model; step-level replay of "
         "Park.tla behaviours is not wired up (labels of the draft differ from the hook names in places); SC memory; bounded instances.",
    design_ref="DESIGN.md §6 C02",
)

CLAIMS["C15"] = dict(
    text="Reuse.tla (the life of one pooled generator: its single result slot `para`, the cancel bit, the slot a suspended "
         "coroutine sits in, the timer, for a first occupant that ends normally, by a panic, cancelled in park / sleep, "
         "after a time-out, or cancelled inside EventSender::send exactly between check_cancel and the yield, followed by an "
         "innocent coroutine on the same stack) and Cls.tla (every event-source kind x every way of being resumed x programs "
         "of up to 3 calls) are checked exhaustively by TLC: a fresh coroutine starts with an empty result slot and its first "
         "blocking call reports nothing stale. The pinned tree's counter-example (F14) is shown with the switch off. Reuse.tla "
         "behaviours are replayed step by step into the real runtime with pool capacity 1 (stack reuse is verified per "
         "execution by comparing stack addresses); seeded and preemption-bounded schedules are explored. The `cls` scenario "
         "explores coroutine_local! keys in coroutines and a thread under yields, migration (timer-thread resumption), a "
         "cancel and panics. Oracle: first access sees the initial value, values survive yields/migration, initialiser once "
         "per context, each coroutine value dropped exactly once, thread fallback intact, the innocent's park returns Ok.",
    note="The map semantics of CoroutineLocal itself (TypeId-keyed HashMap) is exercised, not modelled; SC memory; bounded instances.",
    design_ref="DESIGN.md §6 C15",
)
CLAIMS["C13"] = dict(
    text="Poison.tla (guard creation / drop against thread::panicking and the cancel state: normal exit, user panic, Cancel "
         "unwind, guard created while already panicking, user panic with a cancel pending) is checked exhaustively by TLC: "
         "poisoned iff a holder panicked inside its guard, released in every case; the pinned tree's counter-example (F21) is "
         "shown with the switch off. RwLock.tla (C12) covers the write-guard paths, Cqueue.tla / Scope.tla the re-raise by "
         "select / scope owners. The real code is explored under the baton: Mutex holders that panic, are cancelled inside the "
         "guard, or panic with a cancel pending (LockResult of every later acquisition and is_poisoned judged); RwLock panic "
         "units replayed from RwLock.tla; a coroutine and coroutine-locals on the stack of a panicked one; scope / select "
         "owners with panicking children and arms. Oracle: payload at the right JoinHandle only, others finish, poison state.",
    text_extra="Reuse.tla covers an unwinding stack whose destructor yields (user panic with a pending cancel; Cancel unwind); PanicCount.tla models "
               "std's per-thread panic counter against a coroutine that migrates in mid-unwind (F25, open: process abort).",
    note="Aggregates units of C12, C14, C15, C16 that involve a panic; worker-thread survival is implied by every later "
         "execution in the same process running normally (a dead worker shows as a hang).",
    design_ref="DESIGN.md §6 C13",
)

CLAIMS["C09"] = dict(
    text="Park.tla (the canceller's set-bit / take-slot / take-coroutine steps against the parker's user-side check, the "
         "kernel-side store, cancel registration and re-check) is checked exhaustively by TLC; the L2 specifications of Mutex, "
         "Semaphore, SyncFlag, Condvar, RwLock, the mpsc channel and Scope each contain a Cancel action for one victim and the "
         "forwarding obligations (a hand-off / permit / notification that raced with the cancel reaches another waiter: "
         "deadlock-freedom and conservation invariants). Their TLC behaviours, incl. the cancel, are replayed into the real "
         "primitives. The real cancel protocol is explored at atomic-step granularity with the canceller as an actor (park "
         "scenario: Blocker, handle park, timed park, sleep), and the `cancelmix` scenario drives one victim through park, "
         "sleep, Mutex, RwLock, Semphore, mpsc, mpmc, SyncFlag, Condvar and join with a cancel at every scheduling point. "
         "Oracle: join() is Ok after the whole program or Err(Cancel), never hangs; a cancel that returned before the final "
         "yield is not ignored; every stack-owned value dropped exactly once; locks neither leaked nor poisoned; nobody else "
         "panics or sees Canceled (incl. the next coroutine on the same stack). CancelReg.tla models the cancel "
         "registration over two consecutive blocking calls (sleep or park, then a park on another Blocker) with both kernel "
         "sides as actors: TLC produces the lost-cancel counter-example for the pinned registration order (F24, repaired) and "
         "verifies the repaired one; the real code is explored with the coroutine free to run while the kernel side of its "
         "previous yield is still at work, every explored execution is validated by TLC against that model, and the two "
         "counter-examples are kept as regress schedules.",
    note="Socket read/accept/connect cancellation belongs to the io properties (C18) and is not part of this check; SC memory; bounded instances.",
    design_ref="DESIGN.md §6 C09",
)

CLAIMS["C03"] = dict(
    text="MpscQueue.tla / SpscQueue.tla (literal models of may_queue mpsc.rs / spsc.rs: one action per atomic access, blocks, "
         "the closing bit, installation of the next block, delayed freeing and recycling) are checked exhaustively by TLC for "
         "2 producers x 2 pushes across a block boundary: no duplicate, nothing invented, per-producer order, real-time FIFO, "
         "None only if possibly empty, no use after free, each slot written once. The real queues run under the baton with a "
         "verification point before every atomic access (automatic, in the atomic wrappers); producers and the consumer "
         "(push / pop / bulk_pop / len / is_empty) are interleaved by seeded and preemption-bounded schedules at several "
         "offsets to the 32/64-slot block boundary. Every recorded history (call / return / results) is validated twice: by "
         "a Wing-Gong linearizability search against the sequential FIFO queue, and by TLC against QueueLin.tla (trace "
         "validation; a rejected history is a violation); payload drop counters check exactly-once drop incl. queue drop.",
    note="SC memory only (no weak-memory reordering); the literal L0 specs and the real code are related through the property-level "
         "trace specification QueueLin.tla, not by step-level replay.",
    design_ref="DESIGN.md §6 C03",
)
CLAIMS["C04"] = dict(
    text="SpmcQueue.tla (literal model of may_queue spmc.rs: owner push / local_pop, takers' CAS on head, bit63 parking at the "
         "last slot of a block, over-claim and skip, block freeing, address reuse) is checked exhaustively by TLC incl. an ABA "
         "configuration: taken once, owner order, batch order, nothing lost, deadlock-freedom. The real Local/Steal pair and the "
         "plain Queue run under the baton at atomic-access granularity (owner push/pop, 1-3 stealers' steal_into / pop / "
         "bulk_pop, at and away from the block boundary); histories are judged by an exactly-once / order / empty-only-if-"
         "possibly-empty oracle and validated by TLC against QueueLin.tla; a taker that never completes is a hang.",
    note="SC memory; the ABA of a freed block re-allocated at the same address is covered by the TLC model only (the allocator is not controlled in real runs).",
    design_ref="DESIGN.md §6 C04",
)
CLAIMS["C19"] = dict(
    text="TimerList.tla (literal model of mpsc_list_v1.rs: push's swap / set_prev / link / head report, pop, pop_if, peek, "
         "Entry::remove incl. its refusal to unlink the last node) is checked exhaustively by TLC for 2 producers and three "
         "consumer programs: consumed once, pop order, list intact, head report sound and complete. The real list runs under "
         "the baton at the tl.* points (2-3 producers, a consumer that pops, peeks, pop_ifs and removes head / middle / last "
         "entries); histories are judged by a linearizability search against the removable-list specification (push = "
         "insertion + later head report) and validated by TLC against QueueLin.tla; payload drop counters.",
    note="The head report is judged at its own linearization point (the entry is the first one when the report is taken): a push whose "
         "entry was popped before it returned reports `false` although it found the list empty (benign, see DESIGN.md). SC memory.",
    design_ref="DESIGN.md §6 C19",
)

CLAIMS["C08"] = dict(
    text="Park.tla (the kernel side arming the timer before it publishes the coroutine, the timer thread's take, the "
         "deadline re-check of the repaired tree), AtomicDur.tla (every duration: a timer is armed, never earlier than asked; "
         "boundary values by TLC, unbounded by Apalache) and Timer.tla (interval lists + heap of list heads + removals: no "
         "early fire, fired once, heap covers the lists, prompt when time is friendly) are checked exhaustively; the pinned "
         "tree's counter-examples (F5: sub-millisecond = no time-out, fractional = early; F6: time-out lost when the timer "
         "fires before the coroutine is published) are shown with the switches off. The real runtime runs on a virtual clock "
         "(time moves only by Tick = jump to the earliest deadline; the real timer thread fires): the park protocol at "
         "atomic-step granularity with nobody but the timer to end the wait, for 10ms, 500us, 1.5ms and zero, Blocker, handle "
         "park and sleep, coroutine and thread; and the `timers` scenario: up to five actors with sleep, Blocker::park, "
         "park_timeout, Semphore / SyncFlag / Condvar wait_timeout, mpsc / mpmc recv_timeout at once, equal and different "
         "intervals, odd durations (1ns, 999999ns, 1000001ns, 0), cancelled sleepers. The timed units of C06, C10, C11, C16 are "
         "replayed from their specifications. Oracle: never before d of virtual time, not later than the 1ms granularity "
         "after it, no wait left asleep once virtual time has passed every timer, no event reported that nobody supplied.",
    note="Virtual time abstracts the wall clock: real scheduling latency of the timer thread is not measured. Thread-context waits "
         "are timed with the real clock (never early only). SC memory; bounded instances.",
    design_ref="DESIGN.md §6 C08",
)

CLAIMS["C01"] = dict(
    text="Join.tla (the closure epilogue: store the result, Join::trigger's store + take + unpark; join / wait: load, register, "
         "re-load, park or un-register; is_done pollers) and Sched.tla (coroutines moving between local queues, global queues, "
         "stealers and the running slot of 2 workers) are checked exhaustively by TLC: join only after done, result present, "
         "no drop / no duplicate, run once, single residency. The real runtime is explored under the baton at the join.* points "
         "and at every yield of the target: a target spawned from a thread or from a coroutine, with pooled and custom stack, "
         "that returns, panics or is cancelled by the environment at any moment, a joiner using is_done / wait / join and a "
         "second thread polling is_done through the same handle. A second, un-gated scenario spawns 40-60 coroutines from "
         "every site (thread, coroutine, builder with name / stack size / id, scoped) on 1, 3 and 8 workers, yielding and "
         "sleeping. Oracle: closure executed exactly once, never resident on two OS threads at once, completion never "
         "reported before the closure (incl. its captured values' owner) has finished, join() = the value, the panic payload "
         "or Cancel, captured value dropped once, no hang.",
    note="The run queues themselves are decided by C03/C04 (their points are not gated here: worker threads are not actors); the "
         "work_steal-off configuration is a compile-time feature and is not built by this check; SC memory; bounded instances.",
    design_ref="DESIGN.md §6 C01",
)

CLAIMS["C17"] = dict(
    text="IoWait.tla (the caller's clear-flag / non-blocking syscall / re-check / yield, the kernel side's store + re-check, the "
         "selector's fetch_or + take, readiness edges arriving at any moment) and Stream.tla (byte stream through a bounded "
         "kernel buffer with arbitrary chunking) are checked exhaustively by TLC: no missed edge, everything delivered, prefix "
         "order, EOF only at the end. The real UnixStream read path runs under the baton at that granularity: the reader "
         "coroutine (io.* points), the kernel side of its yields (iosub.*, an actor of its own), the event loop of the worker "
         "that serves the socket (a passive actor stopped at sel.or_flag / sel.take) and a peer thread that writes chunks, "
         "pauses and closes; the reader is kept off the selector's worker so that both really run concurrently. A second, "
         "un-gated scenario moves payloads of several socket buffers over TCP loopback and Unix streams (random chunkings "
         "and buffer sizes, 3-12 connections, coroutine and thread readers) and datagrams over UDP / Unix datagram sockets. "
         "Oracle: bytes received = bytes sent (position-dependent pattern), read returns 0 only after the peer closed, datagram "
         "sizes and content, the reader never stays suspended while the kernel has data or EOF for it, no panic on a runtime thread.",
    text_extra="FdReuse.tla models the registration of a socket against the life cycle of its fd NUMBER (close vs EPOLL_CTL_DEL by number vs "
               "a concurrent socket()): TLC gives the counter-example for the drop order CoIo had (F26, repaired) and verifies the other; the "
               "`fdreuse` scenario explores drop / create / read on the real code for CoIo and TcpStream, every execution validated by TLC.",
    note="Only the read side is explored at step granularity (write / accept / connect share the protocol and are exercised by the "
         "bulk scenario); the first optimistic syscall of CoIo::read has no hook (it is atomic with the preceding scenario point).",
    design_ref="DESIGN.md §6 C17",
)
CLAIMS["C18"] = dict(
    text="IoTimerRace.tla models the hand-over between an expiring io timer (owner worker: pop the entry, handler takes the "
         "timer cell and the coroutine) and an early completion taken on another thread (take the coroutine, the timer cell, "
         "null the entry's data, remove): TLC shows the counter-example of the pinned tree (known finding F15). The real "
         "UnixStream read with a time-out runs under the baton on the virtual clock (io timers are fired by the worker's event "
         "loop, which is made to look at the clock after every Tick): time-out then data, data in time, a stale timer left by "
         "an early completion followed by a longer wait, a cancel of a blocked and of a timed read. Oracle: TimedOut only with "
         "a time-out set and no earlier than it, the stream content, no early failure of a later read, a cancelled reader ends "
         "and its socket is closed (the peer sees it), nobody stays suspended, no panic on a runtime thread.",
    text_extra="IoSharedCancel.tla: a cancel that leaves the time-out entry of a reader armed on a socket the reader does not own (F27, open; "
               "shown by the `ioshared` scenario). A missed_readiness of a timed-read unit counts only if it shows again when its schedule is replayed.",
    note="Known finding F15 (two signatures) is reported as KNOWN-FINDING: the scenario process has to be restarted after it, the "
         "exploration goes on with the next seed. accept / connect time-outs are not covered.",
    design_ref="DESIGN.md §6 C18",
)


# the deciding method, per property (MANIFEST `technique`)
_T_REPLAY = ("literal TLA+ specification checked exhaustively by TLC (defects are switches of the model); TLC behaviours replayed step by step "
             "into the real code under a baton scheduler (spec -> code); explored real executions judged by the property oracle and their "
             "point traces validated by TLC against the same specification (code -> spec, generated TV*.tla)")
_T_QUEUE = ("literal TLA+ specification checked exhaustively by TLC; the real queue explored under a baton scheduler at atomic-access "
            "granularity; every recorded history validated by TLC against QueueLin.tla (trace validation: a rejected history is a violation) "
            "and by a Wing-Gong linearizability search")
_T_EXPLORE = ("literal TLA+ specification(s) checked exhaustively by TLC (defects are switches of the model); the real code explored under a "
              "baton scheduler at the granularity and with the labels of the specification (seeded PCT walk + preemption-bounded DFS, "
              "virtual clock, real cancel), every execution judged by the property oracle; step-level replay / TLC trace validation for "
              "the units taken over from other properties")
for _p in ("C05", "C06", "C07", "C10", "C11", "C12", "C15", "C16"):
    CLAIMS[_p]["technique"] = _T_REPLAY
for _p in ("C03", "C04", "C19"):
    CLAIMS[_p]["technique"] = _T_QUEUE
for _p in ("C01", "C02", "C08", "C09", "C13", "C14", "C17", "C18"):
    CLAIMS[_p]["technique"] = _T_EXPLORE
