//! Allocator shim: when switched on (queue scenario, `lifo_alloc`), blocks of "queue block" size
//! (256..4096 bytes) are recycled LIFO per layout, so that a freed queue block is
//! re-allocated at the same address by the next allocation of that layout: the ABA situation of
//! the lock-free queues becomes reachable by a schedule instead of depending on malloc.
use std::alloc::{GlobalAlloc, Layout, System};
use std::sync::atomic::{AtomicBool, AtomicUsize, Ordering};

pub static LIFO: AtomicBool = AtomicBool::new(false);
pub static REUSED: AtomicUsize = AtomicUsize::new(0);
const SLOTS: usize = 64;
struct Cache {
    lock: AtomicBool,
    n: std::cell::UnsafeCell<usize>,
    items: std::cell::UnsafeCell<[(usize, usize, usize); SLOTS]>, // (ptr, size, align)
}
unsafe impl Sync for Cache {}
static CACHE: Cache = Cache { lock: AtomicBool::new(false), n: std::cell::UnsafeCell::new(0), items: std::cell::UnsafeCell::new([(0, 0, 0); SLOTS]) };

pub struct Shim;
fn eligible(l: &Layout) -> bool {
    l.size() >= 256 && l.size() <= 4096
}
impl Cache {
    fn with<R>(&self, f: impl FnOnce(&mut usize, &mut [(usize, usize, usize); SLOTS]) -> R) -> R {
        while self.lock.swap(true, Ordering::Acquire) {
            std::hint::spin_loop();
        }
        let r = unsafe { f(&mut *self.n.get(), &mut *self.items.get()) };
        self.lock.store(false, Ordering::Release);
        r
    }
}
unsafe impl GlobalAlloc for Shim {
    unsafe fn alloc(&self, l: Layout) -> *mut u8 {
        if LIFO.load(Ordering::Relaxed) && eligible(&l) {
            let hit = CACHE.with(|n, items| {
                // newest first
                for k in (0..*n).rev() {
                    if items[k].1 == l.size() && items[k].2 == l.align() {
                        let p = items[k].0;
                        for j in k..*n - 1 {
                            items[j] = items[j + 1];
                        }
                        *n -= 1;
                        return Some(p);
                    }
                }
                None
            });
            if let Some(p) = hit {
                REUSED.fetch_add(1, Ordering::Relaxed);
                return p as *mut u8;
            }
        }
        System.alloc(l)
    }
    unsafe fn dealloc(&self, p: *mut u8, l: Layout) {
        if LIFO.load(Ordering::Relaxed) && eligible(&l) {
            let kept = CACHE.with(|n, items| {
                if *n < SLOTS {
                    items[*n] = (p as usize, l.size(), l.align());
                    *n += 1;
                    true
                } else {
                    false
                }
            });
            if kept {
                return;
            }
        }
        System.dealloc(p, l)
    }
}
#[global_allocator]
static GLOBAL: Shim = Shim;
