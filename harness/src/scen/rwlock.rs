//! C12: may::sync::RwLock under the baton; mirrors spec/l2/RwLock.tla.
use crate::ctrl::Ctrl;
use crate::driver::*;
use crate::run::{Instance, Violation};
use may::sync::RwLock;
use serde_json::Value;
use std::sync::atomic::{AtomicUsize, Ordering::SeqCst};
use std::sync::{Arc, Mutex as StdMutex, TryLockError};

struct Shared {
    l: RwLock<u64>,
    readers: AtomicUsize,
    writers: AtomicUsize,
    bad: StdMutex<Vec<String>>,
}

fn rcs(sh: &Shared, who: &str) {
    sh.readers.fetch_add(1, SeqCst);
    let w = sh.writers.load(SeqCst);
    if w != 0 {
        sh.bad.lock().unwrap().push(format!("{who} holds a read guard while {w} writer(s) hold the lock"));
    }
    may::verif::pt("rw.rcs", 0, 0, 0);
    sh.readers.fetch_sub(1, SeqCst);
}

fn wcs(sh: &Shared, who: &str, panic_inside: bool) {
    let w = sh.writers.fetch_add(1, SeqCst);
    let r = sh.readers.load(SeqCst);
    if w != 0 || r != 0 {
        sh.bad.lock().unwrap().push(format!("{who} holds a write guard while {w} other writer(s) and {r} reader(s) hold the lock"));
    }
    may::verif::pt("rw.wcs", 0, 0, 0);
    sh.writers.fetch_sub(1, SeqCst);
    if panic_inside {
        panic!("wpanic");
    }
}

pub fn build(_ctl: &'static Ctrl, params: &Value) -> Instance {
    let sh = Arc::new(Shared { l: RwLock::new(0), readers: AtomicUsize::new(0), writers: AtomicUsize::new(0), bad: StdMutex::new(vec![]) });
    if params["poison"].as_bool().unwrap_or(false) {
        let s2 = sh.clone();
        let _ = std::thread::spawn(move || {
            let _g = s2.l.write().unwrap();
            panic!("poison");
        })
        .join();
        assert!(sh.l.is_poisoned());
    }
    let victims: Vec<String> = params["victims"].as_array().map(|a| a.iter().map(|v| v.as_str().unwrap().to_string()).collect()).unwrap_or_default();
    let mut actors = vec![];
    let mut may_panic: Vec<String> = victims.clone();
    for a in params["actors"].as_array().expect("actors") {
        let name = a["name"].as_str().unwrap().to_string();
        let is_co = a["co"].as_bool().unwrap_or(false);
        let prog: Vec<String> = a["prog"].as_array().unwrap().iter().map(|v| v.as_str().unwrap().to_string()).collect();
        if prog.iter().any(|p| p == "wpanic") {
            may_panic.push(name.clone());
        }
        let sh2 = sh.clone();
        let nm = name.clone();
        actors.push(actor(&name, is_co, move || {
            for op in prog {
                match op.as_str() {
                    "read" => {
                        let g = sh2.l.read().unwrap_or_else(|e| e.into_inner());
                        rcs(&sh2, &nm);
                        drop(g);
                    }
                    "try_read" => match sh2.l.try_read() {
                        Ok(g) => {
                            rcs(&sh2, &nm);
                            drop(g);
                        }
                        Err(TryLockError::Poisoned(e)) => {
                            let g = e.into_inner();
                            rcs(&sh2, &nm);
                            drop(g);
                        }
                        Err(TryLockError::WouldBlock) => {}
                    },
                    "write" | "wpanic" => {
                        let g = sh2.l.write().unwrap_or_else(|e| e.into_inner());
                        wcs(&sh2, &nm, op == "wpanic");
                        drop(g);
                    }
                    "try_write" => match sh2.l.try_write() {
                        Ok(g) => {
                            wcs(&sh2, &nm, false);
                            drop(g);
                        }
                        Err(TryLockError::Poisoned(e)) => {
                            let g = e.into_inner();
                            wcs(&sh2, &nm, false);
                            drop(g);
                        }
                        Err(TryLockError::WouldBlock) => {}
                    },
                    _ => {}
                }
            }
        }));
    }
    let opts = ExecOpts { cats: vec!["rw"], victims: victims.clone(), ..Default::default() };
    let sh3 = sh.clone();
    Instance {
        opts,
        actors,
        custom: Box::new(|_, _| {}),
        unstick: Box::new(|| {}),
        check: Box::new(move |out: &Outcome| {
            let mut v = vec![];
            for b in sh3.bad.lock().unwrap().iter() {
                v.push(Violation { kind: "rw_exclusion".into(), detail: b.clone() });
            }
            match &out.end {
                End::Finished => {
                    for (i, p) in out.panicked.iter().enumerate() {
                        if *p && !may_panic.contains(&out.names[i]) {
                            v.push(Violation { kind: "panic".into(), detail: format!("actor {} panicked (a guard drop or a lock call panicked)", out.names[i]) });
                        }
                    }
                    // every guard is gone: a try_write must succeed
                    match sh3.l.try_write() {
                        Ok(_) | Err(TryLockError::Poisoned(_)) => {}
                        Err(TryLockError::WouldBlock) => {
                            v.push(Violation { kind: "lock_leaked".into(), detail: "all guards dropped but try_write reports WouldBlock".into() })
                        }
                    }
                }
                End::Stuck(who) => v.push(Violation { kind: "stranded_locker".into(), detail: format!("logical deadlock, unfinished: {who:?}") }),
                End::Budget => v.push(Violation { kind: "livelock".into(), detail: "step budget exhausted".into() }),
                End::Tool(_) | End::Aborted => {}
            }
            v
        }),
    }
}
