//! C08: many timed waits of different kinds and durations at once, on the virtual clock.
//! Every actor runs a program of [op, duration-in-ns]; nothing ever supplies the awaited event,
//! so every call must end by its time-out: never before `d` has elapsed, and - since virtual time
//! jumps exactly from deadline to deadline and nothing else delays a timer - less than one
//! millisecond (the timer granularity) after it.  Victims are cancelled at arbitrary moments
//! (their timers are removed or fire into nothing); thread actors wait in real time.
use crate::ctrl::Ctrl;
use crate::driver::*;
use crate::run::{Instance, Violation};
use may::sync::{mpmc, mpsc, Blocker, Condvar, Mutex, Semphore, SyncFlag};
use serde_json::Value;
use std::sync::{Arc, Mutex as StdMutex};
use std::time::Duration;

const MS: u64 = 1_000_000;

pub fn build(ctl: &'static Ctrl, params: &Value) -> Instance {
    let bad: Arc<StdMutex<Vec<(String, String)>>> = Arc::new(StdMutex::new(vec![]));
    let victims: Vec<String> = params["victims"].as_array().map(|a| a.iter().map(|v| v.as_str().unwrap().to_string()).collect()).unwrap_or_default();
    let mut actors = vec![];
    for a in params["actors"].as_array().expect("actors") {
        let name = a["name"].as_str().unwrap().to_string();
        let is_co = a["co"].as_bool().unwrap_or(true);
        let prog: Vec<(String, u64)> = a["prog"].as_array().unwrap().iter().map(|p| (p[0].as_str().unwrap().to_string(), p[1].as_u64().unwrap())).collect();
        let bad = bad.clone();
        let nm = name.clone();
        actors.push(actor(&name, is_co, move || {
            let sem = Semphore::new(0);
            let flag = SyncFlag::new();
            let (_tx, rx) = mpsc::channel::<u8>();
            let (_mtx, mrx) = mpmc::channel::<u8>();
            let m = Mutex::new(());
            let cv = Condvar::new();
            for (k, (op, ns)) in prog.iter().enumerate() {
                may::verif::pt("tmr.op", 0, k, 0);
                let d = Duration::from_nanos(*ns);
                let t0 = ctl.vnow();
                let r0 = std::time::Instant::now();
                let mut t_ret: Option<u64> = None; // set by ops that do more after the timed call has returned
                let timed_out: bool = match op.as_str() {
                    "sleep" => {
                        may::coroutine::sleep(d);
                        true
                    }
                    "tpark" => Blocker::current().park(Some(d)).is_err(),
                    "hpark" => {
                        // coroutine::park_timeout may wake spuriously, but must return once d has elapsed
                        may::coroutine::park_timeout(d);
                        true
                    }
                    "sem" => !sem.wait_timeout(d),
                    "flag" => !flag.wait_timeout(d),
                    "recv" => rx.recv_timeout(d).is_err(),
                    "mrecv" => mrx.recv_timeout(d).is_err(),
                    // a select arm ends half way through the time-out: its (internal) Done event wakes the poller,
                    // which has to wait for the rest only
                    "cqpoll" => {
                        let half = d / 2;
                        may::cqueue::scope(|cq| {
                            cq.add(0, move |_es| {
                                may::coroutine::sleep(half);
                            });
                            // a second arm outlives the poll (it is cancelled when the scope is left)
                            cq.add(1, move |_es| {
                                may::coroutine::sleep(d * 4);
                            });
                            let r = cq.poll(Some(d));
                            t_ret = ctl.vnow();
                            matches!(r, Err(may::cqueue::PollError::Timeout))
                        })
                    }
                    "cv" => {
                        let g = m.lock().unwrap();
                        let (_g, r) = cv.wait_timeout(g, d).unwrap();
                        r.timed_out()
                    }
                    _ => true,
                };
                if !timed_out {
                    bad.lock().unwrap().push(("ghost_event".into(), format!("{nm}: {op}({d:?}) reported the awaited event although nobody supplied it")));
                }
                if is_co {
                    crate::run::dbg(format!("ret {nm} {op}({ns}) t0={:?} t1={:?} on {:?}", t0, ctl.vnow(), std::thread::current().id()));
                    if let (Some(t0), Some(t1)) = (t0, t_ret.or(ctl.vnow())) {
                        let el = t1 - t0;
                        if el < *ns && op != "hpark" {
                            bad.lock().unwrap().push(("early_timeout".into(), format!("{nm}: {op}({d:?}) returned after {el} ns of virtual time")));
                        }
                        if el > *ns + MS {
                            bad.lock().unwrap().push(("late_timeout".into(), format!("{nm}: {op}({d:?}) returned {} ns after its deadline although nothing delayed the timer", el - *ns)));
                        }
                    }
                    // leave the timer thread (the resumed coroutine runs on it) before stopping at a point
                    may::coroutine::yield_now();
                } else if r0.elapsed() < d && op != "hpark" {
                    bad.lock().unwrap().push(("early_timeout".into(), format!("{nm} (thread): {op}({d:?}) returned after {:?}", r0.elapsed())));
                }
            }
        }));
    }
    let opts = ExecOpts { cats: vec!["tmr"], victims: victims.clone(), vclock: true, offer_tick: true, want_notes: vec!["co.sched", "co.resume", "co.switched", "co.subscribed", "co.done", "timer.fire"], ..Default::default() };
    Instance {
        opts,
        actors,
        custom: Box::new(|_, _| {}),
        unstick: Box::new(|| {}),
        check: Box::new(move |out: &Outcome| {
            let mut v = vec![];
            let log = std::mem::take(&mut *crate::run::DBG.lock().unwrap());
            for (k, d) in bad.lock().unwrap().iter() {
                v.push(Violation { kind: k.clone(), detail: if std::env::var("MV_DEBUG_TICK").is_ok() { format!("{d} LOG: {log:#?}") } else { d.clone() } });
            }
            match &out.end {
                End::Finished => {
                    for (i, p) in out.panicked.iter().enumerate() {
                        if *p && !victims.contains(&out.names[i]) {
                            v.push(Violation { kind: "panic".into(), detail: format!("{} panicked", out.names[i]) });
                        }
                    }
                }
                End::Stuck(who) => v.push(Violation { kind: "lost_timeout".into(), detail: format!("virtual time is past every pending timer and these timed waits still sleep: {who:?}") }),
                End::Budget => v.push(Violation { kind: "livelock".into(), detail: "step budget exhausted".into() }),
                End::Tool(_) | End::Aborted => {}
            }
            v
        }),
    }
}
