//! C02 (and the park half of C08 / C09): park / unpark / timeout / cancel at the granularity of
//! the atomic steps of src/park.rs (user side `park.*`, kernel side `psub.*` as an actor of its own,
//! `unpark.*`, `cancel.*`, the timer thread's `timer.take`), spec: spec/l1/Park.tla.
//! The parker runs `rounds`: each round parks on a fresh Blocker ("blocker") or on its own handle
//! ("handle": coroutine::park / park_timeout, may wake spuriously); unparkers unpark the blocker of
//! the round that is current when they run; an optional canceller cancels the parker.
use crate::ctrl::Ctrl;
use crate::driver::*;
use crate::run::{Instance, Violation};
use crate::scen::sem::UNIT_NS;
use may::sync::Blocker;
use serde_json::Value;
use std::sync::atomic::{AtomicUsize, Ordering::SeqCst};
use std::sync::{Arc, Mutex as StdMutex};
use std::time::Duration;

struct Round {
    blocker: Option<Arc<Blocker>>,
    unparks_done: usize,
    returned: Option<String>,
}
struct Shared {
    rounds: StdMutex<Vec<Round>>,
    cur: AtomicUsize,
    handle: StdMutex<Option<may::coroutine::Coroutine>>,
    cancel_issued: AtomicUsize,
    bad: StdMutex<Vec<(String, String)>>,
}

static PARKER_STACK: AtomicUsize = AtomicUsize::new(0);
pub fn build(ctl: &'static Ctrl, params: &Value) -> Instance {
    let parker_co = params["parker_co"].as_bool().unwrap_or(true);
    let kind = params["kind"].as_str().unwrap_or("blocker").to_string();
    let rounds: Vec<String> = params["rounds"].as_array().expect("rounds").iter().map(|v| v.as_str().unwrap().to_string()).collect();
    let nunparkers = params["unparkers"].as_u64().unwrap_or(1) as usize;
    let unparks_each = params["unparks_each"].as_u64().unwrap_or(1) as usize;
    let unparker_co = params["unparker_co"].as_bool().unwrap_or(false);
    let canceller = params["canceller"].as_bool().unwrap_or(false);
    let dur_units = params["dur"].as_u64().unwrap_or(1);
    // explicit duration in ns (sub-millisecond, non-integral, zero), overrides `dur`
    let dur_ns = params["dur_ns"].as_u64();
    let sh = Arc::new(Shared { rounds: StdMutex::new(vec![]), cur: AtomicUsize::new(usize::MAX), handle: StdMutex::new(None), cancel_issued: AtomicUsize::new(0), bad: StdMutex::new(vec![]) });
    let mut actors = vec![];
    let sh2 = sh.clone();
    let kind2 = kind.clone();
    let nrounds = rounds.len();
    let mut untimed = false;
    for r in &rounds {
        if r == "park" {
            untimed = true;
        }
    }
    let sem = Arc::new(may::sync::Semphore::new(0));
    let sem2 = sem.clone();
    let round_is_sem: Vec<bool> = rounds.iter().map(|r| r == "sem").collect();
    actors.push(actor("p", parker_co, move || {
        if parker_co {
            *sh2.handle.lock().unwrap() = Some(may::coroutine::current());
            let probe = 0u8;
            PARKER_STACK.store(&probe as *const u8 as usize, SeqCst);
        }
        for (i, op) in rounds.iter().enumerate() {
            let b = Blocker::current();
            sh2.rounds.lock().unwrap().push(Round { blocker: Some(b.clone()), unparks_done: 0, returned: None });
            sh2.cur.store(i, SeqCst);
            may::verif::pt("pk.round", 0, i, 0);
            let d = Duration::from_nanos(dur_ns.unwrap_or(dur_units * UNIT_NS));
            let t0 = ctl.vnow();
            let res: String = match (kind2.as_str(), op.as_str()) {
                (_, "sem") => {
                    // a SyncBlocker wait (its Park has check_cancel = false: a Canceled result reaches park_timeout's epilogue)
                    sem2.wait();
                    "Acquired".into()
                }
                ("blocker", "park") => format!("{:?}", b.park(None)),
                ("blocker", _) => {
                    let real0 = std::time::Instant::now();
                    let r = b.park(Some(d));
                    if !parker_co {
                        // a plain thread waits in real time
                        if r.is_err() && real0.elapsed() < d {
                            sh2.bad.lock().unwrap().push(("early_timeout".into(), format!("round {i}: thread park({d:?}) reported Timeout after {:?}", real0.elapsed())));
                        }
                    } else if let (Err(may::coroutine::ParkError::Timeout), Some(t0), Some(t1)) = (&r, t0, ctl.vnow()) {
                        if t1 - t0 < d.as_nanos() as u64 {
                            sh2.bad.lock().unwrap().push(("early_timeout".into(), format!("round {i}: park({d:?}) reported Timeout after {} ns", t1 - t0)));
                        }
                    }
                    format!("{r:?}")
                }
                (_, "park") => {
                    may::coroutine::park();
                    "Returned".into()
                }
                (_, "sleep") => {
                    may::coroutine::sleep(d);
                    if let (Some(t0), Some(t1)) = (t0, ctl.vnow()) {
                        if t1 - t0 < d.as_nanos() as u64 {
                            sh2.bad.lock().unwrap().push(("early_timeout".into(), format!("round {i}: sleep({d:?}) returned after {} ns", t1 - t0)));
                        }
                    }
                    "Slept".into()
                }
                (_, _) => {
                    may::coroutine::park_timeout(d);
                    "Returned".into()
                }
            };
            if res.contains("Canceled") && sh2.cancel_issued.load(SeqCst) == 0 {
                sh2.bad.lock().unwrap().push(("false_cancel".into(), format!("round {i}: park returned Canceled but nobody cancelled the parker")));
            }
            crate::run::bump(&format!("parker_round_{op}_{res}"));
            sh2.rounds.lock().unwrap()[i].returned = Some(res);
        }
    }));
    actors.push(kernel_actor("kp", "p"));
    actors.push(kernel_actor("kq", "p")); // a second slot: the kernel side of the previous round may still be at work
    actors.push(passive_actor("tm"));
    let first_only = params["unpark_first_only"].as_bool().unwrap_or(false);
    for u in 0..nunparkers {
        let sh3 = sh.clone();
        let kind3 = kind.clone();
        let sem3 = sem.clone();
        let round_is_sem = round_is_sem.clone();
        actors.push(actor(&format!("u{}", u + 1), unparker_co, move || {
            for _ in 0..unparks_each {
                may::verif::pt("pk.unpark", 0, 0, 0);
                let mut i = sh3.cur.load(SeqCst);
                if i == usize::MAX {
                    continue;
                }
                if first_only {
                    i = 0; // always the first round's blocker (CancelReg.tla: the waker of the first call)
                }
                if round_is_sem.get(i).copied().unwrap_or(false) {
                    sem3.post();
                } else if kind3 == "blocker" {
                    let b = sh3.rounds.lock().unwrap()[i].blocker.clone().unwrap();
                    b.unpark();
                } else {
                    let h = sh3.handle.lock().unwrap().clone();
                    if let Some(h) = h {
                        h.unpark();
                    }
                }
                sh3.rounds.lock().unwrap()[i].unparks_done += 1;
            }
        }));
    }
    // C15: once the parker has finished, an innocent coroutine gets its pooled stack (pool capacity 1), really
    // blocks in a plain park and is woken by a plain unpark: it must see Ok, whatever the parker left behind
    let innocent = params["innocent"].as_bool().unwrap_or(false);
    if innocent {
        let sh3 = sh.clone();
        actors.push(actor("d", false, move || {
            // (held at this point by a `hold` until the parker is done)
            may::verif::pt("pk.innocent", 0, 0, 0);
            // (the hold gives way when nothing else can move: then the parker is stuck and there is no stack to inherit)
            if !matches!(ctl.actor_state(0).0, crate::ctrl::ASt::Finished(_)) {
                crate::run::bump("innocent_skipped_parker_alive");
                return;
            }
            std::thread::sleep(Duration::from_micros(300));
            let slot: Arc<StdMutex<Option<Arc<Blocker>>>> = Arc::new(StdMutex::new(None));
            let slot2 = slot.clone();
            let res: Arc<StdMutex<Option<String>>> = Arc::new(StdMutex::new(None));
            let res2 = res.clone();
            let h = unsafe {
                may::coroutine::spawn(move || {
                    let probe = 0u8;
                    let mine = &probe as *const u8 as usize;
                    let theirs = PARKER_STACK.load(SeqCst);
                    crate::run::bump(if theirs != 0 && mine.abs_diff(theirs) < 0x8000 { "stack_reused" } else { "stack_not_reused" });
                    // first a blocking socket read (the io path looks at the result slot before anything else) ...
                    let io = crate::scen::reuse::innocent_io_probe();
                    // ... then a plain park
                    let b = Blocker::current();
                    *slot2.lock().unwrap() = Some(b.clone());
                    let r = b.park(None);
                    *res2.lock().unwrap() = Some(if io == "Ok" { format!("{r:?}") } else { format!("socket read: {io}") });
                })
            };
            // let it really block first: a token set before the park would make it return without yielding
            // (a point in the loop: the kernel side of the parker's last yield may still sit at a point on the
            // worker whose event loop the innocent's socket needs)
            let t0 = std::time::Instant::now();
            while slot.lock().unwrap().is_none() && t0.elapsed() < Duration::from_millis(2000) {
                may::verif::pt("pk.dwait", 0, 0, 0);
                std::thread::sleep(Duration::from_micros(200));
            }
            std::thread::sleep(Duration::from_millis(2));
            if let Some(b) = slot.lock().unwrap().clone() {
                b.unpark();
            }
            let _ = h.join();
            let r = res.lock().unwrap().clone();
            crate::run::bump(&format!("innocent_{}", r.as_deref().unwrap_or("none")));
            if r.as_deref() != Some("Ok(())") {
                sh3.bad.lock().unwrap().push(("stale_result_inherited".into(), format!("an innocent coroutine on the parker's pooled stack got {r:?} from a plain park woken by a plain unpark")));
            }
        }));
    }
    if canceller {
        let sh3 = sh.clone();
        actors.push(actor("x", false, move || {
            may::verif::pt("pk.cancel", 0, 0, 0);
            let h = sh3.handle.lock().unwrap().clone();
            if let Some(h) = h {
                sh3.cancel_issued.fetch_add(1, SeqCst);
                unsafe { h.cancel() };
            }
        }));
    }
    let mut cats = vec!["pk", "park", "psub", "unpark", "yield", "timer"];
    if params["ao"].as_bool().unwrap_or(true) {
        cats.push("ao"); // points before and after every AtomicOption operation
    }
    if canceller {
        cats.push("cancel");
    }
    if kind == "handle" || true {
        cats.push("slsub");
    }
    let timed = !untimed || nrounds > 0;
    let opts = ExecOpts {
        cats,
        kernel_cats: vec!["psub", "slsub"],
        vclock: timed,
        offer_tick: true,
        timer_actor: Some("tm".to_string()),
        holds: if innocent {
            vec![Hold { actor: "d".into(), site: "pk.innocent".into(), nth: 1, until_actor: "p".into(), until_site: "never".into(), until_n: 1 }]
        } else if first_only {
            // the unparker starts once the first round exists
            vec![Hold { actor: "u1".into(), site: "pk.unpark".into(), nth: 1, until_actor: "p".into(), until_site: "pk.round".into(), until_n: 1 }]
        } else {
            vec![]
        },
        // the coroutine may be scheduled again while the kernel side of its previous yield is still at work (the
        // timer, an unparker or a canceller resumed it on another thread): Park guards that window with
        // `wait_kernel`, Sleep has nothing
        no_holdback: params["no_holdback"].as_bool().unwrap_or(false),
        kernel_must_not_outlive: params["must_not_outlive"].as_bool().unwrap_or(false),
        ..Default::default()
    };
    let sh4 = sh.clone();
    let sh5 = sh.clone();
    let round_ops: Vec<String> = params["rounds"].as_array().unwrap().iter().map(|v| v.as_str().unwrap().to_string()).collect();
    Instance {
        opts,
        actors,
        custom: Box::new(|_, _| {}),
        unstick: Box::new(move || {
            for _ in 0..3 {
                for r in sh5.rounds.lock().unwrap().iter() {
                    if let Some(b) = &r.blocker {
                        b.unpark();
                    }
                }
                if let Some(h) = sh5.handle.lock().unwrap().clone() {
                    h.unpark();
                }
                std::thread::sleep(Duration::from_millis(2));
            }
        }),
        check: Box::new(move |out: &Outcome| {
            let mut v = vec![];
            for (k, d) in sh4.bad.lock().unwrap().iter() {
                v.push(Violation { kind: k.clone(), detail: d.clone() });
            }
            let rounds = sh4.rounds.lock().unwrap();
            match &out.end {
                End::Finished => {
                    for (i, p) in out.panicked.iter().enumerate() {
                        if *p && !(i == 0 && canceller) {
                            v.push(Violation { kind: "panic".into(), detail: format!("actor {} panicked", out.names[i]) });
                        }
                    }
                }
                End::Stuck(who) => {
                    // the parker sleeps: legitimate only if no unpark on the current round's blocker has
                    // completed (and nobody cancelled it)
                    let i = sh4.cur.load(SeqCst);
                    let done = if i != usize::MAX && i < rounds.len() { rounds[i].unparks_done } else { 0 };
                    let timed_round = i != usize::MAX && i < round_ops.len() && matches!(round_ops[i].as_str(), "tpark" | "sleep");
                    if who.iter().any(|w| w == "p") && parker_co && timed_round {
                        // virtual time has been advanced past every pending timer and the parker still sleeps
                        v.push(Violation { kind: "lost_timeout".into(), detail: format!("the parker sleeps for ever in the timed round {i} ({}): its time-out can no longer fire", round_ops[i]) });
                    } else if who.iter().any(|w| w == "p") && (done > 0 || sh4.cancel_issued.load(SeqCst) > 0) {
                        v.push(Violation { kind: "lost_wakeup".into(), detail: format!("the parker sleeps in round {i} although {done} unpark(s) on this round's blocker/handle have returned (cancels issued: {})", sh4.cancel_issued.load(SeqCst)) });
                    } else if who.iter().any(|w| w != "p") {
                        v.push(Violation { kind: "hang".into(), detail: format!("logical deadlock, unfinished: {who:?}") });
                    }
                }
                End::Budget => v.push(Violation { kind: "livelock".into(), detail: "step budget exhausted".into() }),
                End::Tool(_) | End::Aborted => {}
            }
            v
        }),
    }
}
