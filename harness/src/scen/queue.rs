//! C03 / C04 / C19: the lock-free queues of may_queue under the baton, one verification point before
//! every atomic access (the `q.*` points of the atomic wrappers, `tl.*` in mpsc_list_v1).
//! Every actor runs a program of queue operations; the harness records the history (call / return
//! with a global sequence number, arguments, results).  Oracle: the history is linearizable with
//! respect to the sequential specification of the queue kind (FIFO queue; removable list;
//! exactly-once bag with per-owner / per-batch order for the work-stealing queue), every payload is
//! dropped exactly once (incl. the ones left in the queue when it is dropped), nothing hangs.
//! The same histories are written to the trace file and validated by TLC against spec/l0/QueueLin.tla.
use crate::ctrl::Ctrl;
use crate::driver::*;
use crate::run::{Instance, Violation};
use serde_json::{json, Value};
use std::collections::{HashSet, VecDeque};
use std::sync::atomic::{AtomicUsize, Ordering::SeqCst};
use std::sync::{Arc, Mutex as StdMutex};

pub struct DropLog(StdMutex<Vec<i64>>);
pub struct P(pub i64, Arc<DropLog>);
impl Drop for P {
    fn drop(&mut self) {
        self.1 .0.lock().unwrap().push(self.0);
    }
}

#[derive(Clone, Debug)]
pub struct HOp {
    pub actor: usize,
    pub op: String,
    pub arg: i64,
    pub res: Vec<i64>,
    pub call: usize,
    pub ret: usize, // usize::MAX = never returned
}

struct Hist {
    seq: AtomicUsize,
    ops: StdMutex<Vec<HOp>>,
}
impl Hist {
    fn call(&self, actor: usize, op: &str, arg: i64) -> usize {
        let c = self.seq.fetch_add(1, SeqCst);
        let mut g = self.ops.lock().unwrap();
        g.push(HOp { actor, op: op.to_string(), arg, res: vec![], call: c, ret: usize::MAX });
        g.len() - 1
    }
    fn ret(&self, id: usize, res: Vec<i64>) {
        let r = self.seq.fetch_add(1, SeqCst);
        let mut g = self.ops.lock().unwrap();
        g[id].res = res;
        g[id].ret = r;
    }
}

enum Q {
    Mpsc(may_queue::mpsc::Queue<P>),
    Spsc(may_queue::spsc::Queue<P>),
    SpmcQ(may_queue::spmc::Queue<P>),
    TList(may_queue::mpsc_list_v1::Queue<P>),
    Steal,
}
struct Shared {
    q: Q,
    hist: Hist,
    log: Arc<DropLog>,
    // tlist: entry handles by value
    entries: StdMutex<Vec<(i64, Option<may_queue::mpsc_list_v1::Entry<P>>)>>,
    // spmc through Local / Steal
    owner_local: StdMutex<Option<may_queue::spmc::Local<P>>>,
    owner_steal: StdMutex<Option<may_queue::spmc::Steal<P>>>,
    pushed: StdMutex<Vec<i64>>,
}
impl Drop for Shared {
    fn drop(&mut self) {
        // Local::drop insists on an empty queue
        if let Some(l) = self.owner_local.lock().unwrap().as_mut() {
            while l.pop().is_some() {}
        }
    }
}
unsafe impl Sync for Shared {}
unsafe impl Send for Shared {}

fn val(actor: usize, k: usize) -> i64 {
    (actor as i64 + 1) * 100 + k as i64 + 1
}

pub fn build(_ctl: &'static Ctrl, params: &Value) -> Instance {
    let kind = params["kind"].as_str().expect("kind").to_string();
    let start = params["start"].as_u64().unwrap_or(0) as usize;
    // recycle freed queue blocks at the same address (ABA made reachable)
    crate::alloc::LIFO.store(params["lifo_alloc"].as_bool().unwrap_or(false), SeqCst);
    let log = Arc::new(DropLog(StdMutex::new(vec![])));
    let q = match kind.as_str() {
        "mpsc" => Q::Mpsc(may_queue::mpsc::Queue::new()),
        "spsc" => Q::Spsc(may_queue::spsc::Queue::new()),
        "spmcq" => Q::SpmcQ(may_queue::spmc::Queue::new()),
        "tlist" => Q::TList(may_queue::mpsc_list_v1::Queue::new()),
        "steal" => Q::Steal,
        _ => panic!("unknown queue kind"),
    };
    let sh = Arc::new(Shared {
        q,
        hist: Hist { seq: AtomicUsize::new(0), ops: StdMutex::new(vec![]) },
        log: log.clone(),
        entries: StdMutex::new(vec![]),
        owner_local: StdMutex::new(None),
        owner_steal: StdMutex::new(None),
        pushed: StdMutex::new(vec![]),
    });
    if kind == "steal" {
        let (s, l) = may_queue::spmc::local::<P>();
        *sh.owner_local.lock().unwrap() = Some(l);
        *sh.owner_steal.lock().unwrap() = Some(s);
    }
    // a sequential prefix moves the indices towards the block boundary (gating is off here)
    for i in 0..start {
        let p = P(-(i as i64) - 1, log.clone());
        match &sh.q {
            Q::Mpsc(q) => {
                q.push(p);
                drop(q.pop());
            }
            Q::Spsc(q) => {
                q.push(p);
                drop(q.pop());
            }
            Q::SpmcQ(q) => {
                q.push(p);
                drop(q.pop());
            }
            Q::TList(q) => {
                let (e, _) = q.push(p);
                drop(q.pop());
                drop(e);
            }
            Q::Steal => {
                let mut g = sh.owner_local.lock().unwrap();
                let l = g.as_mut().unwrap();
                l.push_back(p);
                drop(l.pop());
            }
        }
    }
    // values that are in the queue when the actors start (the producer is ahead of the consumer)
    let prefill = params["prefill"].as_u64().unwrap_or(0) as usize;
    let mut init: Vec<i64> = vec![];
    for i in 0..prefill {
        let v = 1 + i as i64;
        init.push(v);
        let p = P(v, log.clone());
        match &sh.q {
            Q::Mpsc(q) => q.push(p),
            Q::Spsc(q) => q.push(p),
            Q::SpmcQ(q) => q.push(p),
            Q::TList(q) => {
                let (e, _) = q.push(p);
                sh.entries.lock().unwrap().push((v, Some(e)));
            }
            Q::Steal => sh.owner_local.lock().unwrap().as_mut().unwrap().push_back(p),
        }
        sh.pushed.lock().unwrap().push(v);
    }
    log.0.lock().unwrap().clear();
    let mut actors = vec![];
    for (ai, a) in params["actors"].as_array().expect("actors").iter().enumerate() {
        let name = a["name"].as_str().unwrap().to_string();
        let prog: Vec<String> = a["prog"].as_array().unwrap().iter().map(|v| v.as_str().unwrap().to_string()).collect();
        let sh = sh.clone();
        actors.push(actor(&name, false, move || {
            let mut npush = 0usize;
            // a stealer's own queue
            let mut mine = if matches!(sh.q, Q::Steal) && prog.iter().any(|p| p == "steal") { Some(may_queue::spmc::local::<P>()) } else { None };
            let owner_steal = sh.owner_steal.lock().unwrap().clone();
            // the owner takes its Local out of the shared slot while it runs
            let mut owner_local = if matches!(sh.q, Q::Steal) && prog.iter().any(|p| p == "push" || p == "lpop") { sh.owner_local.lock().unwrap().take() } else { None };
            for op in prog.iter() {
                may::verif::pt("qh.op", 0, 0, 0);
                match op.as_str() {
                    "push" => {
                        let v = val(ai, npush);
                        npush += 1;
                        sh.pushed.lock().unwrap().push(v);
                        let id = sh.hist.call(ai, "push", v);
                        let p = P(v, sh.log.clone());
                        let mut res = vec![];
                        match &sh.q {
                            Q::Mpsc(q) => q.push(p),
                            Q::Spsc(q) => q.push(p),
                            Q::SpmcQ(q) => q.push(p),
                            Q::TList(q) => {
                                let (e, is_head) = q.push(p);
                                res.push(is_head as i64);
                                sh.entries.lock().unwrap().push((v, Some(e)));
                            }
                            Q::Steal => owner_local.as_mut().unwrap().push_back(p),
                        }
                        sh.hist.ret(id, res);
                    }
                    "pop" | "lpop" => {
                        let id = sh.hist.call(ai, "pop", 0);
                        let r = match &sh.q {
                            Q::Mpsc(q) => q.pop(),
                            Q::Spsc(q) => q.pop(),
                            Q::SpmcQ(q) => q.pop(),
                            Q::TList(q) => q.pop(),
                            Q::Steal => owner_local.as_mut().unwrap().pop(),
                        };
                        sh.hist.ret(id, r.iter().map(|p| p.0).collect());
                    }
                    "popif_even" | "popif_any" => {
                        let even = op == "popif_even";
                        let id = sh.hist.call(ai, if even { "popif_even" } else { "pop" }, 0);
                        let r = match &sh.q {
                            Q::TList(q) => q.pop_if(&|p: &P| !even || p.0 % 2 == 0),
                            _ => None,
                        };
                        sh.hist.ret(id, r.iter().map(|p| p.0).collect());
                    }
                    "peek" => {
                        let id = sh.hist.call(ai, "peek", 0);
                        let r = match &sh.q {
                            Q::TList(q) => unsafe { q.peek().map(|p| p.0) },
                            _ => None,
                        };
                        sh.hist.ret(id, r.into_iter().collect());
                    }
                    "bulk" => {
                        let id = sh.hist.call(ai, "bulk", 0);
                        let r: Vec<i64> = match &sh.q {
                            Q::Mpsc(q) => q.bulk_pop().iter().map(|p| p.0).collect(),
                            Q::Spsc(q) => q.bulk_pop().iter().map(|p| p.0).collect(),
                            Q::SpmcQ(q) => q.bulk_pop().iter().map(|p| p.0).collect(),
                            _ => vec![],
                        };
                        sh.hist.ret(id, r);
                    }
                    "len" => {
                        let id = sh.hist.call(ai, "len", 0);
                        let r = match &sh.q {
                            Q::Mpsc(q) => q.len(),
                            Q::Spsc(q) => q.len(),
                            _ => 0,
                        };
                        sh.hist.ret(id, vec![r as i64]);
                    }
                    "empty" => {
                        let id = sh.hist.call(ai, "empty", 0);
                        let r = match &sh.q {
                            Q::Mpsc(q) => q.is_empty(),
                            Q::Spsc(q) => q.is_empty(),
                            Q::SpmcQ(q) => q.is_empty(),
                            Q::TList(q) => q.is_empty(),
                            Q::Steal => owner_steal.as_ref().unwrap().is_empty(),
                        };
                        sh.hist.ret(id, vec![r as i64]);
                    }
                    "steal" => {
                        let id = sh.hist.call(ai, "steal", 0);
                        let (_, ml) = mine.as_mut().unwrap();
                        let r = owner_steal.as_ref().unwrap().steal_into(ml);
                        // the rest of the batch is in the stealer's own queue, oldest first
                        let mut res = vec![];
                        while let Some(p) = ml.pop() {
                            res.push(p.0);
                        }
                        if let Some(p) = r {
                            res.push(p.0);
                        }
                        sh.hist.ret(id, res);
                    }
                    s if s.starts_with("rm") => {
                        // rm<k>: remove the k-th entry whose push has returned (if there is one)
                        let k: usize = s[2..].parse().unwrap_or(0);
                        let e = {
                            let mut g = sh.entries.lock().unwrap();
                            if k < g.len() { g[k].1.take().map(|e| (g[k].0, e)) } else { None }
                        };
                        if let Some((v, e)) = e {
                            let id = sh.hist.call(ai, "rm", v);
                            let r = e.remove();
                            sh.hist.ret(id, r.iter().map(|p| p.0).collect());
                        }
                    }
                    _ => {}
                }
            }
            if let Some(l) = owner_local.take() {
                *sh.owner_local.lock().unwrap() = Some(l);
            }
            drop(mine);
        }));
    }
    let opts = ExecOpts { cats: vec!["qh", "q", "tl"], max_steps: 20000, holds: parse_holds(&params["holds"]), ..Default::default() };
    let sh4 = sh.clone();
    let kind2 = kind.clone();
    Instance {
        opts,
        actors,
        custom: Box::new(|_, _| {}),
        unstick: Box::new(|| {}),
        check: Box::new(move |out: &Outcome| {
            let mut v = vec![];
            let ops: Vec<HOp> = sh4.hist.ops.lock().unwrap().clone();
            match &out.end {
                End::Finished => {
                    // drain what is left, sequentially: these values were never obtained by an operation
                    let mut left = vec![];
                    match &sh4.q {
                        Q::Mpsc(q) => while let Some(p) = q.pop() { left.push(p.0) },
                        Q::Spsc(q) => while let Some(p) = q.pop() { left.push(p.0) },
                        Q::SpmcQ(q) => while let Some(p) = q.pop() { left.push(p.0) },
                        Q::TList(q) => {
                            if !params_leave(&kind2) {
                                while let Some(p) = q.pop() { left.push(p.0) }
                            }
                        }
                        Q::Steal => {
                            if let Some(l) = sh4.owner_local.lock().unwrap().as_mut() {
                                while let Some(p) = l.pop() { left.push(p.0) }
                            }
                        }
                    }
                    // entry handles are dropped by the (single) consumer side, here
                    sh4.entries.lock().unwrap().clear();
                    let pushed: Vec<i64> = sh4.pushed.lock().unwrap().clone();
                    if let Err(why) = lin_check(&kind2, &ops, &left, &init) {
                        v.push(Violation { kind: "not_linearizable".into(), detail: why });
                    }
                    // exactly-once drop of every payload
                    let drops = sh4.log.0.lock().unwrap().clone();
                    let mut seen = HashSet::new();
                    for d in drops.iter() {
                        if !seen.insert(*d) {
                            v.push(Violation { kind: "double_drop".into(), detail: format!("payload {d} dropped twice") });
                        }
                    }
                    for p in pushed.iter() {
                        if !seen.contains(p) {
                            v.push(Violation { kind: "leak".into(), detail: format!("payload {p} was pushed but never dropped (lost in the queue)") });
                        }
                    }
                    for (i, p) in out.panicked.iter().enumerate() {
                        if *p {
                            v.push(Violation { kind: "panic".into(), detail: format!("{} panicked", out.names[i]) });
                        }
                    }
                    // the history for TLC
                    let mut evs: Vec<(usize, Value)> = vec![];
                    for o in ops.iter() {
                        // the call record carries the result the call will return (known now): the trace spec needs no look-ahead
                        evs.push((o.call, json!({"e": "call", "t": out.names[o.actor], "op": o.op, "v": o.arg, "r": o.res})));
                        if o.ret != usize::MAX {
                            evs.push((o.ret, json!({"e": "ret", "t": out.names[o.actor], "op": o.op, "v": o.arg, "r": o.res})));
                        }
                    }
                    evs.sort_by_key(|e| e.0);
                    let mut h = crate::run::HISTORY.lock().unwrap();
                    h.clear();
                    h.push(json!({"e": "kind", "t": "", "op": kind2, "v": 0, "r": left, "i": init}));
                    h.extend(evs.into_iter().map(|e| e.1));
                }
                End::Stuck(who) => v.push(Violation { kind: "hang".into(), detail: format!("an operation never completes although every other operation has: {who:?}") }),
                End::Budget => v.push(Violation { kind: "livelock".into(), detail: "step budget exhausted (an operation spins for ever)".into() }),
                End::Tool(_) | End::Aborted => {}
            }
            v
        }),
    }
}
fn params_leave(_kind: &str) -> bool {
    false
}

// ---------------------------------------------------------------------------------------------
// linearizability (Wing & Gong search with memoisation) against the sequential specifications
// ---------------------------------------------------------------------------------------------
#[derive(Clone, PartialEq, Eq, Hash)]
struct Abs {
    q: VecDeque<i64>,
}

/// apply `o` to the abstract state; None = the recorded result is impossible here
fn apply(kind: &str, s: &Abs, o: &HOp) -> Option<Abs> {
    let mut n = s.clone();
    match o.op.as_str() {
        "push" => {
            n.q.push_back(o.arg);
            Some(n)
        }
        // the head report of the removable list's push is taken after the insertion (a second linearization
        // point inside the call): "my entry is the first one in the list now"; an entry that was popped
        // before its push returned is no head any more
        "push_rep" => {
            if o.res == vec![(s.q.front() == Some(&o.arg)) as i64] { Some(n) } else { None }
        }
        "pop" => match (s.q.front(), o.res.first()) {
            (None, None) => Some(n),
            (Some(h), Some(r)) if h == r => {
                n.q.pop_front();
                Some(n)
            }
            _ => None,
        },
        "popif_even" => match (s.q.front(), o.res.first()) {
            (None, None) => Some(n),
            (Some(h), None) if h % 2 != 0 => Some(n),
            (Some(h), Some(r)) if h == r && h % 2 == 0 => {
                n.q.pop_front();
                Some(n)
            }
            _ => None,
        },
        "peek" => match (s.q.front(), o.res.first()) {
            (None, None) => Some(n),
            (Some(h), Some(r)) if h == r => Some(n),
            _ => None,
        },
        "bulk" => {
            if o.res.is_empty() {
                return if s.q.is_empty() { Some(n) } else { None };
            }
            if o.res.len() > s.q.len() {
                return None;
            }
            for r in o.res.iter() {
                if n.q.pop_front() != Some(*r) {
                    return None;
                }
            }
            Some(n)
        }
        "len" => if o.res == vec![s.q.len() as i64] { Some(n) } else { None },
        "empty" => if o.res == vec![s.q.is_empty() as i64] { Some(n) } else { None },
        "rm" => {
            // remove(handle): nothing (always allowed: a no-op) or exactly the entry, which must still be in the list
            if o.res.is_empty() {
                return Some(n);
            }
            if o.res != vec![o.arg] {
                return None;
            }
            let pos = n.q.iter().position(|x| *x == o.arg)?;
            n.q.remove(pos);
            Some(n)
        }
        _ => Some(n),
    }
}

pub fn lin_check(kind: &str, ops: &[HOp], left: &[i64], init: &[i64]) -> Result<(), String> {
    if kind == "steal" || kind == "spmcq" {
        return bag_check(kind, ops, left, init);
    }
    // the removable list's push = insertion + head report (in this order)
    let mut expanded: Vec<HOp> = vec![];
    let mut after: Vec<Option<usize>> = vec![]; // index of the op that must be linearized before
    for o in ops {
        if kind == "tlist" && o.op == "push" {
            expanded.push(HOp { res: vec![], ..o.clone() });
            after.push(None);
            expanded.push(HOp { op: "push_rep".into(), ..o.clone() });
            after.push(Some(expanded.len() - 2));
        } else {
            expanded.push(o.clone());
            after.push(None);
        }
    }
    let ops = &expanded[..];
    let n = ops.len();
    if n > 60 {
        return Err("history too long for the checker".into());
    }
    // unfinished operations (never returned) cannot occur when the execution finished
    let mut memo: HashSet<(u64, Abs)> = HashSet::new();
    fn go(kind: &str, ops: &[HOp], after: &[Option<usize>], done: u64, s: &Abs, left: &[i64], memo: &mut HashSet<(u64, Abs)>) -> bool {
        let n = ops.len();
        if done.count_ones() as usize == n {
            // what is left in the queue afterwards is exactly the abstract content, in order
            return s.q.iter().copied().collect::<Vec<_>>() == left;
        }
        if !memo.insert((done, s.clone())) {
            return false;
        }
        // an operation can be linearized next iff no other pending operation returned before its call
        let min_ret = (0..n).filter(|i| done & (1 << i) == 0).map(|i| ops[i].ret).min().unwrap();
        for i in 0..n {
            if done & (1 << i) != 0 || ops[i].call > min_ret {
                continue;
            }
            if let Some(b) = after[i] {
                if done & (1 << b) == 0 {
                    continue;
                }
            }
            if let Some(ns) = apply(kind, s, &ops[i]) {
                if go(kind, ops, after, done | (1 << i), &ns, left, memo) {
                    return true;
                }
            }
        }
        false
    }
    if go(kind, ops, &after, 0, &Abs { q: init.iter().copied().collect() }, left, &mut memo) {
        Ok(())
    } else {
        Err(format!("no linearization of the history explains the results: {}", brief(ops, left)))
    }
}

fn brief(ops: &[HOp], left: &[i64]) -> String {
    let mut s = String::new();
    for o in ops {
        s.push_str(&format!("[a{} {}({}) -> {:?} @{}..{}] ", o.actor, o.op, o.arg, o.res, o.call, if o.ret == usize::MAX { -1 } else { o.ret as i64 }));
    }
    s.push_str(&format!("left in the queue: {left:?}"));
    s
}

/// C04: every pushed task obtained exactly once, nothing invented, the owner's own pops and the
/// tasks of one stolen batch in push order, an empty result only if the queue could have been empty
fn bag_check(kind: &str, ops: &[HOp], left: &[i64], init: &[i64]) -> Result<(), String> {
    let mut pushed: Vec<i64> = init.to_vec();
    pushed.extend(ops.iter().filter(|o| o.op == "push").map(|o| o.arg));
    let mut got: Vec<i64> = vec![];
    for o in ops.iter().filter(|o| o.op != "push" && o.op != "empty" && o.op != "len") {
        got.extend(o.res.iter().copied());
    }
    got.extend(left.iter().copied());
    let mut seen = HashSet::new();
    for g in got.iter() {
        if !pushed.contains(g) {
            return Err(format!("value {g} was obtained but never pushed: {}", brief(ops, left)));
        }
        if !seen.insert(*g) {
            return Err(format!("task {g} was obtained twice: {}", brief(ops, left)));
        }
    }
    for p in pushed.iter() {
        if !seen.contains(p) {
            return Err(format!("task {p} was pushed but obtained by nobody: {}", brief(ops, left)));
        }
    }
    // order: the owner's own pops (in program order), each batch, and the left-over are increasing in push order
    let pos = |v: i64| pushed.iter().position(|x| *x == v).unwrap();
    if kind == "steal" {
        let owner_pops: Vec<usize> = ops.iter().filter(|o| o.op == "pop").flat_map(|o| o.res.iter().map(|v| pos(*v))).collect();
        if owner_pops.windows(2).any(|w| w[0] > w[1]) {
            return Err(format!("the owner's own pops are not in push order: {}", brief(ops, left)));
        }
    }
    for o in ops.iter().filter(|o| o.op == "steal" || o.op == "bulk") {
        let b: Vec<usize> = o.res.iter().map(|v| pos(*v)).collect();
        if b.windows(2).any(|w| w[0] > w[1]) {
            return Err(format!("the tasks of one stolen batch are not in push order: {}", brief(ops, left)));
        }
    }
    // a taker may report "nothing" only if the queue could have been empty: not if a task whose push had
    // returned before the call is still un-obtained when the call returns
    for o in ops.iter().filter(|o| (o.op == "pop" || o.op == "steal" || o.op == "bulk") && o.res.is_empty()) {
        for p in ops.iter().filter(|p| p.op == "push" && p.ret < o.call) {
            // obtained by an operation that started before o returned?
            let taken_by = ops.iter().find(|t| t.op != "push" && t.res.contains(&p.arg));
            let free = match taken_by {
                Some(t) => t.call > o.ret,
                None => true,
            };
            if free {
                return Err(format!("a{} {}() found nothing although task {} was in the queue during the whole call: {}", o.actor, o.op, p.arg, brief(ops, left)));
            }
        }
    }
    Ok(())
}
