//! C01: a spawned coroutine runs exactly once, on one OS thread at a time, to its end; join() / wait() /
//! is_done() report completion only after the closure has finished, and join() returns exactly its
//! value, its panic payload or a Cancel error.
//! Actors: `s` spawns the target `x` (from a thread, from a coroutine, or scoped), waits and joins;
//! `q` polls is_done() / wait() through the same handle; the environment may cancel `x`.
//! Gated: join.* (trigger / wait protocol), yield.check_cancel (every yield of x), sp.* (scenario).
use crate::ctrl::Ctrl;
use crate::driver::*;
use crate::run::{Instance, Violation};
use serde_json::Value;
use std::sync::atomic::{AtomicBool, AtomicUsize, Ordering::SeqCst};
use std::sync::{Arc, Mutex as StdMutex};

struct Shared {
    exec: AtomicUsize,
    running: AtomicBool,
    finished: AtomicBool,
    drops: AtomicUsize,
    bad: StdMutex<Vec<(String, String)>>,
    handle: StdMutex<Option<Arc<may::coroutine::JoinHandle<u64>>>>,
    co: StdMutex<Option<may::coroutine::Coroutine>>,
    result: StdMutex<Option<String>>,
    q_flag: may::sync::SyncFlag,
    x_ended: may::sync::SyncFlag,
}
struct Captured(Arc<Shared>);
impl Drop for Captured {
    fn drop(&mut self) {
        self.0.drops.fetch_add(1, SeqCst);
    }
}
fn enter(sh: &Shared) {
    if sh.running.swap(true, SeqCst) {
        sh.bad.lock().unwrap().push(("double_residency".into(), "the coroutine runs on two OS threads at the same time".into()));
    }
}
fn leave(sh: &Shared) {
    sh.running.store(false, SeqCst);
}
fn observe_done(sh: &Shared, who: &str, what: &str) {
    if !sh.finished.load(SeqCst) {
        sh.bad.lock().unwrap().push(("early_completion".into(), format!("{who}: {what} reports completion before the closure has finished")));
    }
}

pub fn build(ctl: &'static Ctrl, params: &Value) -> Instance {
    let end = params["end"].as_str().unwrap_or("ret").to_string();
    let yields = params["yields"].as_u64().unwrap_or(2) as usize;
    let from = params["from"].as_str().unwrap_or("thread").to_string();
    let stack = params["stack"].as_u64().unwrap_or(0) as usize;
    let polls = params["polls"].as_u64().unwrap_or(2) as usize;
    let q_waits = params["q_waits"].as_bool().unwrap_or(false);
    let sh = Arc::new(Shared {
        exec: AtomicUsize::new(0),
        running: AtomicBool::new(false),
        finished: AtomicBool::new(false),
        drops: AtomicUsize::new(0),
        bad: StdMutex::new(vec![]),
        handle: StdMutex::new(None),
        co: StdMutex::new(None),
        result: StdMutex::new(None),
        q_flag: may::sync::SyncFlag::new(),
        x_ended: may::sync::SyncFlag::new(),
    });
    let mut actors = vec![];
    {
        let sh = sh.clone();
        let end = end.clone();
        let body = move || {
            let shx = sh.clone();
            let endx = end.clone();
            let cap = Captured(sh.clone());
            let target = move || -> u64 {
                ctl.enroll_co_until_done(1);
                // dropped last, however the closure ends (return, panic, cancellation at any yield)
                struct Fin(Arc<Shared>);
                impl Drop for Fin {
                    fn drop(&mut self) {
                        self.0.finished.store(true, SeqCst);
                        self.0.running.store(false, SeqCst);
                        self.0.x_ended.fire();
                    }
                }
                let _f = Fin(shx.clone());
                let _cap = cap;
                shx.exec.fetch_add(1, SeqCst);
                enter(&shx);
                for _ in 0..yields {
                    leave(&shx);
                    may::coroutine::yield_now();
                    enter(&shx);
                }
                match endx.as_str() {
                    "panic" => {
                        panic!("target panics");
                    }
                    "cancel" => {
                        // runs until it is cancelled
                        loop {
                            leave(&shx);
                            may::coroutine::park();
                            enter(&shx);
                        }
                    }
                    _ => {}
                }
                42
            };
            let mut b = may::coroutine::Builder::new().name("target".into());
            if stack != 0 {
                b = b.stack_size(stack);
            }
            let h = unsafe { b.spawn(target).expect("spawn") };
            *sh.co.lock().unwrap() = Some(h.coroutine().clone());
            let h = Arc::new(h);
            *sh.handle.lock().unwrap() = Some(h.clone());
            may::verif::pt("sp.spawned", 0, 0, 0);
            if h.is_done() {
                observe_done(&sh, "s", "is_done()");
            }
            may::verif::pt("sp.wait", 0, 0, 0);
            h.wait();
            observe_done(&sh, "s", "wait()");
            // the handle is shared with q until q is through
            sh.q_flag.wait();
            *sh.handle.lock().unwrap() = None;
            let h = match Arc::try_unwrap(h) {
                Ok(h) => h,
                Err(_) => {
                    sh.bad.lock().unwrap().push(("harness".into(), "handle still shared".into()));
                    return;
                }
            };
            let r = h.join();
            observe_done(&sh, "s", "join()");
            let txt = match r {
                Ok(v) => format!("ok:{v}"),
                Err(e) => match e.downcast_ref::<generator::Error>() {
                    Some(generator::Error::Cancel) => "cancel".to_string(),
                    _ => match e.downcast_ref::<&str>() {
                        Some(s) => format!("panic:{s}"),
                        None => "panic:?".to_string(),
                    },
                },
            };
            *sh.result.lock().unwrap() = Some(txt);
        };
        actors.push(actor("s", from == "co", body));
    }
    actors.push(external_actor("x"));
    {
        let sh = sh.clone();
        actors.push(actor("q", false, move || {
            for _ in 0..polls {
                may::verif::pt("sp.poll", 0, 0, 0);
                let h = sh.handle.lock().unwrap().clone();
                if let Some(h) = h {
                    if h.is_done() {
                        observe_done(&sh, "q", "is_done()");
                    }
                }
            }
            if q_waits {
                may::verif::pt("sp.qwait", 0, 0, 0);
                let h = sh.handle.lock().unwrap().clone();
                if let Some(h) = h {
                    // a second waiter on the same handle is not supported by the single to_wake slot; poll instead
                    sh.x_ended.wait();
                    may::verif::pt("sp.qlast", 0, 0, 0);
                    if h.is_done() {
                        observe_done(&sh, "q", "is_done()");
                    }
                }
            }
            sh.q_flag.fire();
        }));
    }
    let custom_env = if end == "cancel" { vec![("cancelx".to_string(), String::new())] } else { vec![] };
    // the joiner itself may be cancelled (a coroutine joiner only): join() / wait() must still not report
    // completion early - they end by the Cancel panic instead
    let victims: Vec<String> = params["victims"].as_array().map(|a| a.iter().map(|v| v.as_str().unwrap().to_string()).collect()).unwrap_or_default();
    let joiner_cancelled = !victims.is_empty();
    let opts = ExecOpts { cats: vec!["sp", "join", "yield"], custom_env, victims, ..Default::default() };
    let sh4 = sh.clone();
    let sh5 = sh.clone();
    let end2 = end.clone();
    Instance {
        opts,
        actors,
        custom: Box::new(move |what, _| {
            if what == "cancelx" {
                // the target may not have been spawned yet: then the cancel comes right after the spawn
                let t0 = std::time::Instant::now();
                loop {
                    if let Some(c) = sh5.co.lock().unwrap().clone() {
                        unsafe { c.cancel() };
                        break;
                    }
                    if t0.elapsed() > std::time::Duration::from_millis(100) {
                        break;
                    }
                    std::thread::yield_now();
                }
            }
        }),
        unstick: Box::new(|| {}),
        check: Box::new(move |out: &Outcome| {
            let mut v = vec![];
            for (k, d) in sh4.bad.lock().unwrap().iter() {
                v.push(Violation { kind: k.clone(), detail: d.clone() });
            }
            match &out.end {
                End::Finished => {
                    let e = sh4.exec.load(SeqCst);
                    if e != 1 {
                        v.push(Violation { kind: "run_count".into(), detail: format!("the closure was executed {e} times") });
                    }
                    let r = sh4.result.lock().unwrap().clone().unwrap_or_default();
                    let want = match end2.as_str() {
                        "panic" => "panic:target panics",
                        "cancel" => "cancel",
                        _ => "ok:42",
                    };
                    if r != want && !(joiner_cancelled && r.is_empty()) {
                        v.push(Violation { kind: "join_result".into(), detail: format!("join() returned {r:?}, the closure ended with {want:?}") });
                    }
                    let t0 = std::time::Instant::now();
                    while sh4.drops.load(SeqCst) < 1 && t0.elapsed() < std::time::Duration::from_millis(200) {
                        std::thread::yield_now();
                    }
                    if sh4.drops.load(SeqCst) != 1 {
                        v.push(Violation { kind: "captured_drop".into(), detail: format!("the value captured by the closure was dropped {} times", sh4.drops.load(SeqCst)) });
                    }
                    for (i, p) in out.panicked.iter().enumerate() {
                        if *p && out.names[i] != "x" && !(joiner_cancelled && out.names[i] == "s") {
                            v.push(Violation { kind: "panic".into(), detail: format!("{} panicked", out.names[i]) });
                        }
                    }
                }
                End::Stuck(who) => v.push(Violation { kind: "hang".into(), detail: format!("logical deadlock, unfinished: {who:?} (closure finished: {})", sh4.finished.load(SeqCst)) }),
                End::Budget => v.push(Violation { kind: "livelock".into(), detail: "step budget exhausted".into() }),
                End::Tool(_) | End::Aborted => {}
            }
            v
        }),
    }
}

// ---------------------------------------------------------------------------------------------
// many coroutines from all spawn sites, not gated: the OS schedules, the oracle counts
// ---------------------------------------------------------------------------------------------
pub fn build_many(_ctl: &'static Ctrl, params: &Value) -> Instance {
    let n = params["n"].as_u64().unwrap_or(40) as usize;
    let yields = params["yields"].as_u64().unwrap_or(3) as usize;
    let bad: Arc<StdMutex<Vec<(String, String)>>> = Arc::new(StdMutex::new(vec![]));
    let mut actors = vec![];
    let bad2 = bad.clone();
    actors.push(actor("m", false, move || {
        let counts: Arc<Vec<AtomicUsize>> = Arc::new((0..n).map(|_| AtomicUsize::new(0)).collect());
        let running: Arc<Vec<AtomicBool>> = Arc::new((0..n).map(|_| AtomicBool::new(false)).collect());
        let mut handles = vec![];
        let body = |i: usize, counts: Arc<Vec<AtomicUsize>>, running: Arc<Vec<AtomicBool>>, bad: Arc<StdMutex<Vec<(String, String)>>>| {
            move || -> usize {
                counts[i].fetch_add(1, SeqCst);
                for k in 0..yields {
                    if running[i].swap(true, SeqCst) {
                        bad.lock().unwrap().push(("double_residency".into(), format!("coroutine {i} runs on two threads at once")));
                    }
                    running[i].store(false, SeqCst);
                    if (i + k) % 3 == 0 {
                        may::coroutine::sleep(std::time::Duration::from_micros(50));
                    } else {
                        may::coroutine::yield_now();
                    }
                }
                if i % 7 == 3 {
                    panic!("p{i}");
                }
                i * 2
            }
        };
        for i in 0..n {
            let f = body(i, counts.clone(), running.clone(), bad2.clone());
            match i % 4 {
                // from this thread, pooled stack
                0 => handles.push((i, unsafe { may::coroutine::spawn(f) })),
                // custom stack size (not pooled), named
                1 => handles.push((i, unsafe { may::coroutine::Builder::new().name(format!("c{i}")).stack_size(0x3000).spawn(f).unwrap() })),
                // from inside a coroutine
                2 => {
                    let h = unsafe { may::coroutine::spawn(move || unsafe { may::coroutine::spawn(f) }) };
                    handles.push((i, h.join().unwrap()));
                }
                // pinned to a worker by id
                _ => handles.push((i, unsafe { may::coroutine::Builder::new().id(i).spawn(f).unwrap() })),
            }
        }
        // scoped children on top
        let scoped_runs = AtomicUsize::new(0);
        may::coroutine::scope(|s| {
            for _ in 0..8 {
                unsafe {
                    s.spawn(|| {
                        may::coroutine::yield_now();
                        scoped_runs.fetch_add(1, SeqCst);
                    });
                }
            }
        });
        if scoped_runs.load(SeqCst) != 8 {
            bad2.lock().unwrap().push(("run_count".into(), format!("{} of 8 scoped coroutines ran", scoped_runs.load(SeqCst))));
        }
        for (i, h) in handles {
            let r = h.join();
            if counts[i].load(SeqCst) != 1 {
                bad2.lock().unwrap().push(("run_count".into(), format!("coroutine {i} was executed {} times when join() returned", counts[i].load(SeqCst))));
            }
            match r {
                Ok(v) if i % 7 != 3 && v == i * 2 => {}
                Err(e) if i % 7 == 3 && e.downcast_ref::<String>().map_or(false, |s| *s == format!("p{i}")) => {}
                other => bad2.lock().unwrap().push(("join_result".into(), format!("coroutine {i}: join() returned {:?}", other.map_err(|_| "Err(..)")))),
            }
        }
    }));
    let opts = ExecOpts { cats: vec![], ..Default::default() };
    Instance {
        opts,
        actors,
        custom: Box::new(|_, _| {}),
        unstick: Box::new(|| {}),
        check: Box::new(move |out: &Outcome| {
            let mut v = vec![];
            for (k, d) in bad.lock().unwrap().iter() {
                v.push(Violation { kind: k.clone(), detail: d.clone() });
            }
            match &out.end {
                End::Finished => {
                    if out.panicked.iter().any(|p| *p) {
                        v.push(Violation { kind: "panic".into(), detail: "the spawning thread panicked".into() });
                    }
                }
                End::Stuck(who) => v.push(Violation { kind: "hang".into(), detail: format!("a join() never returns: {who:?}") }),
                End::Budget => {}
                End::Tool(_) | End::Aborted => {}
            }
            v
        }),
    }
}
