//! scenario registry
use crate::run::Builder;
pub mod mutex;
pub mod sem;
pub mod reuse;
pub mod gq;
pub mod io;
pub mod spawn;
pub mod timers;
pub mod queue;
pub mod cancelmix;
pub mod park;
pub mod scope;
pub mod cqueue;
pub mod condvar;
pub mod chan;
pub mod rwlock;
pub mod flag;
pub mod fdreuse;
pub mod ioshared;

pub fn lookup(name: &str) -> Option<Builder> {
    match name {
        "mutex" => Some(mutex::build),
        "sem" => Some(sem::build),
        "reuse" => Some(reuse::build),
        "cls" => Some(reuse::build_cls),
        "gq" => Some(gq::build),
        "io" => Some(io::build),
        "io_bulk" => Some(io::build_bulk),
        "spawn" => Some(spawn::build),
        "spawn_many" => Some(spawn::build_many),
        "timers" => Some(timers::build),
        "queue" => Some(queue::build),
        "cancelmix" => Some(cancelmix::build),
        "park" => Some(park::build),
        "scope" => Some(scope::build),
        "cqueue" => Some(cqueue::build),
        "condvar" => Some(condvar::build),
        "chan" => Some(chan::build),
        "rwlock" => Some(rwlock::build),
        "flag" => Some(flag::build),
        "fdreuse" => Some(fdreuse::build),
        "ioshared" => Some(ioshared::build),
        _ => None,
    }
}
