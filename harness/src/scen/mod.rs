//! scenario registry
use crate::run::Builder;
pub mod mutex;

pub fn lookup(name: &str) -> Option<Builder> {
    match name {
        "mutex" => Some(mutex::build),
        _ => None,
    }
}
