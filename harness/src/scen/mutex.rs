//! C05: may::sync::Mutex under the baton.  Mirrors spec/l2/Mutex.tla: every actor runs
//! Prog[a] (a sequence of "lock" / "try"), with a verification point `mutex.cs` inside the
//! critical section.
use crate::ctrl::Ctrl;
use crate::driver::*;
use crate::run::{Instance, Violation};
use may::sync::Mutex;
use serde_json::Value;
use std::sync::atomic::{AtomicUsize, Ordering::SeqCst};
use std::sync::{Arc, Mutex as StdMutex};

struct Shared {
    m: Mutex<u64>,
    occ: AtomicUsize,
    mirror: AtomicUsize,
    entered: AtomicUsize,
    bad: StdMutex<Vec<String>>,
}

fn critical(sh: &Shared, g: &mut u64, who: &str) {
    let prev = sh.occ.fetch_add(1, SeqCst);
    if prev != 0 {
        sh.bad.lock().unwrap().push(format!("{who} entered the critical section while {prev} other holder(s) inside"));
    }
    if *g != sh.mirror.load(SeqCst) as u64 {
        sh.bad.lock().unwrap().push(format!("{who} does not see the data written by the previous holder"));
    }
    sh.entered.fetch_add(1, SeqCst);
    may::verif::pt("mutex.cs", 0, 0, 0);
    *g += 1;
    sh.mirror.store(*g as usize, SeqCst);
    sh.occ.fetch_sub(1, SeqCst);
}

pub fn build(_ctl: &'static Ctrl, params: &Value) -> Instance {
    let sh = Arc::new(Shared {
        m: Mutex::new(0),
        occ: AtomicUsize::new(0),
        mirror: AtomicUsize::new(0),
        entered: AtomicUsize::new(0),
        bad: StdMutex::new(vec![]),
    });
    let mut actors = vec![];
    let mut expect_locks = 0usize;
    let victims: Vec<String> = params["victims"].as_array().map(|a| a.iter().map(|v| v.as_str().unwrap().to_string()).collect()).unwrap_or_default();
    for a in params["actors"].as_array().expect("actors") {
        let name = a["name"].as_str().unwrap().to_string();
        let is_co = a["co"].as_bool().unwrap_or(false);
        let prog: Vec<String> = a["prog"].as_array().unwrap().iter().map(|v| v.as_str().unwrap().to_string()).collect();
        if !victims.contains(&name) {
            expect_locks += prog.iter().filter(|p| *p == "lock").count();
        }
        let sh2 = sh.clone();
        let nm = name.clone();
        actors.push(actor(&name, is_co, move || {
            for op in prog {
                match op.as_str() {
                    "lock" => {
                        let mut g = sh2.m.lock().unwrap_or_else(|e| e.into_inner());
                        critical(&sh2, &mut g, &nm);
                    }
                    "try" => {
                        if let Ok(mut g) = sh2.m.try_lock() {
                            critical(&sh2, &mut g, &nm);
                        }
                    }
                    _ => {}
                }
            }
        }));
    }
    let opts = ExecOpts { cats: vec!["mutex"], victims: victims.clone(), ..Default::default() };
    let sh3 = sh.clone();
    let nvict = victims.len();
    Instance {
        opts,
        actors,
        custom: Box::new(|_, _| {}),
        unstick: Box::new(|| {}),
        check: Box::new(move |out: &Outcome| {
            let mut v = vec![];
            for b in sh3.bad.lock().unwrap().iter() {
                v.push(Violation { kind: "mutual_exclusion".into(), detail: b.clone() });
            }
            match &out.end {
                End::Finished => {
                    let e = sh3.entered.load(SeqCst);
                    if e < expect_locks {
                        v.push(Violation { kind: "lock_lost".into(), detail: format!("only {e} of at least {expect_locks} lock() calls of non-cancelled actors entered") });
                    }
                    // every guard is gone: the lock must be free again
                    match sh3.m.try_lock() {
                        Ok(_) => {}
                        Err(std::sync::TryLockError::Poisoned(_)) => {}
                        Err(std::sync::TryLockError::WouldBlock) => {
                            v.push(Violation { kind: "lock_leaked".into(), detail: "all actors finished but try_lock fails".into() })
                        }
                    }
                    for (i, p) in out.panicked.iter().enumerate() {
                        if *p && !(nvict > 0 && victims.contains(&out.names[i])) {
                            v.push(Violation { kind: "panic".into(), detail: format!("actor {} panicked", out.names[i]) });
                        }
                    }
                }
                End::Stuck(who) => v.push(Violation { kind: "stranded_waiter".into(), detail: format!("logical deadlock, unfinished: {who:?}") }),
                End::Budget => v.push(Violation { kind: "livelock".into(), detail: "step budget exhausted".into() }),
                End::Tool(_) | End::Aborted => {}
            }
            v
        }),
    }
}
