//! C05: may::sync::Mutex under the baton.  Mirrors spec/l2/Mutex.tla: every actor runs
//! Prog[a] (a sequence of "lock" / "try"), with a verification point `mutex.cs` inside the
//! critical section.
use crate::ctrl::Ctrl;
use crate::driver::*;
use crate::run::{Instance, Violation};
use may::sync::Mutex;
use serde_json::Value;
use std::sync::atomic::{AtomicUsize, Ordering::SeqCst};
use std::sync::{Arc, Mutex as StdMutex};

struct Shared {
    m: Mutex<u64>,
    occ: AtomicUsize,
    mirror: AtomicUsize,
    entered: AtomicUsize,
    bad: StdMutex<Vec<String>>,
    // a holder is about to panic for its own reasons inside the guard (set under the lock)
    poison_due: std::sync::atomic::AtomicBool,
    bad_poison: StdMutex<Vec<String>>,
}

/// the LockResult of an acquisition must say "poisoned" iff a holder has panicked inside its guard
fn check_poison(sh: &Shared, is_err: bool, who: &str) {
    let due = sh.poison_due.load(SeqCst);
    if is_err != due {
        sh.bad_poison.lock().unwrap().push(format!("{who}: lock() returned {} although {}", if is_err { "Poisoned" } else { "Ok" },
            if due { "a holder panicked inside its guard" } else { "no holder panicked (guards were only dropped normally or by a cancellation)" }));
    }
}

fn critical(sh: &Shared, g: &mut u64, who: &str) {
    let prev = sh.occ.fetch_add(1, SeqCst);
    if prev != 0 {
        sh.bad.lock().unwrap().push(format!("{who} entered the critical section while {prev} other holder(s) inside"));
    }
    if *g != sh.mirror.load(SeqCst) as u64 {
        sh.bad.lock().unwrap().push(format!("{who} does not see the data written by the previous holder"));
    }
    sh.entered.fetch_add(1, SeqCst);
    may::verif::pt("mutex.cs", 0, 0, 0);
    *g += 1;
    sh.mirror.store(*g as usize, SeqCst);
    sh.occ.fetch_sub(1, SeqCst);
}

pub fn build(_ctl: &'static Ctrl, params: &Value) -> Instance {
    let sh = Arc::new(Shared {
        m: Mutex::new(0),
        occ: AtomicUsize::new(0),
        mirror: AtomicUsize::new(0),
        entered: AtomicUsize::new(0),
        bad: StdMutex::new(vec![]),
        poison_due: std::sync::atomic::AtomicBool::new(false),
        bad_poison: StdMutex::new(vec![]),
    });
    let check_p = params["check_poison"].as_bool().unwrap_or(false);
    let mut actors = vec![];
    let mut expect_locks = 0usize;
    let victims: Vec<String> = params["victims"].as_array().map(|a| a.iter().map(|v| v.as_str().unwrap().to_string()).collect()).unwrap_or_default();
    for a in params["actors"].as_array().expect("actors") {
        let name = a["name"].as_str().unwrap().to_string();
        let is_co = a["co"].as_bool().unwrap_or(false);
        let prog: Vec<String> = a["prog"].as_array().unwrap().iter().map(|v| v.as_str().unwrap().to_string()).collect();
        if !victims.contains(&name) {
            expect_locks += prog.iter().filter(|p| *p == "lock" || *p == "plock" || *p == "ylock").count();
        }
        let sh2 = sh.clone();
        let nm = name.clone();
        actors.push(actor(&name, is_co, move || {
            for op in prog {
                match op.as_str() {
                    "lock" => {
                        let r = sh2.m.lock();
                        if check_p {
                            check_poison(&sh2, r.is_err(), &nm);
                        }
                        let mut g = r.unwrap_or_else(|e| e.into_inner());
                        critical(&sh2, &mut g, &nm);
                    }
                    // panic inside the guard: poisons
                    "plock" => {
                        let r = sh2.m.lock();
                        if check_p {
                            check_poison(&sh2, r.is_err(), &nm);
                        }
                        let mut g = r.unwrap_or_else(|e| e.into_inner());
                        critical(&sh2, &mut g, &nm);
                        sh2.poison_due.store(true, SeqCst);
                        panic!("holder panics inside the guard");
                    }
                    // a cancellation point inside the guard: a cancelled holder unwinds through the guard, no poison
                    "ylock" => {
                        let r = sh2.m.lock();
                        if check_p {
                            check_poison(&sh2, r.is_err(), &nm);
                        }
                        let mut g = r.unwrap_or_else(|e| e.into_inner());
                        critical(&sh2, &mut g, &nm);
                        may::coroutine::yield_now();
                    }
                    "try" => {
                        if let Ok(mut g) = sh2.m.try_lock() {
                            critical(&sh2, &mut g, &nm);
                        }
                    }
                    _ => {}
                }
            }
        }));
    }
    let opts = ExecOpts { cats: vec!["mutex"], victims: victims.clone(), ..Default::default() };
    let sh3 = sh.clone();
    let nvict = victims.len();
    let panickers: Vec<String> = params["actors"].as_array().unwrap().iter()
        .filter(|a| a["prog"].as_array().unwrap().iter().any(|p| p == "plock"))
        .map(|a| a["name"].as_str().unwrap().to_string()).collect();
    Instance {
        opts,
        actors,
        custom: Box::new(|_, _| {}),
        unstick: Box::new(|| {}),
        check: Box::new(move |out: &Outcome| {
            let mut v = vec![];
            for b in sh3.bad.lock().unwrap().iter() {
                v.push(Violation { kind: "mutual_exclusion".into(), detail: b.clone() });
            }
            for b in sh3.bad_poison.lock().unwrap().iter() {
                v.push(Violation { kind: "poison".into(), detail: b.clone() });
            }
            match &out.end {
                End::Finished => {
                    let e = sh3.entered.load(SeqCst);
                    if e < expect_locks {
                        v.push(Violation { kind: "lock_lost".into(), detail: format!("only {e} of at least {expect_locks} lock() calls of non-cancelled actors entered") });
                    }
                    // every guard is gone: the lock must be free again
                    match sh3.m.try_lock() {
                        Ok(_) => {}
                        Err(std::sync::TryLockError::Poisoned(_)) => {}
                        Err(std::sync::TryLockError::WouldBlock) => {
                            v.push(Violation { kind: "lock_leaked".into(), detail: "all actors finished but try_lock fails".into() })
                        }
                    }
                    if check_p && sh3.m.is_poisoned() != sh3.poison_due.load(SeqCst) {
                        v.push(Violation { kind: "poison".into(), detail: format!("at the end is_poisoned() = {} but a holder panicked inside its guard = {}", sh3.m.is_poisoned(), sh3.poison_due.load(SeqCst)) });
                    }
                    for (i, p) in out.panicked.iter().enumerate() {
                        if *p && !(nvict > 0 && victims.contains(&out.names[i])) && !panickers.contains(&out.names[i]) {
                            v.push(Violation { kind: "panic".into(), detail: format!("actor {} panicked", out.names[i]) });
                        }
                    }
                }
                End::Stuck(who) => v.push(Violation { kind: "stranded_waiter".into(), detail: format!("logical deadlock, unfinished: {who:?}") }),
                End::Budget => v.push(Violation { kind: "livelock".into(), detail: "step budget exhausted".into() }),
                End::Tool(_) | End::Aborted => {}
            }
            v
        }),
    }
}
