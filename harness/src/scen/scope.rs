//! C14: may::coroutine::scope under the baton (spec/l2/Scope.tla is the design-level model).
//! The owner (a coroutine that may be cancelled, or a thread) opens a scope, spawns children that
//! borrow a flag from its frame, and leaves the scope normally, by a panic, or while being cancelled.
use crate::ctrl::{ASt, Ctrl};
use crate::driver::*;
use crate::run::{Instance, Violation};
use serde_json::Value;
use std::sync::atomic::{AtomicBool, AtomicUsize, Ordering::SeqCst};
use std::sync::{Arc, Mutex as StdMutex};

struct Shared {
    alive: AtomicBool, // stands for the owner's frame
    after_free: AtomicUsize,
    results: StdMutex<Vec<usize>>,
    bad: StdMutex<Vec<(String, String)>>,
    owner_saw_panic: AtomicBool,
    body_done: Vec<AtomicBool>, // the child's closure has returned (or unwound): it no longer uses the frame
}

struct BodyDone(Arc<Shared>, usize);
impl Drop for BodyDone {
    fn drop(&mut self) {
        self.0.body_done[self.1].store(true, SeqCst);
    }
}

pub fn build(ctl: &'static Ctrl, params: &Value) -> Instance {
    let nchild = params["children"].as_u64().unwrap_or(2) as usize;
    let steps = params["steps"].as_u64().unwrap_or(2) as usize;
    let owner_co = params["owner_co"].as_bool().unwrap_or(true);
    let owner_panic = params["owner_panic"].as_bool().unwrap_or(false);
    let child_panic = params["child_panic"].as_i64().unwrap_or(-1);
    let cancellable = params["cancel_owner"].as_bool().unwrap_or(false);
    let explicit_join = params["explicit_join"].as_bool().unwrap_or(true);
    let sh = Arc::new(Shared { alive: AtomicBool::new(true), after_free: AtomicUsize::new(0), results: StdMutex::new(vec![]), bad: StdMutex::new(vec![]), owner_saw_panic: AtomicBool::new(false), body_done: (0..nchild).map(|_| AtomicBool::new(false)).collect() });
    let mut actors = vec![];
    let sh2 = sh.clone();
    actors.push(actor("o", owner_co, move || {
        let shs = sh2.clone();
        let r = std::panic::catch_unwind(std::panic::AssertUnwindSafe(|| {
            may::coroutine::scope(|s| {
                let mut hs = vec![];
                for i in 0..nchild {
                    let sh3 = shs.clone();
                    let idx = i + 1;
                    let h = unsafe {
                        s.spawn(move || {
                            ctl.enroll_co_until_done(idx);
                            let _bd = BodyDone(sh3.clone(), i);
                            for _ in 0..steps {
                                may::verif::pt("scc.step", 0, 0, 0);
                                if !sh3.alive.load(SeqCst) {
                                    sh3.after_free.fetch_add(1, SeqCst);
                                }
                            }
                            if child_panic == i as i64 {
                                panic!("child panic");
                            }
                            i
                        })
                    };
                    hs.push(h);
                }
                may::verif::pt("sco.body", 0, 0, 0);
                if owner_panic {
                    panic!("owner panic");
                }
                // join the first child explicitly, the others are joined when the scope ends
                if !explicit_join {
                    return;
                }
                if let Some(h) = hs.into_iter().next() {
                    may::verif::pt("sco.join", 0, 0, 0);
                    let v = h.join();
                    shs.results.lock().unwrap().push(v);
                }
            })
        }));
        // the scope has been left (normally or by unwinding): the frame is gone
        shs.alive.store(false, SeqCst);
        let mut running = vec![];
        for i in 0..nchild {
            let (st, _) = ctl.actor_state(i + 1);
            if !shs.body_done[i].load(SeqCst) && !matches!(st, ASt::Finished(_)) {
                running.push(format!("c{}", i + 1));
            }
        }
        if !running.is_empty() {
            shs.bad.lock().unwrap().push(("scope_left_early".into(), format!("coroutine::scope was left while {running:?} are still running")));
        }
        if let Err(e) = r {
            shs.owner_saw_panic.store(true, SeqCst);
            // a cancel of the owner must go on unwinding
            if cancellable && !owner_panic && child_panic < 0 {
                std::panic::resume_unwind(e);
            }
        }
    }));
    for i in 0..nchild {
        actors.push(external_actor(&format!("c{}", i + 1)));
    }
    let victims = if cancellable { vec!["o".to_string()] } else { vec![] };
    let opts = ExecOpts { cats: vec!["scope", "join", "scc", "sco"], victims, ..Default::default() };
    let sh4 = sh.clone();
    Instance {
        opts,
        actors,
        custom: Box::new(|_, _| {}),
        unstick: Box::new(|| {}),
        check: Box::new(move |out: &Outcome| {
            let mut v = vec![];
            for (k, d) in sh4.bad.lock().unwrap().iter() {
                v.push(Violation { kind: k.clone(), detail: d.clone() });
            }
            let af = sh4.after_free.load(SeqCst);
            if af > 0 {
                v.push(Violation { kind: "use_after_scope".into(), detail: format!("scoped coroutines touched the owner's frame {af} times after the scope had been left") });
            }
            match &out.end {
                End::Finished => {
                    if (child_panic >= 0 || owner_panic) && !sh4.owner_saw_panic.load(SeqCst) {
                        v.push(Violation { kind: "panic_not_propagated".into(), detail: "a panic inside the scope did not reach the owner".into() });
                    }
                    if child_panic < 0 && !owner_panic && !cancellable && explicit_join {
                        let r = sh4.results.lock().unwrap();
                        if r.len() != 1 || r[0] != 0 {
                            v.push(Violation { kind: "result".into(), detail: format!("result of the joined child: {r:?}") });
                        }
                    }
                }
                End::Stuck(who) => v.push(Violation { kind: "scope_hang".into(), detail: format!("logical deadlock, unfinished: {who:?}") }),
                End::Budget => v.push(Violation { kind: "livelock".into(), detail: "step budget exhausted".into() }),
                End::Tool(_) | End::Aborted => {}
            }
            v
        }),
    }
}
