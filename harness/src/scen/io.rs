//! C17 / C18: socket I/O of a coroutine at the granularity of the readiness protocol.
//! Actors: `r` the reader coroutine (io.* points: clear flag, syscall, re-check, yield), `kr`/`kq` the
//! kernel side of its yields (iosub.*: arm timer, store coroutine, re-check flag, register cancel),
//! `sel` the event loop of the worker that serves the socket (passive actor: sel.or_flag, sel.take and the
//! io time-out handler iot.*), `w` the peer: a plain thread with a blocking std socket that writes
//! chunks, pauses and closes.  The reader is kept off the worker whose selector serves its socket, so
//! that the selector really runs concurrently.  Virtual clock for read time-outs; the environment may
//! cancel the reader.
//! Oracle: the bytes received are exactly the bytes sent, in order; read returns 0 only at end of stream;
//! the reader never stays suspended while the kernel has data / EOF for it (logical deadlock); a timed
//! read fails with TimedOut no earlier than its time-out and only when nothing arrived; a time-out armed
//! for one read never fails a later one; a cancelled reader ends with Cancel and its socket is closed.
use crate::ctrl::Ctrl;
use crate::driver::*;
use crate::run::{Instance, Violation};
use crate::scen::sem::UNIT_NS;
use serde_json::Value;
use std::io::{Read, Write};
use std::os::fd::{FromRawFd, IntoRawFd};
use std::sync::atomic::{AtomicBool, AtomicUsize, Ordering::SeqCst};
use std::sync::{Arc, Mutex as StdMutex};
use std::time::Duration;

struct Shared {
    sent: AtomicUsize,
    closed: AtomicBool,
    got: StdMutex<Vec<u8>>,
    eof_at: StdMutex<Option<usize>>,
    bad: StdMutex<Vec<(String, String)>>,
    reads_done: AtomicUsize,
    peer: StdMutex<Option<std::fs::File>>,
    co: StdMutex<Option<may::coroutine::Coroutine>>,
    cancel_issued: AtomicBool,
}
fn byte(i: usize) -> u8 {
    (i % 251) as u8
}

pub fn build(ctl: &'static Ctrl, params: &Value) -> Instance {
    let workers = params["workers"].as_u64().unwrap_or(8) as usize;
    let chunks: Vec<usize> = params["chunks"].as_array().map(|a| a.iter().map(|v| v.as_u64().unwrap() as usize).collect()).unwrap_or_else(|| vec![3, 2]);
    let buf_size = params["buf"].as_u64().unwrap_or(4) as usize;
    let close = params["close"].as_bool().unwrap_or(true);
    // read time-out in virtual units (0 = none); the writer may pause (virtual sleep) before a chunk: pauses[i] units
    let rto = params["read_timeout"].as_u64().unwrap_or(0);
    let pauses: Vec<u64> = params["pauses"].as_array().map(|a| a.iter().map(|v| v.as_u64().unwrap()).collect()).unwrap_or_default();
    let max_reads = params["max_reads"].as_u64().unwrap_or(64) as usize;
    let victims: Vec<String> = params["victims"].as_array().map(|a| a.iter().map(|v| v.as_str().unwrap().to_string()).collect()).unwrap_or_default();
    let total: usize = chunks.iter().sum();
    let any_pause = pauses.iter().any(|p| *p > 0);

    let transport = params["transport"].as_str().unwrap_or("unix").to_string();
    // the reader's end is a may stream, the peer's end a plain blocking std socket (as a raw fd, so that
    // both transports look the same to the writer)
    let role = params["role"].as_str().unwrap_or("read").to_string();
    let wtotal = params["write_total"].as_u64().unwrap_or(65536) as usize;
    let (rfd, mine, b): (i32, Box<dyn ReadEnd + Send>, std::fs::File) = if transport == "tcp" {
        let l = std::net::TcpListener::bind("127.0.0.1:0").expect("bind");
        let c = std::net::TcpStream::connect(l.local_addr().unwrap()).expect("connect");
        let (a, _) = l.accept().expect("accept");
        c.set_nodelay(true).ok();
        let rfd = a.into_raw_fd();
        let m = unsafe { may::net::TcpStream::from_raw_fd(rfd) };
        if rto > 0 {
            m.set_read_timeout(Some(Duration::from_nanos(rto * UNIT_NS))).unwrap();
        }
        (rfd, Box::new(m), unsafe { std::fs::File::from_raw_fd(c.into_raw_fd()) })
    } else {
        let (a, b) = std::os::unix::net::UnixStream::pair().expect("socketpair");
        let rfd = a.into_raw_fd();
        let m = unsafe { may::os::unix::net::UnixStream::from_raw_fd(rfd) };
        if rto > 0 {
            m.set_read_timeout(Some(Duration::from_nanos(rto * UNIT_NS))).unwrap();
        }
        (rfd, Box::new(m), unsafe { std::fs::File::from_raw_fd(b.into_raw_fd()) })
    };
    if role == "write" {
        use std::os::fd::AsRawFd;
        let small: libc::c_int = 4096;
        unsafe {
            // (not for TCP: tiny windows bring the kernel's delayed-ACK / persist timers into play)
            if transport != "tcp" {
                libc::setsockopt(rfd, libc::SOL_SOCKET, libc::SO_SNDBUF, &small as *const _ as *const libc::c_void, 4);
                libc::setsockopt(b.as_raw_fd(), libc::SOL_SOCKET, libc::SO_RCVBUF, &small as *const _ as *const libc::c_void, 4);
            }
            let fl = libc::fcntl(b.as_raw_fd(), libc::F_GETFL);
            libc::fcntl(b.as_raw_fd(), libc::F_SETFL, fl | libc::O_NONBLOCK);
        }
    }
    let sel_worker = rfd as usize % workers;
    ctl.set_avoid_worker(Some(sel_worker));
    let sh = Arc::new(Shared {
        sent: AtomicUsize::new(0),
        closed: AtomicBool::new(false),
        got: StdMutex::new(vec![]),
        eof_at: StdMutex::new(None),
        bad: StdMutex::new(vec![]),
        reads_done: AtomicUsize::new(0),
        co: StdMutex::new(None),
        cancel_issued: AtomicBool::new(false),
        peer: StdMutex::new(if victims.is_empty() { None } else { Some(b.try_clone().unwrap()) }),
    });
    let mut actors = vec![];
    let spawn_reader: Arc<StdMutex<Option<Box<dyn FnOnce() + Send>>>> = Arc::new(StdMutex::new(None));
    {
        let sh = sh.clone();
        // the reader: an external actor so that it can be pinned to a worker that is not the selector's
        actors.push(external_actor("r"));
        let role_r = role.clone();
        let body = move || {
            ctl.enroll_co_until_done(0);
            *sh.co.lock().unwrap() = Some(may::coroutine::current());
            let mut s = mine;
            if role_r == "write" {
                // the coroutine under test writes more than the socket buffers hold, then closes
                may::verif::pt("iox.cowrite", 0, 0, 0);
                let data: Vec<u8> = (0..wtotal).map(byte).collect();
                match s.write_all(&data) {
                    Ok(()) => {
                        sh.sent.store(wtotal, SeqCst);
                    }
                    Err(e) => sh.bad.lock().unwrap().push(("io_error".into(), format!("write failed: {e:?}"))),
                }
                sh.closed.store(true, SeqCst);
                drop(s);
                return;
            }
            let mut buf = vec![0u8; buf_size];
            for _ in 0..max_reads {
                may::verif::pt("iox.read", 0, 0, 0);
                let t0 = ctl.vnow();
                // is a time-out handler of an earlier read still in flight (between its two steps) when this read starts?
                let sites = ctl.sites_so_far();
                let handler_in_flight = sites.iter().filter(|s| **s == "iot.handler").count() > sites.iter().filter(|s| **s == "iot.take").count();
                let nothing_before = sh.got.lock().unwrap().len() == sh.sent.load(SeqCst) && !sh.closed.load(SeqCst);
                match s.read(&mut buf) {
                    Ok(0) => {
                        *sh.eof_at.lock().unwrap() = Some(sh.got.lock().unwrap().len());
                        if !sh.closed.load(SeqCst) {
                            sh.bad.lock().unwrap().push(("false_eof".into(), "read returned 0 although the peer has not closed the stream".into()));
                        }
                        break;
                    }
                    Ok(n) => {
                        sh.got.lock().unwrap().extend_from_slice(&buf[..n]);
                    }
                    Err(e) if e.kind() == std::io::ErrorKind::TimedOut => {
                        if rto == 0 {
                            sh.bad.lock().unwrap().push(("ghost_timeout".into(), "read failed with TimedOut although no time-out is set".into()));
                        }
                        if let (Some(t0), Some(t1)) = (t0, ctl.vnow()) {
                            if t1 - t0 < rto * UNIT_NS {
                                let sites = ctl.sites_so_far();
                                let in_flight_now = sites.iter().filter(|s| **s == "iot.handler").count() > sites.iter().filter(|s| **s == "iot.take").count();
                                let how = if handler_in_flight || in_flight_now {
                                    " [the time-out handler of an EARLIER read on this socket was in flight - between taking the timer cell and taking the coroutine - while that read completed and this one registered]"
                                } else {
                                    ""
                                };
                                sh.bad.lock().unwrap().push(("early_timeout".into(), format!("read with a time-out of {} ns failed with TimedOut after {} ns{how}", rto * UNIT_NS, t1 - t0)));
                            }
                        }
                        let _ = nothing_before;
                    }
                    Err(e) => {
                        sh.bad.lock().unwrap().push(("io_error".into(), format!("read failed: {e:?}")));
                        break;
                    }
                }
                sh.reads_done.fetch_add(1, SeqCst);
                if !close && sh.got.lock().unwrap().len() >= total {
                    break;
                }
            }
        };
        *spawn_reader.lock().unwrap() = Some(Box::new(move || {
            // placed by the harness: not on the selector's worker, not on a worker that an actor holds
            let h = unsafe { may::coroutine::spawn(body) };
            std::mem::forget(h);
        }));
    }
    actors.push(kernel_actor("kr", "r"));
    actors.push(kernel_actor("kq", "r"));
    actors.push(passive_actor("sel"));
    {
        let sh = sh.clone();
        let spawn_reader = spawn_reader.clone();
        let role_w = role.clone();
        let transport_w = transport.clone();
        let peer_chunk = params["peer_chunk"].as_u64().unwrap_or(8192) as usize;
        actors.push(actor("w", any_pause, move || {
            if let Some(f) = spawn_reader.lock().unwrap().take() {
                // from a plain thread: a spawn from inside a coroutine lands in the local queue of a worker that
                // this actor blocks while it is stopped at a point
                let _ = std::thread::spawn(f).join();
            }
            let mut s = b;
            if role_w == "write" {
                // the peer drains the socket in small non-blocking reads, one per step
                let mut buf = vec![0u8; peer_chunk];
                let mut idle = 0usize;
                let is_tcp = transport_w == "tcp";
                loop {
                    may::verif::pt("iox.pread", 0, 0, 0);
                    match s.read(&mut buf) {
                        Ok(0) => break,
                        Ok(n) => {
                            idle = 0;
                            sh.got.lock().unwrap().extend_from_slice(&buf[..n]);
                        }
                        Err(e) if e.kind() == std::io::ErrorKind::WouldBlock => {
                            // nothing there yet: give the kernel (and the writer) a moment; the peer never gives up
                            // while the writer has not closed
                            idle += 1;
                            if idle > 2000 {
                                break;
                            }
                            std::thread::sleep(Duration::from_micros(if is_tcp { 300 } else { 20 }));
                            continue;
                        }
                        Err(_) => break,
                    }
                }
                return;
            }
            let mut off = 0usize;
            for (k, c) in chunks.iter().enumerate() {
                may::verif::pt("iox.write", 0, k, 0);
                if let Some(p) = pauses.get(k) {
                    if *p > 0 {
                        // a pause in virtual time (the writer is a coroutine when the scenario has pauses)
                        may::coroutine::sleep(Duration::from_nanos(p * UNIT_NS));
                        may::coroutine::yield_now();
                    }
                }
                let data: Vec<u8> = (off..off + c).map(byte).collect();
                off += c;
                // counted before the bytes are visible: the reader compares against it
                sh.sent.fetch_add(*c, SeqCst);
                let _ = s.write_all(&data);
            }
            if close {
                may::verif::pt("iox.close", 0, 0, 0);
                sh.closed.store(true, SeqCst);
                drop(s);
            } else {
                std::mem::forget(s);
            }
        }));
    }
    let opts = ExecOpts {
        // io.reset / io.try (around the flag reset of the optimistic fast paths) belong to "io" as well
        cats: vec!["iox", "io", "iosub", "sel", "iot"],
        kernel_cats: vec!["iosub"],
        passive_cats: vec![("sel", "sel".to_string()), ("iot", "sel".to_string())],
        // the reader is spawned by the scenario: its cancel is a scenario-specific environment action
        custom_env: if victims.is_empty() { vec![] } else { vec![("cancelr".to_string(), String::new())] },
        vclock: true,
        offer_tick: rto > 0 || any_pause,
        kick_workers: if rto > 0 { vec![sel_worker] } else { vec![] },
        no_holdback: params["no_holdback"].as_bool().unwrap_or(true),
        kernel_must_not_outlive: true,
        ..Default::default()
    };
    let sh4 = sh.clone();
    let sh6 = sh.clone();
    Instance {
        opts,
        actors,
        custom: Box::new(move |what, _| {
            if what == "cancelr" {
                let t0 = std::time::Instant::now();
                loop {
                    if let Some(c) = sh6.co.lock().unwrap().clone() {
                        sh6.cancel_issued.store(true, SeqCst);
                        unsafe { c.cancel() };
                        break;
                    }
                    if t0.elapsed() > Duration::from_millis(100) {
                        break;
                    }
                    std::thread::yield_now();
                }
            }
        }),
        unstick: Box::new(|| {}),
        check: Box::new(move |out: &Outcome| {
            ctl.set_avoid_worker(None);
            let mut v = vec![];
            for (k, d) in sh4.bad.lock().unwrap().iter() {
                v.push(Violation { kind: k.clone(), detail: d.clone() });
            }
            let got = sh4.got.lock().unwrap().clone();
            for (i, b) in got.iter().enumerate() {
                if *b != byte(i) {
                    v.push(Violation { kind: "stream_corrupted".into(), detail: format!("byte {i} of the stream is {b}, sent {}", byte(i)) });
                    break;
                }
            }
            let cancelled = !victims.is_empty();
            let total = if role == "write" { wtotal } else { total };
            match &out.end {
                End::Finished => {
                    let r_panicked = out.panicked.first().copied().unwrap_or(false);
                    if !cancelled {
                        if got.len() != total {
                            v.push(Violation { kind: "stream_truncated".into(), detail: format!("{} of {total} bytes received when the reader finished", got.len()) });
                        }
                        if role != "write" && close && sh4.eof_at.lock().unwrap().is_none() && sh4.reads_done.load(SeqCst) < max_reads {
                            v.push(Violation { kind: "no_eof".into(), detail: "the reader finished without seeing the end of the stream".into() });
                        }
                        if r_panicked {
                            v.push(Violation { kind: "panic".into(), detail: "the reader panicked".into() });
                        }
                    } else {
                        // the cancelled reader owned its socket: the peer must see it closed
                        if let Some(mut p) = sh4.peer.lock().unwrap().take() {
                            if got.len() < total || r_panicked {
                                unsafe {
                                    use std::os::fd::AsRawFd;
                                    let fl = libc::fcntl(p.as_raw_fd(), libc::F_GETFL);
                                    libc::fcntl(p.as_raw_fd(), libc::F_SETFL, fl | libc::O_NONBLOCK);
                                }
                                let mut b = [0u8; 1];
                                let t0 = std::time::Instant::now();
                                let mut closed = false;
                                while t0.elapsed() < Duration::from_millis(200) {
                                    match p.write(&b) {
                                        Err(e) if matches!(e.kind(), std::io::ErrorKind::BrokenPipe | std::io::ErrorKind::ConnectionReset) => {
                                            closed = true;
                                            break;
                                        }
                                        _ => {}
                                    }
                                    if let Ok(0) = p.read(&mut b) {
                                        closed = true;
                                        break;
                                    }
                                    std::thread::yield_now();
                                }
                                if r_panicked && !closed {
                                    v.push(Violation { kind: "socket_leaked".into(), detail: "the reader was cancelled but its socket is still open".into() });
                                }
                            }
                        }
                    }
                    for (i, p) in out.panicked.iter().enumerate() {
                        if *p && i != 0 {
                            v.push(Violation { kind: "panic".into(), detail: format!("{} panicked", out.names[i]) });
                        }
                    }
                }
                End::Stuck(who) => {
                    if role == "write" {
                        v.push(Violation { kind: "missed_readiness".into(), detail: format!("the writer stays suspended although the peer has drained the socket ({} of {total} bytes received): {who:?}", got.len()) });
                    } else {
                        v.push(Violation { kind: "missed_readiness".into(), detail: format!("the reader stays suspended although the peer has written {} bytes (received {}) and closed = {}: {who:?}", sh4.sent.load(SeqCst), got.len(), sh4.closed.load(SeqCst)) });
                    }
                }
                End::Budget => v.push(Violation { kind: "livelock".into(), detail: "step budget exhausted".into() }),
                End::Tool(_) | End::Aborted => {}
            }
            v
        }),
    }
}

// ---------------------------------------------------------------------------------------------
// bulk transfers over real sockets, not gated: payloads of several socket buffers, random chunkings and
// buffer sizes, TCP / Unix streams, UDP / Unix datagrams, coroutine and thread callers
// ---------------------------------------------------------------------------------------------
fn xorshift(s: &mut u64) -> u64 {
    *s ^= *s << 13;
    *s ^= *s >> 7;
    *s ^= *s << 17;
    *s
}
fn pattern(conn: usize, i: usize) -> u8 {
    ((i * 31 + conn * 7 + (i >> 8)) % 253) as u8
}

pub fn build_bulk(_ctl: &'static Ctrl, params: &Value) -> Instance {
    static ROUND: AtomicUsize = AtomicUsize::new(0);
    let conns = params["conns"].as_u64().unwrap_or(3) as usize;
    let size = params["size"].as_u64().unwrap_or(600_000) as usize;
    let kind = params["kind"].as_str().unwrap_or("unix").to_string();
    let thread_reader = params["thread_reader"].as_bool().unwrap_or(false);
    let round = ROUND.fetch_add(1, SeqCst) as u64;
    let bad: Arc<StdMutex<Vec<(String, String)>>> = Arc::new(StdMutex::new(vec![]));
    let mut actors = vec![];
    let bad2 = bad.clone();
    actors.push(actor("m", false, move || {
        let mut joins: Vec<Box<dyn FnOnce() + Send>> = vec![];
        for c in 0..conns {
            let mut seed = 0x9E3779B97F4A7C15u64 ^ ((round + 1) * 1000 + c as u64);
            let bad = bad2.clone();
            match kind.as_str() {
                "unix" | "tcp" => {
                    // a connected pair of may streams
                    type S = Box<dyn ReadWrite + Send>;
                    let (mut a, mut b): (S, S) = if kind == "unix" {
                        let (a, b) = may::os::unix::net::UnixStream::pair().expect("pair");
                        (Box::new(a), Box::new(b))
                    } else {
                        let l = may::net::TcpListener::bind("127.0.0.1:0").expect("bind");
                        let addr = l.local_addr().unwrap();
                        let acc = may::go!(move || l.accept().map(|x| x.0));
                        let a = may::net::TcpStream::connect(addr).expect("connect");
                        let b = acc.join().unwrap().expect("accept");
                        (Box::new(a), Box::new(b))
                    };
                    let wseed = xorshift(&mut seed);
                    let rseed = xorshift(&mut seed);
                    let writer = may::go!(move || {
                        let mut s = wseed;
                        let mut off = 0usize;
                        while off < size {
                            let n = (xorshift(&mut s) as usize % 70_000 + 1).min(size - off);
                            let data: Vec<u8> = (off..off + n).map(|i| pattern(c, i)).collect();
                            if a.write_all(&data).is_err() {
                                break;
                            }
                            off += n;
                            if xorshift(&mut s) % 5 == 0 {
                                may::coroutine::yield_now();
                            }
                        }
                        drop(a); // end of stream
                    });
                    let bad_r = bad.clone();
                    let reader = move || {
                        let mut s = rseed;
                        let mut got = 0usize;
                        loop {
                            let bs = xorshift(&mut s) as usize % 50_000 + 1;
                            let mut buf = vec![0u8; bs];
                            match b.read(&mut buf) {
                                Ok(0) => break,
                                Ok(n) => {
                                    for (k, x) in buf[..n].iter().enumerate() {
                                        if *x != pattern(c, got + k) {
                                            bad_r.lock().unwrap().push(("stream_corrupted".into(), format!("connection {c}: byte {} differs", got + k)));
                                            return;
                                        }
                                    }
                                    got += n;
                                }
                                Err(e) => {
                                    bad_r.lock().unwrap().push(("io_error".into(), format!("connection {c}: read failed after {got} bytes: {e:?}")));
                                    return;
                                }
                            }
                        }
                        if got != size {
                            bad_r.lock().unwrap().push(("stream_truncated".into(), format!("connection {c}: end of stream after {got} of {size} bytes")));
                        }
                    };
                    if thread_reader && c == 0 {
                        let h = std::thread::spawn(reader);
                        joins.push(Box::new(move || {
                            let _ = h.join();
                            let _ = writer.join();
                        }));
                    } else {
                        let h = may::go!(reader);
                        joins.push(Box::new(move || {
                            let _ = h.join();
                            let _ = writer.join();
                        }));
                    }
                }
                _ => {
                    // datagrams keep their boundaries (udp over loopback / unix datagram pair); sizes vary, lock-step
                    let n_msgs = 200usize;
                    let sizes: Vec<usize> = (0..n_msgs).map(|_| xorshift(&mut seed) as usize % 1400 + 1).collect();
                    let sizes2 = sizes.clone();
                    if kind == "udp" {
                        let rx = may::net::UdpSocket::bind("127.0.0.1:0").expect("bind");
                        let tx = may::net::UdpSocket::bind("127.0.0.1:0").expect("bind");
                        let addr = rx.local_addr().unwrap();
                        let taddr = tx.local_addr().unwrap();
                        let h = may::go!(move || {
                            let mut buf = vec![0u8; 4096];
                            for (k, sz) in sizes2.iter().enumerate() {
                                match rx.recv_from(&mut buf) {
                                    Ok((n, _)) => {
                                        if n != *sz || buf[..n].iter().enumerate().any(|(i, x)| *x != pattern(c, k * 7 + i)) {
                                            bad.lock().unwrap().push(("datagram".into(), format!("datagram {k}: received {n} bytes, sent {sz} (or content differs)")));
                                            return;
                                        }
                                        let _ = rx.send_to(&[1], taddr);
                                    }
                                    Err(e) => {
                                        bad.lock().unwrap().push(("io_error".into(), format!("recv_from failed: {e:?}")));
                                        return;
                                    }
                                }
                            }
                        });
                        let w = may::go!(move || {
                            let mut ack = [0u8; 8];
                            for (k, sz) in sizes.iter().enumerate() {
                                let data: Vec<u8> = (0..*sz).map(|i| pattern(c, k * 7 + i)).collect();
                                let _ = tx.send_to(&data, addr);
                                let _ = tx.recv_from(&mut ack);
                            }
                        });
                        joins.push(Box::new(move || {
                            let _ = h.join();
                            let _ = w.join();
                        }));
                    } else {
                        let (tx, rx) = may::os::unix::net::UnixDatagram::pair().expect("pair");
                        let h = may::go!(move || {
                            let mut buf = vec![0u8; 4096];
                            for (k, sz) in sizes2.iter().enumerate() {
                                match rx.recv(&mut buf) {
                                    Ok(n) => {
                                        if n != *sz || buf[..n].iter().enumerate().any(|(i, x)| *x != pattern(c, k * 7 + i)) {
                                            bad.lock().unwrap().push(("datagram".into(), format!("datagram {k}: received {n} bytes, sent {sz} (or content differs)")));
                                            return;
                                        }
                                        let _ = rx.send(&[1]);
                                    }
                                    Err(e) => {
                                        bad.lock().unwrap().push(("io_error".into(), format!("recv failed: {e:?}")));
                                        return;
                                    }
                                }
                            }
                        });
                        let w = may::go!(move || {
                            let mut ack = [0u8; 8];
                            for (k, sz) in sizes.iter().enumerate() {
                                let data: Vec<u8> = (0..*sz).map(|i| pattern(c, k * 7 + i)).collect();
                                let _ = tx.send(&data);
                                let _ = tx.recv(&mut ack);
                            }
                        });
                        joins.push(Box::new(move || {
                            let _ = h.join();
                            let _ = w.join();
                        }));
                    }
                }
            }
        }
        for j in joins {
            j();
        }
    }));
    let opts = ExecOpts { cats: vec![], ..Default::default() };
    Instance {
        opts,
        actors,
        custom: Box::new(|_, _| {}),
        unstick: Box::new(|| {}),
        check: Box::new(move |out: &Outcome| {
            let mut v = vec![];
            for (k, d) in bad.lock().unwrap().iter() {
                v.push(Violation { kind: k.clone(), detail: d.clone() });
            }
            match &out.end {
                End::Finished => {
                    if out.panicked.iter().any(|p| *p) {
                        v.push(Violation { kind: "panic".into(), detail: "the driving thread panicked".into() });
                    }
                }
                End::Stuck(who) => v.push(Violation { kind: "missed_readiness".into(), detail: format!("a transfer makes no progress any more: {who:?}") }),
                End::Budget => {}
                End::Tool(_) | End::Aborted => {}
            }
            v
        }),
    }
}
trait ReadEnd: Read + Write {}
impl<T: Read + Write> ReadEnd for T {}
trait ReadWrite: Read + Write {}
impl<T: Read + Write> ReadWrite for T {}
