//! C17: the registration of a socket with the selector against the life cycle of its fd NUMBER
//! (spec/l3/FdReuse.tla).  Actor `a` drops a coroutine socket (the point iod.del sits in front of the
//! EPOLL_CTL_DEL in IoData::drop; whether the close() comes before or after it is the library's drop order),
//! actor `b` creates a new socket - the kernel hands out the lowest free number, i.e. a's number if that has
//! been closed already - and blocks in a read on it, `w` writes one byte to b's peer.
//! Oracle: b's read returns the byte; b suspended for ever although its peer has written = missed readiness.
use crate::ctrl::Ctrl;
use crate::driver::*;
use crate::run::{Instance, Violation};
use serde_json::Value;
use std::io::{Read, Write};
use std::os::fd::{AsRawFd, FromRawFd, IntoRawFd};
use std::sync::atomic::{AtomicBool, AtomicI32, Ordering::SeqCst};
use std::sync::{Arc, Mutex as StdMutex};

trait Sock: Read + Send {}
impl Sock for may::os::unix::net::UnixStream {}
impl Sock for may::net::TcpStream {}

fn std_pair(tcp: bool) -> (i32, i32) {
    if tcp {
        let l = std::net::TcpListener::bind("127.0.0.1:0").expect("bind");
        let c = std::net::TcpStream::connect(l.local_addr().unwrap()).expect("connect");
        let (a, _) = l.accept().expect("accept");
        c.set_nodelay(true).ok();
        // (the listener's number is freed again here: lower than the two ends only if it was allocated first)
        (a.into_raw_fd(), c.into_raw_fd())
    } else {
        let (a, b) = std::os::unix::net::UnixStream::pair().expect("socketpair");
        (a.into_raw_fd(), b.into_raw_fd())
    }
}
fn wrap(tcp: bool, fd: i32) -> Box<dyn Sock> {
    if tcp {
        Box::new(unsafe { may::net::TcpStream::from_raw_fd(fd) })
    } else {
        Box::new(unsafe { may::os::unix::net::UnixStream::from_raw_fd(fd) })
    }
}

struct Shared {
    a_fd: AtomicI32,
    peer_b: StdMutex<Option<std::fs::File>>,
    written: AtomicBool,
    got: StdMutex<Option<Result<Vec<u8>, String>>>,
    b_handle: StdMutex<Option<may::coroutine::Coroutine>>,
}

pub fn build(_ctl: &'static Ctrl, params: &Value) -> Instance {
    let tcp = params["transport"].as_str().unwrap_or("unix") == "tcp";
    let sh = Arc::new(Shared { a_fd: AtomicI32::new(-1), peer_b: StdMutex::new(None), written: AtomicBool::new(false), got: StdMutex::new(None), b_handle: StdMutex::new(None) });
    // a's socket exists (and is registered) before anybody moves; its peer stays open until the end
    let (afd, apeer) = std_pair(tcp);
    let a_sock = wrap(tcp, afd);
    sh.a_fd.store(afd, SeqCst);
    let a_peer = unsafe { std::fs::File::from_raw_fd(apeer) };
    let mut actors = vec![];
    let a_sock = StdMutex::new(Some(a_sock));
    actors.push(actor("a", true, move || {
        let s = a_sock.lock().unwrap().take();
        may::verif::pt("fx.drop", 0, 0, 0);
        drop(s);
    }));
    let sh2 = sh.clone();
    actors.push(actor("b", true, move || {
        *sh2.b_handle.lock().unwrap() = Some(may::coroutine::current());
        may::verif::pt("fx.new", 0, 0, 0);
        let (x, y) = std_pair(tcp);
        let n = sh2.a_fd.load(SeqCst);
        // the end that got a's old number (if any) becomes the coroutine socket
        let (mine, peer) = if y == n { (y, x) } else { (x, y) };
        crate::run::bump(if mine == n { "fd_number_reused" } else { "fd_number_fresh" });
        let mut s = wrap(tcp, mine);
        *sh2.peer_b.lock().unwrap() = Some(unsafe { std::fs::File::from_raw_fd(peer) });
        may::verif::pt("fx.read", 0, 0, 0);
        let mut buf = [0u8; 4];
        let r = s.read(&mut buf);
        *sh2.got.lock().unwrap() = Some(r.map(|k| buf[..k].to_vec()).map_err(|e| format!("{e:?}")));
    }));
    let sh3 = sh.clone();
    actors.push(actor("w", false, move || {
        // (held at this point until b has created its socket)
        may::verif::pt("fx.write", 0, 0, 0);
        if let Some(p) = sh3.peer_b.lock().unwrap().as_mut() {
            let _ = p.write_all(&[42u8]);
            sh3.written.store(true, SeqCst);
        }
    }));
    let opts = ExecOpts {
        cats: vec!["fx", "iod"],
        holds: vec![Hold { actor: "w".into(), site: "fx.write".into(), nth: 1, until_actor: "b".into(), until_site: "fx.new".into(), until_n: 1 }],
        ..Default::default()
    };
    let sh4 = sh.clone();
    let sh5 = sh.clone();
    Instance {
        opts,
        actors,
        custom: Box::new(|_, _| {}),
        unstick: Box::new(move || {
            let _ = a_peer.as_raw_fd();
            // a reader whose registration is gone can only be ended by a cancel
            if let Some(h) = sh5.b_handle.lock().unwrap().clone() {
                unsafe { h.cancel() };
            }
        }),
        check: Box::new(move |out: &Outcome| {
            let mut v = vec![];
            let got = sh4.got.lock().unwrap().clone();
            match &out.end {
                End::Finished => {
                    match got {
                        Some(Ok(b)) if b == vec![42u8] => {}
                        other => v.push(Violation { kind: "wrong_data".into(), detail: format!("the read on the new socket returned {other:?}, expected the byte its peer wrote") }),
                    }
                    for (i, p) in out.panicked.iter().enumerate() {
                        if *p {
                            v.push(Violation { kind: "panic".into(), detail: format!("{} panicked", out.names[i]) });
                        }
                    }
                }
                End::Stuck(who) => {
                    if sh4.written.load(SeqCst) && who.iter().any(|w| w == "b") {
                        v.push(Violation { kind: "missed_readiness".into(), detail: format!("the reader of the new socket stays suspended although its peer has written: the socket's registration with the selector is gone (its fd number is the one of the socket that was dropped concurrently): {who:?}") });
                    } else {
                        v.push(Violation { kind: "hang".into(), detail: format!("logical deadlock, unfinished: {who:?}") });
                    }
                }
                End::Budget => v.push(Violation { kind: "livelock".into(), detail: "step budget exhausted".into() }),
                End::Tool(_) | End::Aborted => {}
            }
            v
        }),
    }
}
