//! C16 (and the cqueue half of C14): may::cqueue under the baton; mirrors spec/l2/Cqueue.tla.
//! The owner runs `cqueue::scope`, adds the arms (select coroutines, *external* actors: the code
//! under test spawns them), polls `npoll` times and leaves the scope.
use crate::ctrl::{ASt, Ctrl};
use crate::driver::*;
use crate::run::{Instance, Violation};
use may::cqueue::{self, PollError};
use serde_json::Value;
use std::sync::atomic::{AtomicUsize, Ordering::SeqCst};
use std::sync::{Arc, Mutex as StdMutex};

struct Shared {
    top: Vec<AtomicUsize>,
    bot: Vec<AtomicUsize>,
    got: StdMutex<Vec<usize>>,
    finished_polls: AtomicUsize,
    bad: StdMutex<Vec<(String, String)>>,
    scope_returned: AtomicUsize,
}

pub fn build(ctl: &'static Ctrl, params: &Value) -> Instance {
    let nev: Vec<usize> = params["events"].as_array().expect("events").iter().map(|v| v.as_u64().unwrap() as usize).collect();
    let narms = nev.len();
    let npoll = params["npoll"].as_u64().unwrap_or(1) as usize;
    let owner_co = params["owner_co"].as_bool().unwrap_or(false);
    let panic_arm = params["panic_arm"].as_i64().unwrap_or(-1);
    // arm that panics in its *top* half, and arms whose top half blocks for ever (until cancelled)
    let panic_top = params["panic_top"].as_i64().unwrap_or(-1);
    let block_top: Vec<usize> = params["block_top"].as_array().map(|a| a.iter().map(|v| v.as_u64().unwrap() as usize).collect()).unwrap_or_default();
    let never = Arc::new(may::sync::Semphore::new(0));
    let sh = Arc::new(Shared {
        top: (0..narms).map(|_| AtomicUsize::new(0)).collect(),
        bot: (0..narms).map(|_| AtomicUsize::new(0)).collect(),
        got: StdMutex::new(vec![]),
        finished_polls: AtomicUsize::new(0),
        bad: StdMutex::new(vec![]),
        scope_returned: AtomicUsize::new(0),
    });
    let mut actors = vec![];
    let sh2 = sh.clone();
    let nev2 = nev.clone();
    // actor 0 = owner, actors 1..=narms = arms m1..
    actors.push(actor("o", owner_co, move || {
        let shs = sh2.clone();
        let r = std::panic::catch_unwind(std::panic::AssertUnwindSafe(|| {
            cqueue::scope(|cq| {
                for i in 0..narms {
                    let sh3 = shs.clone();
                    let n = nev2[i];
                    let idx = i + 1;
                    let never2 = never.clone();
                    let blocks = block_top.contains(&i);
                    cq.add(i, move |es| {
                        ctl.enroll_co(idx);
                        let _g = fin_guard(ctl, idx);
                        let es = es; // dropped before the guard: EventSender::drop stays under the baton
                        for _k in 0..n {
                            may::verif::pt("cqa.top", 0, 0, 0);
                            if panic_top == i as i64 {
                                panic!("arm panic in top half");
                            }
                            if blocks {
                                never2.wait();
                            }
                            sh3.top[i].fetch_add(1, SeqCst);
                            es.send(0);
                            may::verif::pt("cqa.bottom", 0, 0, 0);
                            sh3.bot[i].fetch_add(1, SeqCst);
                            if panic_arm == i as i64 {
                                panic!("arm panic");
                            }
                        }
                    });
                }
                for _ in 0..npoll {
                    may::verif::pt("cqo.poll", 0, 0, 0);
                    match cq.poll(None) {
                        Ok(ev) => {
                            let t = ev.token;
                            if shs.top[t].load(SeqCst) == 0 || shs.bot[t].load(SeqCst) == 0 {
                                shs.bad.lock().unwrap().push(("half_run_arm".into(), format!("poll returned token {t} but top/bottom ran {}/{} times", shs.top[t].load(SeqCst), shs.bot[t].load(SeqCst))));
                            }
                            shs.got.lock().unwrap().push(t);
                        }
                        Err(PollError::Finished) => {
                            shs.finished_polls.fetch_add(1, SeqCst);
                        }
                        Err(PollError::Timeout) => {}
                    }
                }
                may::verif::pt("cqo.poll", 0, 0, 0);
            })
        }));
        // the scope has been left (normally or by a re-raised arm panic): no arm may still be running
        shs.scope_returned.store(1, SeqCst);
        let mut running = vec![];
        for i in 0..narms {
            let (st, _) = ctl.actor_state(i + 1);
            if !matches!(st, ASt::Finished(_)) {
                running.push(format!("m{}", i + 1));
            }
        }
        let mut kbusy = vec![];
        for i in 0..narms {
            if ctl.kernel_active(narms + 1 + i) {
                kbusy.push(format!("k{}", i + 1));
            }
        }
        if running.is_empty() && !kbusy.is_empty() {
            shs.bad.lock().unwrap().push(("unsafe_kernel_side_after_scope".into(), format!("cqueue::scope returned while the kernel side of a yield of {kbusy:?} is still between its push and its to_wake.take() (it will touch the dropped EventSender / Cqueue)")));
            ctl.abort_run();
            return;
        }
        if !running.is_empty() {
            shs.bad.lock().unwrap().push(("unsafe_scope_left_early".into(), format!("cqueue::scope returned while {running:?} are still executing (they will touch the dropped Cqueue)")));
            ctl.abort_run();
            return;
        }
        if let Err(e) = r {
            if panic_arm < 0 && panic_top < 0 {
                std::panic::resume_unwind(e);
            } else {
                shs.got.lock().unwrap().push(usize::MAX); // the arm's panic was re-raised in the poller
            }
        }
    }));
    for i in 0..narms {
        actors.push(external_actor(&format!("m{}", i + 1)));
    }
    for i in 0..narms {
        actors.push(kernel_actor(&format!("k{}", i + 1), &format!("m{}", i + 1)));
    }
    let urgent_cats = if params["urgent_kernel"].as_bool().unwrap_or(true) { vec!["cqsub"] } else { vec![] };
    let opts = ExecOpts { cats: vec!["cq", "cqsub", "cqa", "cqo"], kernel_cats: vec!["cqsub"], urgent_cats, ..Default::default() };
    let sh4 = sh.clone();
    Instance {
        opts,
        actors,
        custom: Box::new(|_, _| {}),
        unstick: Box::new(|| {}),
        check: Box::new(move |out: &Outcome| {
            let mut v = vec![];
            for (k, d) in sh4.bad.lock().unwrap().iter() {
                v.push(Violation { kind: k.clone(), detail: d.clone() });
            }
            for i in 0..narms {
                let (t, b) = (sh4.top[i].load(SeqCst), sh4.bot[i].load(SeqCst));
                if b > t {
                    v.push(Violation { kind: "bottom_without_top".into(), detail: format!("arm m{}: bottom half ran {b} times, top half {t} times", i + 1) });
                }
                if t > nev[i] || b > nev[i] {
                    v.push(Violation { kind: "event_twice".into(), detail: format!("arm m{}: halves ran {t}/{b} times for {} events", i + 1, nev[i]) });
                }
            }
            match &out.end {
                End::Finished => {
                    if panic_top >= 0 && !sh4.got.lock().unwrap().contains(&usize::MAX) {
                        v.push(Violation { kind: "panic_not_reraised".into(), detail: format!("arm m{} panicked in its top half but the poller did not see the panic", panic_top + 1) });
                    }
                    if panic_arm >= 0 && sh4.bot[panic_arm as usize].load(SeqCst) > 0 && !sh4.got.lock().unwrap().contains(&usize::MAX) {
                        v.push(Violation { kind: "panic_not_reraised".into(), detail: format!("arm m{} panicked in its bottom half but the poller did not see the panic", panic_arm + 1) });
                    }
                    for (i, p) in out.panicked.iter().enumerate() {
                        // arms cancelled by Cqueue::drop end with a Cancel panic: expected
                        if *p && i == 0 {
                            v.push(Violation { kind: "panic".into(), detail: "the owner panicked".into() });
                        }
                    }
                }
                End::Stuck(who) => v.push(Violation { kind: "poller_hang".into(), detail: format!("logical deadlock, unfinished: {who:?}") }),
                End::Budget => v.push(Violation { kind: "livelock".into(), detail: "step budget exhausted".into() }),
                End::Tool(_) | End::Aborted => {}
            }
            v
        }),
    }
}
