//! C09: a victim coroutine runs a program of blocking calls of different primitives, each with a
//! stack-owned value alive across the call; a canceller thread calls cancel() at an arbitrary
//! moment; a provider thread supplies, in order, the event every call waits for, joins the victim
//! and then uses every primitive itself.  Oracle: join() = Ok (whole program ran) or Err(Cancel)
//! and nothing else; a cancel that had returned before the final yield of the program started is
//! not ignored; every stack value dropped exactly once; nobody else panics / observes a cancel;
//! locks are neither leaked nor poisoned; no hang.
use crate::ctrl::Ctrl;
use crate::driver::*;
use crate::run::{Instance, Violation};
use crate::scen::sem::UNIT_NS;
use may::sync::{mpmc, mpsc, Blocker, Condvar, Mutex, RwLock, Semphore, SyncFlag};
use serde_json::Value;
use std::sync::atomic::{AtomicBool, AtomicUsize, Ordering::SeqCst};
use std::sync::{Arc, Mutex as StdMutex};
use std::time::Duration;

struct Shared {
    seq: AtomicUsize,
    cancel_done: AtomicUsize,     // seq when cancel() had returned (0 = not yet)
    last_yield_start: AtomicUsize, // seq when the victim started its final yield_now
    progress: AtomicUsize,
    created: AtomicUsize,
    drops: StdMutex<Vec<usize>>,
    bad: StdMutex<Vec<(String, String)>>,
    blocker: StdMutex<Option<Arc<Blocker>>>,
    handle: StdMutex<Option<may::coroutine::Coroutine>>,
    join_result: StdMutex<Option<String>>,
    m: Mutex<u64>,
    rw: RwLock<u64>,
    sem: Semphore,
    flag: SyncFlag,
    flag2: SyncFlag,
    cv: Condvar,
    cvm: Mutex<bool>,
}
struct D(Arc<Shared>, usize);
impl D {
    fn new(sh: &Arc<Shared>) -> D {
        D(sh.clone(), sh.created.fetch_add(1, SeqCst))
    }
}
impl Drop for D {
    fn drop(&mut self) {
        self.0.drops.lock().unwrap().push(self.1);
    }
}
fn tick(sh: &Shared) -> usize {
    sh.seq.fetch_add(1, SeqCst) + 1
}

pub fn build(ctl: &'static Ctrl, params: &Value) -> Instance {
    let prog: Vec<String> = params["prog"].as_array().expect("prog").iter().map(|v| v.as_str().unwrap().to_string()).collect();
    let sh = Arc::new(Shared {
        seq: AtomicUsize::new(0),
        cancel_done: AtomicUsize::new(0),
        last_yield_start: AtomicUsize::new(0),
        progress: AtomicUsize::new(0),
        created: AtomicUsize::new(0),
        drops: StdMutex::new(vec![]),
        bad: StdMutex::new(vec![]),
        blocker: StdMutex::new(None),
        handle: StdMutex::new(None),
        join_result: StdMutex::new(None),
        m: Mutex::new(0),
        rw: RwLock::new(0),
        sem: Semphore::new(0),
        flag: SyncFlag::new(),
        flag2: SyncFlag::new(),
        cv: Condvar::new(),
        cvm: Mutex::new(false),
    });
    let with_child = prog.iter().any(|p| p == "join");
    let after = (params["after"].as_u64().unwrap_or(0) as usize).min(prog.len().saturating_sub(1));
    let mut actors = vec![];
    let nprog = prog.len();
    // actor 0: provider + joiner; 1: the victim; 2: the canceller; 3: the victim's child (if any)
    {
        let sh = sh.clone();
        let prog = prog.clone();
        actors.push(actor("h", false, move || {
            let (tx, rx) = mpsc::channel::<u64>();
            let (mtx, mrx) = mpmc::channel::<u64>();
            let mut mg = if prog.iter().any(|p| p == "lock") { Some(sh.m.lock().unwrap()) } else { None };
            let mut rg = if prog.iter().any(|p| p == "rwlock") { Some(sh.rw.read().unwrap()) } else { None };
            let child = if with_child {
                let shc = sh.clone();
                Some(unsafe {
                    may::coroutine::spawn(move || {
                        ctl.enroll_co_until_done(3);
                        shc.flag2.wait();
                        7u64
                    })
                })
            } else {
                None
            };
            let shv = sh.clone();
            let progv = prog.clone();
            let started = Arc::new(AtomicBool::new(false));
            let started2 = started.clone();
            let h = unsafe {
                may::coroutine::spawn(move || {
                    ctl.enroll_co_until_done(1);
                    *shv.blocker.lock().unwrap() = Some(Blocker::current());
                    *shv.handle.lock().unwrap() = Some(may::coroutine::current());
                    started2.store(true, SeqCst);
                    let _d0 = D::new(&shv);
                    let mut child = child;
                    for (k, op) in progv.iter().enumerate() {
                        let _d = D::new(&shv);
                        if k == after {
                            // the canceller appears: from now on, at any moment
                            let shx = shv.clone();
                            std::thread::spawn(move || {
                                ctl.enroll_thread(2);
                                let _g = fin_guard(ctl, 2);
                                may::verif::pt("cm.cancel", 0, 0, 0);
                                let h = shx.handle.lock().unwrap().clone().unwrap();
                                unsafe { h.cancel() };
                                shx.cancel_done.store(tick(&shx), SeqCst);
                            });
                        }
                        may::verif::pt("cm.op", 0, 0, 0);
                        match op.as_str() {
                            "park" => {
                                let b = shv.blocker.lock().unwrap().clone().unwrap();
                                let _ = b.park(None);
                            }
                            "sleep" => may::coroutine::sleep(Duration::from_nanos(UNIT_NS)),
                            "lock" => {
                                let g = shv.m.lock().unwrap();
                                drop(g);
                            }
                            "rwlock" => {
                                let g = shv.rw.write().unwrap();
                                drop(g);
                            }
                            "sem" => shv.sem.wait(),
                            "recv" => {
                                let _ = rx.recv();
                            }
                            "mrecv" => {
                                let _ = mrx.recv();
                            }
                            "flag" => shv.flag.wait(),
                            "cv" => {
                                let mut g = shv.cvm.lock().unwrap();
                                while !*g {
                                    g = shv.cv.wait(g).unwrap();
                                }
                            }
                            "join" => {
                                if let Some(c) = child.take() {
                                    match c.join() {
                                        Ok(7) => {}
                                        other => shv.bad.lock().unwrap().push(("join_result".into(), format!("join of the child returned {:?}", other.map_err(|_| "Err")))),
                                    }
                                }
                            }
                            _ => {}
                        }
                        shv.progress.fetch_add(1, SeqCst);
                    }
                    shv.last_yield_start.store(tick(&shv), SeqCst);
                    may::coroutine::yield_now();
                })
            };
            while !started.load(SeqCst) {
                std::thread::yield_now();
            }
            for op in prog.iter() {
                may::verif::pt("cm.give", 0, 0, 0);
                match op.as_str() {
                    "park" => {
                        let b = sh.blocker.lock().unwrap().clone().unwrap();
                        b.unpark();
                    }
                    "lock" => drop(mg.take()),
                    "rwlock" => drop(rg.take()),
                    "sem" => sh.sem.post(),
                    "recv" => {
                        let _ = tx.send(1);
                    }
                    "mrecv" => {
                        let _ = mtx.send(1);
                    }
                    "flag" => sh.flag.fire(),
                    "cv" => {
                        *sh.cvm.lock().unwrap() = true;
                        sh.cv.notify_one();
                    }
                    "join" => sh.flag2.fire(),
                    _ => {}
                }
            }
            may::verif::pt("cm.join", 0, 0, 0);
            let r = h.join();
            let kind = match &r {
                Ok(()) => "ok".to_string(),
                Err(e) => match e.downcast_ref::<generator::Error>() {
                    Some(generator::Error::Cancel) => "cancel".to_string(),
                    _ => "panic".to_string(),
                },
            };
            *sh.join_result.lock().unwrap() = Some(kind);

            // the child must end too, whoever joins it
            sh.flag2.fire();
            // everything keeps working for everyone else
            match sh.m.try_lock() {
                Ok(_) => {}
                Err(std::sync::TryLockError::Poisoned(_)) => sh.bad.lock().unwrap().push(("poisoned".into(), "the mutex is poisoned after the cancellation".into())),
                Err(std::sync::TryLockError::WouldBlock) => sh.bad.lock().unwrap().push(("lock_leaked".into(), "the mutex is still held after the victim is gone".into())),
            }
            match sh.rw.try_write() {
                Ok(_) => {}
                Err(std::sync::TryLockError::Poisoned(_)) => sh.bad.lock().unwrap().push(("poisoned".into(), "the rwlock is poisoned after the cancellation".into())),
                Err(std::sync::TryLockError::WouldBlock) => sh.bad.lock().unwrap().push(("lock_leaked".into(), "the rwlock is still held after the victim is gone".into())),
            }
            match sh.cvm.try_lock() {
                Ok(_) => {}
                Err(std::sync::TryLockError::Poisoned(_)) => sh.bad.lock().unwrap().push(("poisoned".into(), "the condvar's mutex is poisoned after the cancellation".into())),
                Err(std::sync::TryLockError::WouldBlock) => sh.bad.lock().unwrap().push(("lock_leaked".into(), "the condvar's mutex is still held after the victim is gone".into())),
            }
        }));
    }
    actors.push(external_actor("v"));
    actors.push(external_thread_actor("x"));
    if with_child {
        actors.push(external_actor("c"));
    }
    let opts = ExecOpts {
        cats: vec!["cm", "mutex", "sem", "chan", "mpmc", "flag", "cv", "rw", "join", "sb", "blk"],
        vclock: true,
        offer_tick: true,
        ..Default::default()
    };
    let sh4 = sh.clone();
    Instance {
        opts,
        actors,
        custom: Box::new(|_, _| {}),
        unstick: Box::new(|| {}),
        check: Box::new(move |out: &Outcome| {
            let mut v = vec![];
            for (k, d) in sh4.bad.lock().unwrap().iter() {
                v.push(Violation { kind: k.clone(), detail: d.clone() });
            }
            match &out.end {
                End::Finished => {
                    let jr = sh4.join_result.lock().unwrap().clone();
                    let progress = sh4.progress.load(SeqCst);
                    crate::run::bump(&format!("join_{}_after_{}_calls", jr.as_deref().unwrap_or("none"), progress));
                    match jr.as_deref() {
                        Some("ok") => {
                            if progress != nprog {
                                v.push(Violation { kind: "join_result".into(), detail: format!("join() = Ok but the victim completed {progress} of {nprog} calls") });
                            }
                            let (c, y) = (sh4.cancel_done.load(SeqCst), sh4.last_yield_start.load(SeqCst));
                            if c != 0 && y != 0 && c < y {
                                v.push(Violation { kind: "cancel_ignored".into(), detail: "cancel() had returned before the victim's final yield_now started, yet the coroutine ran to its end and join() = Ok".into() });
                            }
                        }
                        Some("cancel") => {
                            if sh4.cancel_done.load(SeqCst) == 0 {
                                v.push(Violation { kind: "ghost_cancel".into(), detail: "join() = Err(Cancel) although cancel() was never called".into() });
                            }
                        }
                        other => v.push(Violation { kind: "join_result".into(), detail: format!("join() of the cancelled coroutine returned {other:?}") }),
                    }
                    // drops happen before the join is triggered
                    let created = sh4.created.load(SeqCst);
                    let mut d = sh4.drops.lock().unwrap().clone();
                    let n = d.len();
                    d.sort();
                    d.dedup();
                    if d.len() != n {
                        v.push(Violation { kind: "double_drop".into(), detail: "a stack-owned value was dropped twice".into() });
                    }
                    if d.len() != created {
                        v.push(Violation { kind: "leak".into(), detail: format!("{} of {created} stack-owned values of the victim were dropped", d.len()) });
                    }
                    for (i, p) in out.panicked.iter().enumerate() {
                        if *p && out.names[i] != "v" {
                            v.push(Violation { kind: "panic".into(), detail: format!("{} panicked", out.names[i]) });
                        }
                    }
                }
                End::Stuck(who) => v.push(Violation { kind: "hang".into(), detail: format!("logical deadlock, unfinished: {who:?}") }),
                End::Budget => v.push(Violation { kind: "livelock".into(), detail: "step budget exhausted".into() }),
                End::Tool(_) | End::Aborted => {}
            }
            v
        }),
    }
}
