//! C10 (second half): may::sync::SyncFlag under the baton; mirrors spec/l2/SyncFlag.tla.
use crate::ctrl::Ctrl;
use crate::driver::*;
use crate::run::{Instance, Violation};
use crate::scen::sem::UNIT_NS;
use may::sync::SyncFlag;
use serde_json::Value;
use std::sync::atomic::{AtomicBool, AtomicUsize, Ordering::SeqCst};
use std::sync::{Arc, Mutex as StdMutex};
use std::time::Duration;

struct Shared {
    flag: SyncFlag,
    fired_done: AtomicBool, // a fire() call has returned
    fires: AtomicUsize,
    bad: StdMutex<Vec<(String, String)>>,
}

pub fn build(ctl: &'static Ctrl, params: &Value) -> Instance {
    let sh = Arc::new(Shared { flag: SyncFlag::new(), fired_done: AtomicBool::new(false), fires: AtomicUsize::new(0), bad: StdMutex::new(vec![]) });
    let victims: Vec<String> = params["victims"].as_array().map(|a| a.iter().map(|v| v.as_str().unwrap().to_string()).collect()).unwrap_or_default();
    let mut actors = vec![];
    for a in params["actors"].as_array().expect("actors") {
        let name = a["name"].as_str().unwrap().to_string();
        let is_co = a["co"].as_bool().unwrap_or(false);
        let dur = a["dur"].as_u64().unwrap_or(1);
        let prog: Vec<String> = a["prog"].as_array().unwrap().iter().map(|v| v.as_str().unwrap().to_string()).collect();
        let sh2 = sh.clone();
        let nm = name.clone();
        actors.push(actor(&name, is_co, move || {
            for op in prog {
                match op.as_str() {
                    "wait" => {
                        sh2.flag.wait();
                        if !sh2.flag.is_fired() {
                            sh2.bad.lock().unwrap().push(("latch".into(), format!("{nm}: wait() returned but is_fired() is false")));
                        }
                    }
                    "twait" => {
                        let fired_before = sh2.fired_done.load(SeqCst);
                        let t0 = ctl.vnow();
                        let d = Duration::from_nanos(dur * UNIT_NS);
                        if !sh2.flag.wait_timeout(d) {
                            if fired_before {
                                sh2.bad.lock().unwrap().push(("latch".into(), format!("{nm}: wait_timeout returned false although fire() had returned before the call")));
                            }
                            if let (Some(t0), Some(t1)) = (t0, ctl.vnow()) {
                                if t1 - t0 < d.as_nanos() as u64 {
                                    sh2.bad.lock().unwrap().push(("early_timeout".into(), format!("{nm}: wait_timeout({d:?}) reported a timeout after {} ns", t1 - t0)));
                                }
                            }
                        }
                    }
                    "fire" => {
                        sh2.flag.fire();
                        sh2.fires.fetch_add(1, SeqCst);
                        sh2.fired_done.store(true, SeqCst);
                    }
                    _ => {}
                }
            }
        }));
    }
    let opts = ExecOpts { cats: vec!["flag"], victims: victims.clone(), vclock: true, offer_tick: true, ..Default::default() };
    let sh3 = sh.clone();
    let sh4 = sh.clone();
    Instance {
        opts,
        actors,
        custom: Box::new(|_, _| {}),
        unstick: Box::new(move || sh4.flag.fire()),
        check: Box::new(move |out: &Outcome| {
            let mut v = vec![];
            for (k, d) in sh3.bad.lock().unwrap().iter() {
                v.push(Violation { kind: k.clone(), detail: d.clone() });
            }
            let fired = sh3.fired_done.load(SeqCst);
            if fired && !sh3.flag.is_fired() {
                v.push(Violation { kind: "latch".into(), detail: "fire() has returned but is_fired() reads false".into() });
            }
            match &out.end {
                End::Finished => {
                    if fired && !sh3.flag.wait_timeout(Duration::from_millis(1)) {
                        v.push(Violation { kind: "latch".into(), detail: "a wait after fire() returned false".into() });
                    }
                    for (i, p) in out.panicked.iter().enumerate() {
                        if *p && !victims.contains(&out.names[i]) {
                            v.push(Violation { kind: "panic".into(), detail: format!("actor {} panicked", out.names[i]) });
                        }
                    }
                }
                End::Stuck(who) => {
                    if fired {
                        v.push(Violation { kind: "stranded_waiter".into(), detail: format!("fire() has returned but {who:?} are still blocked") });
                    }
                }
                End::Budget => v.push(Violation { kind: "livelock".into(), detail: "step budget exhausted".into() }),
                End::Tool(_) | End::Aborted => {}
            }
            v
        }),
    }
}
