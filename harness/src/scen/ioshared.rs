//! C18: "the timeout armed for one operation never makes a later operation on the same socket fail or return
//! early ... cancelling a coroutine blocked in socket I/O ... neither event disturbs other coroutines' I/O", for a
//! socket that the cancelled coroutine does NOT own (shared through an Arc / borrowed inside a scope): a datagram
//! socket, whose recv takes &self.
//! Actors: `a` blocks in recv with a short read time-out, `x` cancels it, `b` then blocks in recv on the same socket
//! with a long time-out; nobody ever sends.  Virtual clock.
//! Oracle: a ends with Cancel; b's recv reports TimedOut no earlier than b's own time-out.
use crate::ctrl::Ctrl;
use crate::driver::*;
use crate::run::{Instance, Violation};
use crate::scen::sem::UNIT_NS;
use serde_json::Value;
use std::os::fd::AsRawFd;
use std::sync::atomic::{AtomicBool, Ordering::SeqCst};
use std::sync::{Arc, Mutex as StdMutex};
use std::time::Duration;

struct Shared {
    a_handle: StdMutex<Option<may::coroutine::Coroutine>>,
    a_blocking: AtomicBool,
    cancel_issued: AtomicBool,
    b_result: StdMutex<Option<(String, u64)>>,
    bad: StdMutex<Vec<(String, String)>>,
}

pub fn build(ctl: &'static Ctrl, params: &Value) -> Instance {
    let workers = params["workers"].as_u64().unwrap_or(8) as usize;
    let short = params["short"].as_u64().unwrap_or(5);
    let long = params["long"].as_u64().unwrap_or(50);
    let (sock, peer) = may::os::unix::net::UnixDatagram::pair().expect("pair");
    let sel_worker = sock.as_raw_fd() as usize % workers;
    let sock = Arc::new(sock);
    let sh = Arc::new(Shared { a_handle: StdMutex::new(None), a_blocking: AtomicBool::new(false), cancel_issued: AtomicBool::new(false), b_result: StdMutex::new(None), bad: StdMutex::new(vec![]) });
    let mut actors = vec![];
    let (s1, sh1) = (sock.clone(), sh.clone());
    actors.push(actor("a", true, move || {
        *sh1.a_handle.lock().unwrap() = Some(may::coroutine::current());
        s1.set_read_timeout(Some(Duration::from_nanos(short * UNIT_NS))).unwrap();
        may::verif::pt("ix.read", 0, 0, 0);
        sh1.a_blocking.store(true, SeqCst);
        let mut buf = [0u8; 8];
        let r = s1.recv(&mut buf);
        // only reached when the cancel came too early to interrupt the recv (then it timed out) - fine either way
        let _ = r;
    }));
    let sh2 = sh.clone();
    actors.push(actor("x", false, move || {
        // (held until a has passed ix.read: by then a is suspended in its recv, the time-out is armed)
        may::verif::pt("ix.cancel", 0, 0, 0);
        let h = sh2.a_handle.lock().unwrap().clone();
        if let (Some(h), true) = (h, sh2.a_blocking.load(SeqCst)) {
            sh2.cancel_issued.store(true, SeqCst);
            unsafe { h.cancel() };
        }
    }));
    let (s3, sh3) = (sock.clone(), sh.clone());
    actors.push(actor("b", true, move || {
        // (held until a has ended)
        may::verif::pt("ix.read2", 0, 0, 0);
        s3.set_read_timeout(Some(Duration::from_nanos(long * UNIT_NS))).unwrap();
        let t0 = ctl.vnow().unwrap_or(0);
        let mut buf = [0u8; 8];
        let r = s3.recv(&mut buf);
        let t1 = ctl.vnow().unwrap_or(0);
        *sh3.b_result.lock().unwrap() = Some((format!("{:?}", r.as_ref().map_err(|e| e.kind())), t1 - t0));
        if let Err(e) = &r {
            if e.kind() == std::io::ErrorKind::TimedOut && t1 - t0 < long * UNIT_NS {
                sh3.bad.lock().unwrap().push(("early_timeout".into(), format!("recv with a time-out of {} ns on a shared socket reported TimedOut after {} ns: the time-out armed by the cancelled coroutine's recv ({} ns) was still in the timer list", long * UNIT_NS, t1 - t0, short * UNIT_NS)));
            }
        }
    }));
    let opts = ExecOpts {
        cats: vec!["ix"],
        vclock: true,
        offer_tick: false,
        auto_tick: true,
        tick_single: true,
        kick_workers: vec![sel_worker],
        holds: vec![
            Hold { actor: "x".into(), site: "ix.cancel".into(), nth: 1, until_actor: "a".into(), until_site: "ix.read".into(), until_n: 1 },
            Hold { actor: "b".into(), site: "ix.read2".into(), nth: 1, until_actor: "a".into(), until_site: "never".into(), until_n: 1 },
        ],
        ..Default::default()
    };
    let sh4 = sh.clone();
    Instance {
        opts,
        actors,
        custom: Box::new(|_, _| {}),
        unstick: Box::new(move || {
            let _ = peer.as_raw_fd();
        }),
        check: Box::new(move |out: &Outcome| {
            let mut v = vec![];
            for (k, d) in sh4.bad.lock().unwrap().iter() {
                v.push(Violation { kind: k.clone(), detail: d.clone() });
            }
            match &out.end {
                End::Finished => {
                    if sh4.cancel_issued.load(SeqCst) && !out.panicked.first().copied().unwrap_or(false) {
                        crate::run::bump("cancel_after_timeout");
                    }
                    match sh4.b_result.lock().unwrap().clone() {
                        Some((r, _)) if r.contains("TimedOut") => {}
                        other => v.push(Violation { kind: "wrong_result".into(), detail: format!("the second recv (nobody sends) ended with {other:?}, expected TimedOut") }),
                    }
                }
                End::Stuck(who) => v.push(Violation { kind: "hang".into(), detail: format!("logical deadlock, unfinished: {who:?}") }),
                End::Budget => v.push(Violation { kind: "livelock".into(), detail: "step budget exhausted".into() }),
                End::Tool(_) | End::Aborted => {}
            }
            v
        }),
    }
}
