//! C06 / C07: may::sync::{mpsc, spsc, mpmc} channels under the baton.
//! Mirrors spec/l2/{MpscChan,SpscChan,MpmcChan}.tla: sender actors run programs over
//! "send" | "clone" | "drop", receiver actors over "recv" | "try" | "trecv" | "rdrop".
//! Endpoints that an actor does not drop itself stay alive until the oracle has run.
use crate::ctrl::Ctrl;
use crate::driver::*;
use crate::run::{Instance, Violation};
use crate::scen::sem::UNIT_NS;
use may::sync::{mpmc, mpsc, spsc};
use serde_json::Value;
use std::sync::atomic::{AtomicUsize, Ordering::SeqCst};
use std::sync::mpsc::{RecvTimeoutError, TryRecvError};
use std::sync::{Arc, Mutex as StdMutex};
use std::time::Duration;

pub struct Tracker {
    pub drops: StdMutex<std::collections::HashMap<u64, usize>>,
}
pub struct Val(pub u64, pub Arc<Tracker>);
impl Drop for Val {
    fn drop(&mut self) {
        *self.1.drops.lock().unwrap().entry(self.0).or_insert(0) += 1;
    }
}

enum Tx {
    Mpsc(mpsc::Sender<Val>),
    Spsc(spsc::Sender<Val>),
    Mpmc(mpmc::Sender<Val>),
}
enum Rx {
    Mpsc(mpsc::Receiver<Val>),
    Spsc(spsc::Receiver<Val>),
    Mpmc(mpmc::Receiver<Val>),
}
impl Tx {
    fn send(&self, v: Val) -> Result<(), Val> {
        match self {
            Tx::Mpsc(t) => t.send(v).map_err(|e| e.0),
            Tx::Spsc(t) => t.send(v).map_err(|e| e.0),
            Tx::Mpmc(t) => t.send(v).map_err(|e| e.0),
        }
    }
    fn dup(&self) -> Option<Tx> {
        match self {
            Tx::Mpsc(t) => Some(Tx::Mpsc(t.clone())),
            Tx::Spsc(_) => None,
            Tx::Mpmc(t) => Some(Tx::Mpmc(t.clone())),
        }
    }
}
#[derive(Debug, PartialEq)]
enum R {
    Ok(u64),
    Empty,
    Disc,
    Timeout,
}
impl Rx {
    fn recv(&self) -> R {
        let r = match self {
            Rx::Mpsc(r) => r.recv().map_err(|_| ()),
            Rx::Spsc(r) => r.recv().map_err(|_| ()),
            Rx::Mpmc(r) => r.recv().map_err(|_| ()),
        };
        match r {
            Ok(v) => R::Ok(v.0),
            Err(()) => R::Disc,
        }
    }
    fn try_recv(&self) -> R {
        let r = match self {
            Rx::Mpsc(r) => r.try_recv(),
            Rx::Spsc(r) => r.try_recv(),
            Rx::Mpmc(r) => r.try_recv(),
        };
        match r {
            Ok(v) => R::Ok(v.0),
            Err(TryRecvError::Empty) => R::Empty,
            Err(TryRecvError::Disconnected) => R::Disc,
        }
    }
    fn recv_timeout(&self, d: Duration) -> R {
        let r = match self {
            Rx::Mpsc(r) => r.recv_timeout(d),
            Rx::Spsc(_) => unreachable!("spsc has no recv_timeout"),
            Rx::Mpmc(r) => r.recv_timeout(d),
        };
        match r {
            Ok(v) => R::Ok(v.0),
            Err(RecvTimeoutError::Timeout) => R::Timeout,
            Err(RecvTimeoutError::Disconnected) => R::Disc,
        }
    }
}

struct Shared {
    tracker: Arc<Tracker>,
    sent_ok: AtomicUsize,
    sent_ok_ids: StdMutex<Vec<u64>>,
    received: StdMutex<Vec<(usize, u64)>>, // (receiver actor index, id) in order of receipt
    live_tx: AtomicUsize,
    live_rx: AtomicUsize,
    disc_seen: AtomicUsize,
    rx_dropped_early: AtomicUsize,
    bad: StdMutex<Vec<(String, String)>>,
    // endpoints parked here by actors that finished without dropping them
    keep_tx: StdMutex<Vec<Tx>>,
    keep_rx: StdMutex<Vec<Rx>>,
}

struct TxBag {
    v: Vec<Tx>,
    sh: Arc<Shared>,
}
impl Drop for TxBag {
    fn drop(&mut self) {
        self.sh.keep_tx.lock().unwrap().extend(self.v.drain(..));
    }
}
struct RxBag {
    v: Option<Rx>,
    sh: Arc<Shared>,
}
impl Drop for RxBag {
    fn drop(&mut self) {
        if let Some(r) = self.v.take() {
            self.sh.keep_rx.lock().unwrap().push(r);
        }
    }
}

pub fn build(ctl: &'static Ctrl, params: &Value) -> Instance {
    let kind = params["kind"].as_str().unwrap_or("mpsc").to_string();
    let tracker = Arc::new(Tracker { drops: StdMutex::new(Default::default()) });
    let sh = Arc::new(Shared {
        tracker: tracker.clone(),
        sent_ok: AtomicUsize::new(0),
        sent_ok_ids: StdMutex::new(vec![]),
        received: StdMutex::new(vec![]),
        live_tx: AtomicUsize::new(0),
        live_rx: AtomicUsize::new(0),
        disc_seen: AtomicUsize::new(0),
        rx_dropped_early: AtomicUsize::new(0),
        bad: StdMutex::new(vec![]),
        keep_tx: StdMutex::new(vec![]),
        keep_rx: StdMutex::new(vec![]),
    });
    let (tx0, rx0) = match kind.as_str() {
        "mpsc" => {
            let (t, r) = mpsc::channel();
            (Tx::Mpsc(t), Rx::Mpsc(r))
        }
        "spsc" => {
            let (t, r) = spsc::channel();
            (Tx::Spsc(t), Rx::Spsc(r))
        }
        _ => {
            let (t, r) = mpmc::channel();
            (Tx::Mpmc(t), Rx::Mpmc(r))
        }
    };
    let victims: Vec<String> = params["victims"].as_array().map(|a| a.iter().map(|v| v.as_str().unwrap().to_string()).collect()).unwrap_or_default();
    let mut actors = vec![];
    let mut tx0 = Some(tx0);
    let mut rx0 = Some(rx0);
    let alist = params["actors"].as_array().expect("actors").clone();
    let nsenders = alist.iter().filter(|a| a["role"].as_str() == Some("tx")).count();
    let nreceivers = alist.len() - nsenders;
    sh.live_tx.store(nsenders, SeqCst);
    sh.live_rx.store(nreceivers, SeqCst);
    let mut s_seen = 0;
    let mut r_seen = 0;
    let mut blocking_rx: Vec<String> = vec![];
    for (idx, a) in alist.iter().enumerate() {
        let name = a["name"].as_str().unwrap().to_string();
        let is_co = a["co"].as_bool().unwrap_or(false);
        let dur = a["dur"].as_u64().unwrap_or(1);
        let prog: Vec<String> = a["prog"].as_array().unwrap().iter().map(|v| v.as_str().unwrap().to_string()).collect();
        let sh2 = sh.clone();
        let nm = name.clone();
        if a["role"].as_str() == Some("tx") {
            s_seen += 1;
            let mine = if s_seen == nsenders { tx0.take().unwrap() } else { tx0.as_ref().unwrap().dup().expect("several senders on spsc") };
            let tr = tracker.clone();
            actors.push(actor(&name, is_co, move || {
                let mut bag = TxBag { v: vec![mine], sh: sh2.clone() };
                let mut k = 0u64;
                for op in prog {
                    match op.as_str() {
                        "send" => {
                            k += 1;
                            let id = ((idx as u64) << 8) | k;
                            match bag.v[0].send(Val(id, tr.clone())) {
                                Ok(()) => {
                                    sh2.sent_ok_ids.lock().unwrap().push(id);
                                    sh2.sent_ok.fetch_add(1, SeqCst);
                                }
                                Err(v) => {
                                    if sh2.live_rx.load(SeqCst) > 0 {
                                        sh2.bad.lock().unwrap().push(("send_failed".into(), format!("{nm}: send failed although a receiver is alive")));
                                    }
                                    std::mem::forget(v); // handed back to the caller: not lost, not dropped by the channel
                                }
                            }
                        }
                        "clone" => {
                            sh2.live_tx.fetch_add(1, SeqCst);
                            let c = bag.v[0].dup().unwrap();
                            bag.v.push(c);
                        }
                        "drop" => {
                            // counted as gone when the drop starts: the decrement of the handle count
                            // is visible to the receiver before drop() returns
                            let t = bag.v.pop().unwrap();
                            sh2.live_tx.fetch_sub(1, SeqCst);
                            drop(t);
                        }
                        _ => {}
                    }
                }
            }));
        } else {
            r_seen += 1;
            let mine = if r_seen == nreceivers {
                rx0.take().unwrap()
            } else {
                match rx0.as_ref().unwrap() {
                    Rx::Mpmc(r) => Rx::Mpmc(r.clone()),
                    _ => panic!("several receivers need mpmc"),
                }
            };
            if prog.iter().any(|p| p == "recv") {
                blocking_rx.push(name.clone());
            }
            let single_rx = nreceivers == 1;
            actors.push(actor(&name, is_co, move || {
                let mut bag = RxBag { v: Some(mine), sh: sh2.clone() };
                let mut last_from: std::collections::HashMap<u64, u64> = Default::default();
                for op in prog {
                    let r = match op.as_str() {
                        "recv" => bag.v.as_ref().unwrap().recv(),
                        "try" => bag.v.as_ref().unwrap().try_recv(),
                        "trecv" => {
                            let t0 = ctl.vnow();
                            let d = Duration::from_nanos(dur * UNIT_NS);
                            let r = bag.v.as_ref().unwrap().recv_timeout(d);
                            if r == R::Timeout {
                                if let (Some(t0), Some(t1)) = (t0, ctl.vnow()) {
                                    if t1 - t0 < d.as_nanos() as u64 {
                                        sh2.bad.lock().unwrap().push(("early_timeout".into(), format!("{nm}: recv_timeout({d:?}) timed out after {} ns", t1 - t0)));
                                    }
                                }
                            }
                            r
                        }
                        "rdrop" => {
                            sh2.live_rx.fetch_sub(1, SeqCst);
                            sh2.rx_dropped_early.fetch_add(1, SeqCst);
                            drop(bag.v.take());
                            continue;
                        }
                        _ => continue,
                    };
                    match r {
                        R::Ok(id) => {
                            sh2.received.lock().unwrap().push((idx, id));
                            let (s, k) = (id >> 8, id & 0xff);
                            if let Some(prev) = last_from.insert(s, k) {
                                if prev >= k {
                                    sh2.bad.lock().unwrap().push(("order".into(), format!("{nm}: received message {k} of sender {s} after message {prev}")));
                                }
                            }
                        }
                        R::Disc => {
                            // every sender is gone, so every send has completed: all of them must have been received
                            let got = sh2.received.lock().unwrap().len();
                            let sent = sh2.sent_ok.load(SeqCst);
                            if sh2.live_tx.load(SeqCst) > 0 {
                                sh2.bad.lock().unwrap().push(("false_disconnect".into(), format!("{nm}: Disconnected while {} sender handle(s) are alive", sh2.live_tx.load(SeqCst))));
                            } else if got < sent && single_rx {
                                sh2.bad.lock().unwrap().push(("disconnect_before_drain".into(), format!("{nm}: Disconnected after {got} of {sent} successfully sent values were received")));
                            }
                            // with several receivers a value may be claimed by another receiver that is
                            // between its permit and its pop: judged at the end of the execution
                            sh2.disc_seen.fetch_add(1, SeqCst);
                        }
                        R::Empty | R::Timeout => {}
                    }
                }
            }));
        }
    }
    let cat: &'static str = match kind.as_str() {
        "mpsc" => "chan",
        "spsc" => "spsc",
        _ => "mpmc",
    };
    let mut cats = vec![cat];
    let mut kernel_cats = vec![];
    if kind == "spsc" {
        cats.push("spscsub");
        kernel_cats.push("spscsub");
    }
    if kind == "mpmc" && params["deep"].as_bool().unwrap_or(false) {
        // no spec replay in this mode: the Semphore underneath is interleaved literally as well
        cats.push("sem");
    }
    let opts = ExecOpts { cats, kernel_cats, victims: victims.clone(), vclock: true, offer_tick: true, ..Default::default() };
    let sh3 = sh.clone();
    let sh4 = sh.clone();
    Instance {
        opts,
        actors,
        custom: Box::new(|_, _| {}),
        unstick: Box::new(move || {
            // release blocked receivers: drop every sender that is still alive
            sh4.keep_tx.lock().unwrap().clear();
        }),
        check: Box::new(move |out: &Outcome| {
            let mut v = vec![];
            for (k, d) in sh3.bad.lock().unwrap().iter() {
                v.push(Violation { kind: k.clone(), detail: d.clone() });
            }
            let rec = sh3.received.lock().unwrap().clone();
            let sent = sh3.sent_ok_ids.lock().unwrap().clone();
            let mut seen = std::collections::HashSet::new();
            for (_, id) in &rec {
                if !seen.insert(*id) {
                    v.push(Violation { kind: "duplicate".into(), detail: format!("value {id:#x} was received twice") });
                }
                if !sent.contains(id) {
                    // a value can be received before its send() has returned; it must at least have been created
                    if (id & 0xff) == 0 || (id >> 8) as usize >= out.names.len() {
                        v.push(Violation { kind: "invented".into(), detail: format!("value {id:#x} was never sent") });
                    }
                }
            }
            match &out.end {
                End::Finished => {
                    // Disconnected promises that everything sent has been drained: by the end of the
                    // execution every successfully sent value must then have reached a receiver
                    // (unless a receiver endpoint was dropped and took queued values with it)
                    if sh3.disc_seen.load(SeqCst) > 0 && sh3.rx_dropped_early.load(SeqCst) == 0 && rec.len() < sent.len() {
                        v.push(Violation { kind: "disconnect_before_drain".into(), detail: format!("a receiver was told Disconnected but only {} of {} successfully sent values were ever received", rec.len(), sent.len()) });
                    }
                    for (i, p) in out.panicked.iter().enumerate() {
                        if *p && !victims.contains(&out.names[i]) {
                            v.push(Violation { kind: "panic".into(), detail: format!("actor {} panicked", out.names[i]) });
                        }
                    }
                }
                End::Stuck(who) => {
                    let live = sh3.live_tx.load(SeqCst);
                    let legit = live > 0 && who.iter().all(|w| blocking_rx.contains(w)) && rec.len() >= sent.len();
                    if !legit {
                        v.push(Violation { kind: "receiver_hang".into(), detail: format!("logical deadlock: {who:?} blocked, {live} sender handle(s) alive, {} of {} sent values received", rec.len(), sent.len()) });
                    }
                }
                End::Budget => v.push(Violation { kind: "livelock".into(), detail: "step budget exhausted".into() }),
                End::Tool(_) | End::Aborted => {}
            }
            // nothing is lost: whatever was sent successfully and not yet received must still be
            // receivable through an endpoint that is alive
            if matches!(out.end, End::Finished) && sh3.rx_dropped_early.load(SeqCst) == 0 {
                let mut extra = 0;
                if let Some(r) = sh3.keep_rx.lock().unwrap().first() {
                    for _ in 0..64 {
                        match r.try_recv() {
                            R::Ok(_) => extra += 1,
                            _ => break,
                        }
                    }
                    if rec.len() + extra < sent.len() {
                        v.push(Violation { kind: "value_lost".into(), detail: format!("{} values were sent successfully, {} were received and only {extra} more can still be received", sent.len(), rec.len()) });
                    }
                }
            }
            // tear the channel down and check exactly-once drop of everything that was created
            if matches!(out.end, End::Finished) {
                sh3.keep_tx.lock().unwrap().clear();
                sh3.keep_rx.lock().unwrap().clear();
                let drops = sh3.tracker.drops.lock().unwrap();
                for id in &sent {
                    let n = drops.get(id).copied().unwrap_or(0);
                    if n != 1 {
                        v.push(Violation { kind: "drop_count".into(), detail: format!("value {id:#x} (send returned Ok) was dropped {n} times after the channel was torn down") });
                    }
                }
            }
            v
        }),
    }
}
