//! C01 (global run queue hand-off): threads spawn coroutines pinned to one worker (schedule_global: push to
//! the worker's global queue, then write its eventfd) while that worker's event loop - a passive actor - is
//! stopped between the steps of its wake-up handling (read the eventfd, collect the global queue).
//! Oracle: every spawned coroutine runs and its join() returns (a coroutine left in the global queue with its
//! wake-up signal consumed is a hang).
use crate::ctrl::Ctrl;
use crate::driver::*;
use crate::run::{Instance, Violation};
use serde_json::Value;
use std::sync::atomic::{AtomicUsize, Ordering::SeqCst};
use std::sync::Arc;

pub fn build(_ctl: &'static Ctrl, params: &Value) -> Instance {
    let spawners = params["spawners"].as_u64().unwrap_or(2) as usize;
    let each = params["each"].as_u64().unwrap_or(1) as usize;
    let worker = params["worker"].as_u64().unwrap_or(2) as usize;
    let ran = Arc::new(AtomicUsize::new(0));
    let mut actors = vec![];
    for k in 0..spawners {
        let ran = ran.clone();
        actors.push(actor(&format!("t{}", k + 1), false, move || {
            for _ in 0..each {
                may::verif::pt("gq.spawn", 0, 0, 0);
                let r = ran.clone();
                let h = unsafe {
                    may::coroutine::Builder::new().id(worker).spawn(move || {
                        r.fetch_add(1, SeqCst);
                    })
                }
                .expect("spawn");
                may::verif::pt("gq.join", 0, 0, 0);
                let _ = h.join();
            }
        }));
    }
    actors.push(passive_actor("wk"));
    let opts = ExecOpts {
        cats: vec!["gq", "sched", "selw"],
        passive_cats: vec![("selw", "wk".to_string())],
        ..Default::default()
    };
    let total = spawners * each;
    Instance {
        opts,
        actors,
        custom: Box::new(|_, _| {}),
        unstick: Box::new(|| {}),
        check: Box::new(move |out: &Outcome| {
            let mut v = vec![];
            match &out.end {
                End::Finished => {
                    if ran.load(SeqCst) != total {
                        v.push(Violation { kind: "run_count".into(), detail: format!("{} of {total} spawned coroutines ran", ran.load(SeqCst)) });
                    }
                }
                End::Stuck(who) => v.push(Violation { kind: "hang".into(), detail: format!("a spawned coroutine is never run: {} of {total} ran, join() of {who:?} does not return (left in the worker's global queue with its wake-up consumed)", ran.load(SeqCst)) }),
                End::Budget => v.push(Violation { kind: "livelock".into(), detail: "step budget exhausted".into() }),
                End::Tool(_) | End::Aborted => {}
            }
            v
        }),
    }
}
