//! C11: may::sync::Condvar with the standard predicate client; mirrors spec/l2/Condvar.tla.
//! Also drives Barrier and WaitGroup (explore-only units: they are clients of the same Condvar).
use crate::ctrl::Ctrl;
use crate::driver::*;
use crate::run::{Instance, Violation};
use crate::scen::sem::UNIT_NS;
use may::sync::{Barrier, Condvar, Mutex};
use serde_json::Value;
use std::sync::atomic::{AtomicUsize, Ordering::SeqCst};
use std::sync::{Arc, Mutex as StdMutex};
use std::time::Duration;

struct Shared {
    m: Mutex<i64>, // `ready`
    cv: Condvar,
    occ: AtomicUsize,
    served: AtomicUsize,
    notifies: AtomicUsize,
    bad: StdMutex<Vec<(String, String)>>,
    barrier: Barrier,
    leaders: StdMutex<Vec<(usize, String)>>, // (generation, who)
    arrived: AtomicUsize,
    released: AtomicUsize,
}

fn enter(sh: &Shared, who: &str) {
    let prev = sh.occ.fetch_add(1, SeqCst);
    if prev != 0 {
        sh.bad.lock().unwrap().push(("mutex_not_held".into(), format!("{who} is inside the critical section (wait returned?) while {prev} other holder(s) are inside")));
    }
}
fn leave(sh: &Shared) {
    sh.occ.fetch_sub(1, SeqCst);
}

pub fn build(ctl: &'static Ctrl, params: &Value) -> Instance {
    let nbar = params["barrier"].as_u64().unwrap_or(2) as usize;
    let sh = Arc::new(Shared {
        m: Mutex::new(0),
        cv: Condvar::new(),
        occ: AtomicUsize::new(0),
        served: AtomicUsize::new(0),
        notifies: AtomicUsize::new(0),
        bad: StdMutex::new(vec![]),
        barrier: Barrier::new(nbar),
        leaders: StdMutex::new(vec![]),
        arrived: AtomicUsize::new(0),
        released: AtomicUsize::new(0),
    });
    let victims: Vec<String> = params["victims"].as_array().map(|a| a.iter().map(|v| v.as_str().unwrap().to_string()).collect()).unwrap_or_default();
    let mut actors = vec![];
    let mut untimed: Vec<String> = vec![];
    let mut total_notifies = 0usize;
    let mut total_waits = 0usize;
    for a in params["actors"].as_array().expect("actors") {
        let name = a["name"].as_str().unwrap().to_string();
        let is_co = a["co"].as_bool().unwrap_or(false);
        let dur = a["dur"].as_u64().unwrap_or(1);
        let prog: Vec<String> = a["prog"].as_array().unwrap().iter().map(|v| v.as_str().unwrap().to_string()).collect();
        if prog.iter().any(|p| p == "wait" || p == "barrier") {
            untimed.push(name.clone());
        }
        total_notifies += prog.iter().filter(|p| p.starts_with("notify")).count();
        total_waits += prog.iter().filter(|p| *p == "wait").count();
        let sh2 = sh.clone();
        let nm = name.clone();
        actors.push(actor(&name, is_co, move || {
            for op in prog {
                match op.as_str() {
                    "wait" | "twait" => {
                        may::verif::pt("cvc.lock", 0, 0, 0);
                        let mut g = sh2.m.lock().unwrap();
                        enter(&sh2, &nm);
                        let mut gave_up = false;
                        loop {
                            may::verif::pt("cvc.crit", 0, 0, 0);
                            if *g > 0 {
                                *g -= 1;
                                sh2.served.fetch_add(1, SeqCst);
                                break;
                            }
                            if gave_up {
                                break;
                            }
                            leave(&sh2);
                            if op == "wait" {
                                g = sh2.cv.wait(g).unwrap();
                            } else {
                                let t0 = ctl.vnow();
                                let d = Duration::from_nanos(dur * UNIT_NS);
                                let (g2, r) = sh2.cv.wait_timeout(g, d).unwrap();
                                g = g2;
                                if r.timed_out() {
                                    gave_up = true;
                                    if let (Some(t0), Some(t1)) = (t0, ctl.vnow()) {
                                        if t1 - t0 < d.as_nanos() as u64 {
                                            sh2.bad.lock().unwrap().push(("early_timeout".into(), format!("{nm}: wait_timeout({d:?}) timed out after {} ns", t1 - t0)));
                                        }
                                    }
                                }
                            }
                            enter(&sh2, &nm);
                        }
                        leave(&sh2);
                        drop(g);
                    }
                    "notify_one" | "notify_all" => {
                        may::verif::pt("cvc.lock", 0, 0, 0);
                        let mut g = sh2.m.lock().unwrap();
                        enter(&sh2, &nm);
                        may::verif::pt("cvc.crit", 0, 0, 0);
                        *g += 1;
                        leave(&sh2);
                        drop(g);
                        may::verif::pt("cvc.notify", 0, 0, 0);
                        sh2.notifies.fetch_add(1, SeqCst);
                        if op == "notify_one" {
                            sh2.cv.notify_one();
                        } else {
                            sh2.cv.notify_all();
                        }
                    }
                    "barrier" => {
                        may::verif::pt("cvc.barrier", 0, 0, 0);
                        let k = sh2.arrived.fetch_add(1, SeqCst);
                        let gen = k / nbar;
                        let r = sh2.barrier.wait();
                        // released: at least `nbar` parties of this generation must have arrived
                        let arrived = sh2.arrived.load(SeqCst);
                        if arrived < (gen + 1) * nbar {
                            sh2.bad.lock().unwrap().push(("barrier_early".into(), format!("{nm} left generation {gen} of Barrier({nbar}) after only {arrived} arrivals in total")));
                        }
                        sh2.released.fetch_add(1, SeqCst);
                        if r.is_leader() {
                            sh2.leaders.lock().unwrap().push((gen, nm.clone()));
                        }
                    }
                    _ => {}
                }
            }
        }));
    }
    let mut cats = vec!["cv", "cvc"];
    if params["deep"].as_bool().unwrap_or(false) {
        cats.push("mutex"); // literal user mutex underneath (no spec replay in this mode)
    }
    let opts = ExecOpts { cats, victims: victims.clone(), vclock: true, offer_tick: true, ..Default::default() };
    let sh3 = sh.clone();
    let sh4 = sh.clone();
    Instance {
        opts,
        actors,
        custom: Box::new(|_, _| {}),
        unstick: Box::new(move || {
            for _ in 0..4 {
                if let Ok(mut g) = sh4.m.try_lock() {
                    *g += 8;
                }
                sh4.cv.notify_all();
                std::thread::sleep(Duration::from_millis(2));
            }
        }),
        check: Box::new(move |out: &Outcome| {
            let mut v = vec![];
            for (k, d) in sh3.bad.lock().unwrap().iter() {
                v.push(Violation { kind: k.clone(), detail: d.clone() });
            }
            let served = sh3.served.load(SeqCst);
            let notifies = sh3.notifies.load(SeqCst);
            match &out.end {
                End::Finished => {
                    for (i, p) in out.panicked.iter().enumerate() {
                        if *p && !victims.contains(&out.names[i]) {
                            v.push(Violation { kind: "panic".into(), detail: format!("actor {} panicked", out.names[i]) });
                        }
                    }
                    // barrier: exactly one leader per complete generation
                    let arrived = sh3.arrived.load(SeqCst);
                    if arrived > 0 {
                        let gens = arrived / nbar;
                        let l = sh3.leaders.lock().unwrap();
                        for gidx in 0..gens {
                            let n = l.iter().filter(|(g2, _)| *g2 == gidx).count();
                            if n != 1 {
                                v.push(Violation { kind: "barrier_leader".into(), detail: format!("generation {gidx} of Barrier({nbar}) had {n} leaders") });
                            }
                        }
                    }
                    match sh3.m.try_lock() {
                        Ok(_) => {}
                        Err(_) => v.push(Violation { kind: "mutex_leaked".into(), detail: "everybody finished but the mutex is still held".into() }),
                    }
                }
                End::Stuck(who) => {
                    // legitimate only if every stuck actor is an untimed waiter with nothing to consume:
                    // all notifications were issued and consumed (or the barrier generation is incomplete)
                    let pending = notifies > served;
                    let all_notified = notifies >= total_notifies;
                    let bar_incomplete = sh3.arrived.load(SeqCst) % nbar != 0;
                    let legit = who.iter().all(|w| untimed.contains(w)) && ((all_notified && !pending && total_waits > 0) || bar_incomplete);
                    if !legit {
                        v.push(Violation { kind: "lost_notification".into(), detail: format!("logical deadlock: {who:?} blocked; {notifies} of {total_notifies} notifications issued, {served} waiters served") });
                    }
                }
                End::Budget => v.push(Violation { kind: "livelock".into(), detail: "step budget exhausted".into() }),
                End::Tool(_) | End::Aborted => {}
            }
            v
        }),
    }
}
