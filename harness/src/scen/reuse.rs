//! C15 / C13: what a fresh coroutine inherits from the previous occupant of its pooled stack, and
//! coroutine-local storage.  Pool capacity is 1, so the second coroutine reuses the stack of the
//! first.  The first occupant ends in one of several ways (normally, by a panic, cancelled while
//! parked / sleeping / inside a select arm exactly between check_cancel and the yield, after a
//! time-out); then an innocent coroutine runs on the same stack: its locals must be fresh, and its
//! first really blocking park, woken by a plain unpark, must return Ok.
use crate::ctrl::{ASt, Ctrl};
use crate::driver::*;
use crate::run::{Instance, Violation};
use may::sync::Blocker;
use serde_json::Value;
use std::cell::RefCell;
use std::sync::atomic::{AtomicUsize, Ordering::SeqCst};
use std::sync::{Arc, Mutex as StdMutex};
use std::time::Duration;

static INITS: AtomicUsize = AtomicUsize::new(0);
static DROPS: AtomicUsize = AtomicUsize::new(0);
struct Loc(u64);
impl Drop for Loc {
    fn drop(&mut self) {
        DROPS.fetch_add(1, SeqCst);
    }
}
may::coroutine_local!(static SLOT: RefCell<Loc> = {
    INITS.fetch_add(1, SeqCst);
    RefCell::new(Loc(0))
});

/// a blocking socket read of a fresh coroutine: the data arrives 2 ms later; the read must deliver it (a stale
/// error left in the pooled generator would be reported by the io path as the result of this read)
pub fn innocent_io_probe() -> String {
    use std::io::{Read, Write};
    let (mut a, b) = match may::os::unix::net::UnixStream::pair() {
        Ok(p) => p,
        Err(e) => return format!("pair failed: {e:?}"),
    };
    // (the harness is told that something it cannot see is under way)
    if let Some(c) = crate::ctrl::global() {
        c.ext_pending(1);
    }
    // the probe counts as pending until the read has returned - or, if it never does (the defect this probe is for),
    // until 300 ms after the write: a machine under load must not turn a slow wake-up into a "logical deadlock"
    let done = Arc::new(std::sync::atomic::AtomicBool::new(false));
    let done2 = done.clone();
    let w = std::thread::spawn(move || {
        std::thread::sleep(Duration::from_millis(2));
        let mut b = b;
        let _ = b.write_all(&[42]);
        let t0 = std::time::Instant::now();
        while !done2.load(SeqCst) && t0.elapsed() < Duration::from_millis(1000) {
            std::thread::sleep(Duration::from_millis(1));
        }
        if let Some(c) = crate::ctrl::global() {
            c.ext_pending(-1);
        }
    });
    let mut buf = [0u8; 4];
    let r = a.read(&mut buf);
    done.store(true, SeqCst);
    let _ = w.join();
    match r {
        Ok(1) if buf[0] == 42 => "Ok".to_string(),
        other => format!("{other:?}"),
    }
}

struct Shared {
    bad: StdMutex<Vec<(String, String)>>,
    blocker: StdMutex<Option<Arc<Blocker>>>,
    innocent_result: StdMutex<Option<String>>,
    occ_handle: StdMutex<Option<may::coroutine::Coroutine>>,
    stack1: AtomicUsize,
    stack2: AtomicUsize,
}


fn use_local(sh: &Shared, id: u64, who: &str) {
    let probe = 0u8;
    if id == 11 { &sh.stack1 } else { &sh.stack2 }.store(&probe as *const u8 as usize, SeqCst);
    SLOT.with(|s| {
        let v = s.borrow().0;
        if v != 0 {
            sh.bad.lock().unwrap().push(("local_inherited".into(), format!("{who}: coroutine-local value {v} of another coroutine is visible on first access")));
        }
        s.borrow_mut().0 = id;
    });
    may::coroutine::yield_now();
    SLOT.with(|s| {
        let v = s.borrow().0;
        if v != id {
            sh.bad.lock().unwrap().push(("local_changed".into(), format!("{who}: coroutine-local value is {v} after a yield, expected {id}")));
        }
    });
}

pub fn build(ctl: &'static Ctrl, params: &Value) -> Instance {
    let kind = params["kind"].as_str().unwrap_or("normal").to_string();
    let sh = Arc::new(Shared { bad: StdMutex::new(vec![]), blocker: StdMutex::new(None), innocent_result: StdMutex::new(None), occ_handle: StdMutex::new(None), stack1: AtomicUsize::new(0), stack2: AtomicUsize::new(0) });
    INITS.store(0, SeqCst);
    DROPS.store(0, SeqCst);
    let mut actors = vec![];
    let sh2 = sh.clone();
    let kind2 = kind.clone();
    // actor 0: the orchestrating thread; actor 1: first occupant; actor 2: the innocent one
    actors.push(actor("d", false, move || {
        let shs = sh2.clone();
        // thread context: the key falls back to a per-thread value
        SLOT.with(|s| s.borrow_mut().0 = 7777);
        if kind2 == "select_cancel" {
            let shx = shs.clone();
            let _ = std::panic::catch_unwind(std::panic::AssertUnwindSafe(|| {
                may::cqueue::scope(|cq| {
                    cq.add(0, move |es| {
                        ctl.enroll_co_until_done(1);
                        use_local(&shx, 11, "occupant");
                        es.send(0);
                    });
                    may::verif::pt("ru.leave", 0, 0, 0);
                })
            }));
        } else {
            let shx = shs.clone();
            let k = kind2.clone();
            let h = unsafe {
                may::coroutine::spawn(move || {
                    ctl.enroll_co_until_done(1);
                    *shx.occ_handle.lock().unwrap() = Some(may::coroutine::current());
                    use_local(&shx, 11, "occupant");
                    // a destructor that yields (as Park::drop does while `wait_kernel` is set): run by the unwinding
                    struct YieldOnDrop;
                    impl Drop for YieldOnDrop {
                        fn drop(&mut self) {
                            may::coroutine::yield_now();
                        }
                    }
                    let _guard = if k.contains("dropyield") { Some(YieldOnDrop) } else { None };
                    match k.as_str() {
                        "dropyield_cancel" => {
                            // panics by itself; the cancel may be pending by then
                            may::verif::pt("ru.block", 0, 0, 0);
                            panic!("occupant panics");
                        }
                        "sleep_dropyield_cancel" => {
                            may::verif::pt("ru.block", 0, 0, 0);
                            may::coroutine::sleep(Duration::from_secs(3600));
                        }
                        "park_cancel" => {
                            may::verif::pt("ru.block", 0, 0, 0);
                            let b = Blocker::current();
                            let _ = b.park(None);
                        }
                        "sleep_cancel" => {
                            may::verif::pt("ru.block", 0, 0, 0);
                            may::coroutine::sleep(Duration::from_secs(3600));
                        }
                        "tpark_timeout" => {
                            may::verif::pt("ru.block", 0, 0, 0);
                            let b = Blocker::current();
                            let _ = b.park(Some(Duration::from_millis(10)));
                        }
                        "handle_timeout" => {
                            may::verif::pt("ru.block", 0, 0, 0);
                            may::coroutine::park_timeout(Duration::from_millis(10));
                        }
                        "panic" => panic!("occupant panics"),
                        _ => {}
                    }
                })
            };
            if kind2.ends_with("_cancel") {
                may::verif::pt("ru.cancel", 0, 0, 0);
                unsafe { h.coroutine().cancel() };
            }
            may::verif::pt("ru.join", 0, 0, 0);
            let _ = h.join();
        }
        // wait until the first occupant's stack is back in the pool: the innocent one gets it
        let t0 = std::time::Instant::now();
        while !matches!(ctl.actor_state(1).0, ASt::Finished(_)) && t0.elapsed() < Duration::from_millis(500) {
            std::thread::yield_now();
        }
        std::thread::sleep(Duration::from_micros(300));
        let shy = shs.clone();
        let h2 = unsafe {
            may::coroutine::spawn(move || {
                ctl.enroll_co_until_done(2);
                use_local(&shy, 22, "innocent");
                let b = Blocker::current();
                *shy.blocker.lock().unwrap() = Some(b.clone());
                may::verif::pt("ru.ipark", 0, 0, 0);
                let r = b.park(None);
                *shy.innocent_result.lock().unwrap() = Some(format!("{r:?}"));
                let io = innocent_io_probe();
                if io != "Ok" {
                    shy.bad.lock().unwrap().push(("stale_result_inherited".into(), format!("the innocent coroutine's first blocking socket read returned {io}")));
                }
            })
        };
        may::verif::pt("ru.unpark", 0, 0, 0);
        // wait until the innocent coroutine has published its blocker, then wake it with a plain unpark
        loop {
            if let Some(b) = shs.blocker.lock().unwrap().clone() {
                b.unpark();
                break;
            }
            std::thread::yield_now();
        }
        match h2.join() {
            Ok(()) => {}
            Err(_) => shs.bad.lock().unwrap().push(("innocent_panicked".into(), "the innocent coroutine ended with a panic / Cancel".into())),
        }
        SLOT.with(|s| {
            if s.borrow().0 != 7777 {
                shs.bad.lock().unwrap().push(("thread_local_changed".into(), format!("the thread's own value of the key is {}", s.borrow().0)));
            }
        });
    }));
    actors.push(external_actor("c1"));
    actors.push(external_actor("c2"));
    // cancel_first: the occupant is held at ru.block until the cancel has been issued (the cancel is pending when it panics)
    let holds = if params["cancel_first"].as_bool().unwrap_or(false) {
        vec![Hold { actor: "c1".into(), site: "ru.block".into(), nth: 1, until_actor: "d".into(), until_site: "ru.cancel".into(), until_n: 1 }]
    } else {
        vec![]
    };
    let opts = ExecOpts { cats: vec!["ru", "cq.send.check", "cq.send.yield", "cq.drop.cancel"], vclock: true, offer_tick: true, holds, ..Default::default() };
    let sh4 = sh.clone();
    Instance {
        opts,
        actors,
        custom: Box::new(|_, _| {}),
        unstick: Box::new(|| {}),
        check: Box::new(move |out: &Outcome| {
            let mut v = vec![];
            for (k, d) in sh4.bad.lock().unwrap().iter() {
                v.push(Violation { kind: k.clone(), detail: d.clone() });
            }
            match &out.end {
                End::Finished => {
                    let (a, b) = (sh4.stack1.load(SeqCst), sh4.stack2.load(SeqCst));
                    if a != 0 && b != 0 && a.abs_diff(b) < 0x8000 {
                        crate::run::bump("stack_reused");
                    } else {
                        crate::run::bump("stack_not_reused");
                    }
                    let t0 = std::time::Instant::now();
                    while DROPS.load(SeqCst) < 2 && t0.elapsed() < Duration::from_millis(2500) {
                        std::thread::yield_now();
                    }
                    let r = sh4.innocent_result.lock().unwrap().clone();
                    match r.as_deref() {
                        Some("Ok(())") => {}
                        other => v.push(Violation { kind: "stale_result_inherited".into(), detail: format!("the innocent coroutine's first blocking park, woken by a plain unpark, returned {other:?}") }),
                    }
                    let (i, d) = (INITS.load(SeqCst), DROPS.load(SeqCst));
                    // two coroutines + the orchestrating thread initialised the key; the two coroutine values are dropped
                    if i != 3 || d < 2 {
                        v.push(Violation { kind: "local_lifecycle".into(), detail: format!("initialiser ran {i} times (expected 3), {d} values dropped (expected the 2 coroutine values)") });
                    }
                    let (st, _) = ctl.actor_state(0);
                    if matches!(st, ASt::Finished(true)) {
                        v.push(Violation { kind: "panic".into(), detail: "the orchestrating thread panicked".into() });
                    }
                }
                End::Stuck(who) => v.push(Violation { kind: "hang".into(), detail: format!("logical deadlock, unfinished: {who:?}") }),
                End::Budget => v.push(Violation { kind: "livelock".into(), detail: "step budget exhausted".into() }),
                End::Tool(_) | End::Aborted => {}
            }
            v
        }),
    }
}

// ---------------------------------------------------------------------------------------------
// coroutine-local storage under yields, migration, cancellation and panics (scenario `cls`)
// ---------------------------------------------------------------------------------------------
static K_INITS: AtomicUsize = AtomicUsize::new(0);
static K_DROPS: AtomicUsize = AtomicUsize::new(0);
static K_IDS: AtomicUsize = AtomicUsize::new(0);
struct Tracked(u64, usize);
impl Drop for Tracked {
    fn drop(&mut self) {
        K_DROPS.fetch_add(1, SeqCst);
        DROPPED_IDS.lock().unwrap().push(self.1);
    }
}
static DROPPED_IDS: StdMutex<Vec<usize>> = StdMutex::new(Vec::new());
may::coroutine_local!(static KA: RefCell<Tracked> = {
    K_INITS.fetch_add(1, SeqCst);
    RefCell::new(Tracked(0, K_IDS.fetch_add(1, SeqCst)))
});
may::coroutine_local!(static KB: std::cell::Cell<u64> = std::cell::Cell::new(5));
may::coroutine_local!(static KC: std::cell::Cell<u64> = std::cell::Cell::new(0));

/// params: actors: [{name, co, rounds, end: "ret"|"panic"}], victims
pub fn build_cls(ctl: &'static Ctrl, params: &Value) -> Instance {
    let bad: Arc<StdMutex<Vec<(String, String)>>> = Arc::new(StdMutex::new(vec![]));
    K_INITS.store(0, SeqCst);
    K_DROPS.store(0, SeqCst);
    // values of an earlier execution's thread actors are dropped when those threads exit, possibly now
    let base = K_IDS.load(SeqCst);
    let victims: Vec<String> = params["victims"].as_array().map(|a| a.iter().map(|v| v.as_str().unwrap().to_string()).collect()).unwrap_or_default();
    let mut actors = vec![];
    let mut n_co = 0usize;
    let touched: Arc<StdMutex<Vec<bool>>> = Arc::new(StdMutex::new(vec![]));
    for (i, a) in params["actors"].as_array().expect("actors").iter().enumerate() {
        let name = a["name"].as_str().unwrap().to_string();
        let is_co = a["co"].as_bool().unwrap_or(true);
        let rounds = a["rounds"].as_u64().unwrap_or(2);
        let end = a["end"].as_str().unwrap_or("ret").to_string();
        if is_co {
            n_co += 1;
        }
        touched.lock().unwrap().push(false);
        let bad2 = bad.clone();
        let nm = name.clone();
        let touched2 = touched.clone();
        actors.push(actor(&name, is_co, move || {
            let me = 100 + i as u64;
            may::verif::pt("cls.first", 0, 0, 0);
            // first access runs the initialiser: nobody else's value is visible
            KA.with(|k| {
                touched2.lock().unwrap()[i] = true;
                if k.borrow().0 != 0 {
                    bad2.lock().unwrap().push(("local_inherited".into(), format!("{nm}: first access sees value {}", k.borrow().0)));
                }
                k.borrow_mut().0 = me;
            });
            if KB.with(|k| k.get()) != 5 {
                bad2.lock().unwrap().push(("local_inherited".into(), format!("{nm}: second key does not start at its initial value")));
            }
            let mut w0 = std::thread::current().id();
            for r in 0..rounds {
                KB.with(|k| k.set(me * 10 + r));
                may::verif::pt("cls.yield", 0, 0, 0);
                if r % 2 == 0 {
                    // resumed by the timer thread
                    may::coroutine::sleep(Duration::from_nanos(crate::scen::sem::UNIT_NS));
                } else {
                    may::coroutine::yield_now();
                }
                let w1 = std::thread::current().id();
                if w1 != w0 {
                    crate::run::bump("migrations");
                    w0 = w1;
                }
                may::verif::pt("cls.read", 0, 0, 0);
                let a = KA.with(|k| k.borrow().0);
                let b = KB.with(|k| k.get());
                // the same key used again while a closure of it runs (nested access), and another key first used
                // inside: both must see the one value of this context
                let nested = KA.with(|outer| {
                    let o = outer.borrow().0;
                    let i = KA.with(|inner| inner.borrow().0);
                    let c = KC.with(|c| {
                        c.set(c.get() + 1);
                        c.get()
                    });
                    (o, i, c)
                });
                if nested.0 != me || nested.1 != me || nested.2 != r + 1 {
                    bad2.lock().unwrap().push(("local_changed".into(), format!("{nm}: round {r}: nested access reads ({}, {}), third key counts {} (expected {me}, {me}, {})", nested.0, nested.1, nested.2, r + 1)));
                }
                // a panic inside the closure must not lose the value
                let _ = std::panic::catch_unwind(std::panic::AssertUnwindSafe(|| {
                    KA.with(|_| {
                        if r == 0 {
                            std::panic::resume_unwind(Box::new("inside with"));
                        }
                    })
                }));
                let a2 = KA.with(|k| k.borrow().0);
                if a2 != me {
                    bad2.lock().unwrap().push(("local_changed".into(), format!("{nm}: round {r}: after a panic inside with() the value reads {a2}, expected {me}")));
                }
                if a != me || b != me * 10 + r {
                    bad2.lock().unwrap().push(("local_changed".into(), format!("{nm}: round {r}: reads ({a}, {b}), wrote ({me}, {})", me * 10 + r)));
                }
            }
            if end == "panic" {
                panic!("cls actor panics");
            }
        }));
    }
    let opts = ExecOpts { cats: vec!["cls"], victims: victims.clone(), vclock: true, offer_tick: true, ..Default::default() };
    Instance {
        opts,
        actors,
        custom: Box::new(|_, _| {}),
        unstick: Box::new(|| {}),
        check: Box::new(move |out: &Outcome| {
            let mut v = vec![];
            for (k, d) in bad.lock().unwrap().iter() {
                v.push(Violation { kind: k.clone(), detail: d.clone() });
            }
            match &out.end {
                End::Finished => {
                    // every coroutine that touched the key owns exactly one value, dropped exactly once after it ended
                    let n_touched_co = params_touched(&touched, ctl);
                    let t0 = std::time::Instant::now();
                    while DROPPED_IDS.lock().unwrap().iter().filter(|i| **i >= base).count() < n_touched_co && t0.elapsed() < Duration::from_millis(2500) {
                        std::thread::yield_now();
                    }
                    let inits = K_INITS.load(SeqCst);
                    let total_touched = touched.lock().unwrap().iter().filter(|b| **b).count();
                    if inits != total_touched {
                        v.push(Violation { kind: "local_lifecycle".into(), detail: format!("initialiser ran {inits} times for {total_touched} contexts that used the key") });
                    }
                    let ids: Vec<usize> = DROPPED_IDS.lock().unwrap().iter().copied().filter(|i| *i >= base).collect();
                    let mut s = ids.clone();
                    s.sort();
                    s.dedup();
                    if s.len() != ids.len() {
                        v.push(Violation { kind: "local_lifecycle".into(), detail: format!("a local value was dropped twice: {ids:?}") });
                    }
                    if ids.len() < n_touched_co {
                        v.push(Violation { kind: "local_lifecycle".into(), detail: format!("{} of {n_touched_co} coroutine-local values dropped after all coroutines ended", ids.len()) });
                    }
                    let _ = n_co;
                }
                End::Stuck(who) => v.push(Violation { kind: "hang".into(), detail: format!("logical deadlock, unfinished: {who:?}") }),
                End::Budget => v.push(Violation { kind: "livelock".into(), detail: "step budget exhausted".into() }),
                End::Tool(_) | End::Aborted => {}
            }
            v
        }),
    }
}

fn params_touched(touched: &Arc<StdMutex<Vec<bool>>>, ctl: &'static Ctrl) -> usize {
    let t = touched.lock().unwrap();
    (0..t.len()).filter(|i| t[*i] && ctl.actor_is_co(*i)).count()
}
