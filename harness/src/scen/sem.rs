//! C10: may::sync::Semphore under the baton.  Mirrors spec/l2/Semaphore.tla: every actor runs
//! Prog[a] over "wait" | "twait" | "try" | "post"; timed waits use the virtual clock.
use crate::ctrl::Ctrl;
use crate::driver::*;
use crate::run::{Instance, Violation};
use may::sync::Semphore;
use serde_json::Value;
use std::sync::atomic::{AtomicUsize, Ordering::SeqCst};
use std::sync::{Arc, Mutex as StdMutex};
use std::time::Duration;

struct Shared {
    sem: Semphore,
    ok: AtomicUsize,
    posts: AtomicUsize,
    bad: StdMutex<Vec<String>>,
}

pub const UNIT_NS: u64 = 10_000_000; // one spec time unit = 10 ms of virtual time

pub fn build(ctl: &'static Ctrl, params: &Value) -> Instance {
    let init = params["init"].as_u64().unwrap_or(0) as usize;
    let sh = Arc::new(Shared { sem: Semphore::new(init), ok: AtomicUsize::new(0), posts: AtomicUsize::new(0), bad: StdMutex::new(vec![]) });
    let victims: Vec<String> = params["victims"].as_array().map(|a| a.iter().map(|v| v.as_str().unwrap().to_string()).collect()).unwrap_or_default();
    let mut actors = vec![];
    let mut untimed_waiters: Vec<String> = vec![];
    for a in params["actors"].as_array().expect("actors") {
        let name = a["name"].as_str().unwrap().to_string();
        let is_co = a["co"].as_bool().unwrap_or(false);
        let dur = a["dur"].as_u64().unwrap_or(1);
        let prog: Vec<String> = a["prog"].as_array().unwrap().iter().map(|v| v.as_str().unwrap().to_string()).collect();
        if prog.iter().any(|p| p == "wait") {
            untimed_waiters.push(name.clone());
        }
        let sh2 = sh.clone();
        let nm = name.clone();
        actors.push(actor(&name, is_co, move || {
            for op in prog {
                match op.as_str() {
                    "wait" => {
                        sh2.sem.wait();
                        sh2.ok.fetch_add(1, SeqCst);
                    }
                    "twait" => {
                        let t0 = ctl.vnow();
                        let d = Duration::from_nanos(dur * UNIT_NS);
                        if sh2.sem.wait_timeout(d) {
                            sh2.ok.fetch_add(1, SeqCst);
                        } else if let (Some(t0), Some(t1)) = (t0, ctl.vnow()) {
                            if t1 - t0 < d.as_nanos() as u64 {
                                sh2.bad.lock().unwrap().push(format!("{nm}: wait_timeout({d:?}) reported a timeout after {} ns", t1 - t0));
                            }
                        }
                    }
                    "try" => {
                        if sh2.sem.try_wait() {
                            sh2.ok.fetch_add(1, SeqCst);
                        }
                    }
                    "post" => {
                        sh2.sem.post();
                        sh2.posts.fetch_add(1, SeqCst);
                    }
                    _ => {}
                }
            }
        }));
    }
    let opts = ExecOpts { cats: vec!["sem"], victims: victims.clone(), vclock: true, offer_tick: true, ..Default::default() };
    let sh3 = sh.clone();
    let sh4 = sh.clone();
    Instance {
        opts,
        actors,
        custom: Box::new(|_, _| {}),
        unstick: Box::new(move || {
            for _ in 0..8 {
                sh4.sem.post();
            }
        }),
        check: Box::new(move |out: &Outcome| {
            let mut v = vec![];
            for b in sh3.bad.lock().unwrap().iter() {
                v.push(Violation { kind: "early_timeout".into(), detail: b.clone() });
            }
            let ok = sh3.ok.load(SeqCst);
            let posts = sh3.posts.load(SeqCst);
            let value = sh3.sem.get_value();
            if ok > init + posts {
                v.push(Violation { kind: "overdrawn".into(), detail: format!("{ok} successful waits with initial {init} + {posts} posts") });
            }
            match &out.end {
                End::Finished => {
                    // a cancelled waiter may have been handed a permit it then forwarded: the
                    // arithmetic below holds in every case
                    if value + ok != init + posts {
                        v.push(Violation { kind: "conservation".into(), detail: format!("all calls returned: value {value} != initial {init} + posts {posts} - successful waits {ok}") });
                    }
                    for (i, p) in out.panicked.iter().enumerate() {
                        if *p && !victims.contains(&out.names[i]) {
                            v.push(Violation { kind: "panic".into(), detail: format!("actor {} panicked", out.names[i]) });
                        }
                    }
                }
                End::Stuck(who) => {
                    // blocking for ever is legitimate only for untimed wait()s with no permit left
                    let legit = who.iter().all(|w| untimed_waiters.contains(w)) && value == 0 && ok == init + posts;
                    if !legit {
                        v.push(Violation { kind: "stranded_waiter".into(), detail: format!("logical deadlock: unfinished {who:?}, value {value}, initial {init}, posts {posts}, successful waits {ok}") });
                    }
                }
                End::Budget => v.push(Violation { kind: "livelock".into(), detail: "step budget exhausted".into() }),
                End::Tool(_) | End::Aborted => {}
            }
            v
        }),
    }
}
