//! command line, behaviour files, result files
use crate::ctrl::Ctrl;
use crate::driver::*;
use crate::scen;
use serde_json::{json, Value};
use std::io::Write;

pub struct Violation {
    pub kind: String,
    pub detail: String,
}

/// what a scenario provides for one execution
pub struct Instance {
    pub opts: ExecOpts,
    pub actors: Vec<ActorDef>,
    pub custom: Box<dyn FnMut(&str, &str)>,
    /// property-level oracle, evaluated after the execution
    pub check: Box<dyn FnOnce(&Outcome) -> Vec<Violation>>,
    /// called after the oracle when the execution did not finish: release blocked actors
    pub unstick: Box<dyn FnMut()>,
}

pub type Builder = fn(&'static Ctrl, &Value) -> Instance;

fn arg<'a>(args: &'a [String], name: &str) -> Option<&'a str> {
    args.iter().position(|a| a == name).and_then(|i| args.get(i + 1)).map(|s| s.as_str())
}

fn read_json(path: &str) -> Value {
    let s = std::fs::read_to_string(path).unwrap_or_else(|e| {
        eprintln!("cannot read {path}: {e}");
        std::process::exit(2)
    });
    serde_json::from_str(&s).unwrap_or_else(|e| {
        eprintln!("bad json {path}: {e}");
        std::process::exit(2)
    })
}

pub struct Stats {
    pub runs: usize,
    pub completed: usize,
    pub diverged: usize,
    pub first_div: Option<Value>,
    pub steps: usize,
    pub stuck_expected: usize,
    pub violations: Vec<Value>,
    pub tool_errors: Vec<String>,
    pub samples: Vec<Value>,
    pub distinct: std::collections::HashSet<u64>,
    pub nontrivial: usize,
}

fn hash_sched(s: &[Step]) -> u64 {
    use std::hash::{Hash, Hasher};
    let mut h = std::collections::hash_map::DefaultHasher::new();
    for x in s {
        format!("{x:?}").hash(&mut h);
    }
    h.finish()
}

/// number of context switches between actors inside the schedule
fn switches(s: &[Step]) -> usize {
    let mut n = 0;
    let mut last: Option<&str> = None;
    for x in s {
        if let Step::Go { actor, .. } = x {
            if let Some(l) = last {
                if l != actor {
                    n += 1;
                }
            }
            last = Some(actor);
        }
    }
    n
}

/// scenario-specific counters that end up in the result file ("extra")
pub static EXTRA: std::sync::Mutex<std::collections::BTreeMap<String, u64>> = std::sync::Mutex::new(std::collections::BTreeMap::new());
/// a scenario-level history (call / return records) to be written to the trace file instead of the point trace
pub static HISTORY: std::sync::Mutex<Vec<serde_json::Value>> = std::sync::Mutex::new(Vec::new());
/// cheap in-memory debug log of the current execution (dumped into violation details on demand)
pub static DBG: std::sync::Mutex<Vec<String>> = std::sync::Mutex::new(Vec::new());
pub fn dbg(s: String) {
    let mut g = DBG.lock().unwrap();
    if g.len() < 400 {
        g.push(s);
    }
}
pub static RUNTIME_PANIC: std::sync::Mutex<Option<String>> = std::sync::Mutex::new(None);
pub fn bump(key: &str) {
    *EXTRA.lock().unwrap().entry(key.to_string()).or_insert(0) += 1;
}

/// real-time experiment (no controller): does a timer on an interval list that has been emptied fire on time?
fn rt_timer() -> i32 {
    use std::time::{Duration, Instant};
    may::config().set_workers(4);
    let t = Instant::now();
    let a = may::go!(move || { may::coroutine::sleep(Duration::from_millis(20)); });
    let b = may::go!(move || { may::coroutine::park_timeout(Duration::from_millis(20)); });
    let d = may::go!(move || { may::coroutine::sleep(Duration::from_millis(200)); });
    a.join().unwrap();
    b.join().unwrap();
    std::thread::sleep(Duration::from_millis(10));
    let c = may::go!(move || {
        let t0 = Instant::now();
        let blk = may::sync::Blocker::current();
        let r = blk.park(Some(Duration::from_millis(20)));
        println!("park(20ms) on the emptied 20ms list returned {r:?} after {:?}", t0.elapsed());
    });
    c.join().unwrap();
    d.join().unwrap();
    println!("total {:?}", t.elapsed());
    0
}

pub fn main(args: &[String]) -> i32 {
    if args.len() < 4 {
        eprintln!("usage: mv <scenario> replay|explore|dfs|one <file> [options]");
        return 2;
    }
    let scen_name = args[1].as_str();
    if scen_name == "rt_timer" {
        return rt_timer();
    }
    let mode = args[2].as_str();
    let file = args[3].as_str();
    let Some(builder) = scen::lookup(scen_name) else {
        eprintln!("unknown scenario {scen_name}");
        return 2;
    };
    let input = read_json(file);
    let params = input.get("params").cloned().unwrap_or(json!({}));
    let workers = params.get("workers").and_then(|v| v.as_u64()).unwrap_or(8) as usize;
    may::config().set_workers(workers).set_timeout_ns(200_000);
    if let Some(c) = params.get("pool_capacity").and_then(|v| v.as_u64()) {
        may::config().set_pool_capacity(c as usize);
    }
    let ctl = Ctrl::new();
    // panics of the code under test are data.  A panic of an actor (thread or coroutine) is judged by the
    // scenario; a panic on a runtime thread that is not inside a coroutine (a worker's event loop, the
    // kernel side of a yield, the timer thread) leaves the runtime in an unknown state: record it and
    // abort the execution
    let verbose = std::env::var("MV_VERBOSE").is_ok();
    let dflt_hook = std::panic::take_hook();
    std::panic::set_hook(Box::new(move |info| {
        if verbose {
            dflt_hook(info);
        }
        // (a helper thread of a scenario that panics on purpose - e.g. to poison a lock - is recognised by the
        // location of the panic: harness code, not the code under test)
        let in_harness = info.location().map_or(false, |l| l.file().starts_with("src/scen") || l.file().contains("verif/harness"));
        if may::verif::cur_vid() == 0 && !crate::ctrl::is_actor_thread() && !in_harness && std::thread::current().name() != Some("main") {
            let msg = info.payload().downcast_ref::<&str>().map(|s| s.to_string()).or_else(|| info.payload().downcast_ref::<String>().cloned()).unwrap_or_default();
            let loc = info.location().map(|l| format!("{}:{}", l.file(), l.line())).unwrap_or_default();
            let mut g = RUNTIME_PANIC.lock().unwrap_or_else(|p| p.into_inner());
            if g.is_none() {
                *g = Some(format!("a runtime thread panicked: '{msg}' at {loc}"));
            }
            drop(g);
            ctl.abort_run();
        }
    }));
    // wake every worker once: a worker's first epoll_wait has no timeout, so a worker that never
    // received work would never poll (and never steal)
    for k in 0..workers {
        let h = unsafe { may::coroutine::Builder::new().id(k).spawn(|| {}).unwrap() };
        let _ = h.join();
    }
    let replay_dir = arg(args, "--replay-dir").unwrap_or("/verif/replays").to_string();
    let _ = std::fs::create_dir_all(&replay_dir);
    let mut traces = arg(args, "--traces").map(|p| std::io::BufWriter::new(std::fs::File::create(p).expect("traces file")));
    let max_viol = arg(args, "--max-violations").and_then(|s| s.parse().ok()).unwrap_or(3usize);
    let mut st = Stats {
        runs: 0,
        completed: 0,
        diverged: 0,
        first_div: None,
        steps: 0,
        stuck_expected: 0,
        violations: vec![],
        tool_errors: vec![],
        samples: vec![],
        distinct: Default::default(),
        nontrivial: 0,
    };

    let out_path: Option<String> = arg(args, "--out").map(|s| s.to_string());
    let mut run_one = |chooser: &mut dyn Chooser, st: &mut Stats, label: &str| -> Outcome {
        DBG.lock().unwrap().clear();
        *RUNTIME_PANIC.lock().unwrap_or_else(|p| p.into_inner()) = None;
        let inst = builder(ctl, &params);
        let Instance { opts, actors, mut custom, check, mut unstick } = inst;
        eprintln!("RUN {label}");
        let t0 = std::time::Instant::now();
        let (out, handles) = execute(ctl, &opts, actors, chooser, &mut *custom);
        if std::env::var("MV_DBG_RUN").map_or(false, |l| l == label) {
            for l in DBG.lock().unwrap().iter() {
                eprintln!("  DBG {l}");
            }
            eprintln!("  sched={}", schedule_json(&out.schedule));
        }
        if std::env::var("MV_TIMING").is_ok() {
            eprintln!("  took {:?} end={:?} steps={} sched={}", t0.elapsed(), out.end, out.schedule.len(), schedule_json(&out.schedule));
        }
        st.runs += 1;
        st.steps += out.schedule.len();
        if let End::Tool(e) = &out.end {
            st.tool_errors.push(format!("{label}: {e}"));
        } else {
            st.completed += 1;
        }
        if let Some((pos, why)) = &out.diverged {
            st.diverged += 1;
            if st.first_div.is_none() {
                st.first_div = Some(json!({"run": label, "pos": pos, "why": why}));
            }
        }
        if st.distinct.insert(hash_sched(&out.schedule)) && switches(&out.schedule) >= 2 {
            st.nontrivial += 1;
        }
        let rt_panic = RUNTIME_PANIC.lock().unwrap_or_else(|p| p.into_inner()).clone();
        let viol = match std::panic::catch_unwind(std::panic::AssertUnwindSafe(|| check(&out))) {
            Ok(v) => v,
            Err(e) => {
                let msg = e.downcast_ref::<&str>().map(|s| s.to_string()).or_else(|| e.downcast_ref::<String>().cloned()).unwrap_or_default();
                vec![Violation { kind: "panic".into(), detail: format!("the code under test panicked during the final check: {msg}") }]
            }
        };
        let mut viol = viol;
        // a verdict that rests on "nothing moves any more" (hang, lost wake-up, missed readiness) is re-examined on a slow or
        // loaded machine: the actors are still frozen at their points, but what runs free (the kernel, event loops, helper
        // threads) gets another 600 ms; if anything moves in that time the execution is inconclusive, not a violation
        if matches!(out.end, End::Stuck(_)) && viol.iter().any(|v| matches!(v.kind.as_str(), "hang" | "missed_readiness" | "lost_wakeup" | "lost_timeout" | "stranded_waiter")) {
            let c0 = ctl.change_count();
            let t0 = std::time::Instant::now();
            let mut moved = false;
            while t0.elapsed() < std::time::Duration::from_millis(600) {
                if ctl.change_count() != c0 {
                    moved = true;
                    break;
                }
                std::thread::sleep(std::time::Duration::from_millis(5));
            }
            if moved {
                viol.retain(|v| !matches!(v.kind.as_str(), "hang" | "missed_readiness" | "lost_wakeup" | "lost_timeout" | "stranded_waiter"));
                bump("inconclusive_late_progress");
            }
        }
        if let Some(p) = rt_panic {
            let kind = if p.starts_with("use after free") { "use_after_free" } else { "runtime_panic" };
            viol.insert(0, Violation { kind: kind.into(), detail: p });
        }
        for v in viol {
            let id = format!("{}_{}_{:016x}", scen_name, v.kind, hash_sched(&out.schedule));
            let path = format!("{replay_dir}/{id}.json");
            let rep = json!({
                "scenario": scen_name, "params": params, "violation": v.kind, "detail": v.detail,
                "end": format!("{:?}", out.end),
                "schedule": schedule_json(&out.schedule),
                "final_state": out.final_state,
                "dbg": DBG.lock().unwrap().iter().rev().take(40).cloned().collect::<Vec<_>>(),
            });
            let _ = std::fs::write(&path, serde_json::to_string_pretty(&rep).unwrap());
            st.violations.push(json!({"kind": v.kind, "detail": v.detail, "replay": path, "run": label,
                "schedule": schedule_json(&out.schedule)}));
        }
        if st.samples.len() < 3 && switches(&out.schedule) >= 2 {
            st.samples.push(json!({"run": label, "end": format!("{:?}", out.end), "schedule": schedule_json(&out.schedule)}));
        }
        if out.end == End::Aborted {
            // actors are frozen where they are; releasing them would be unsafe: report and leave
            let res = json!({
                "scenario": scen_name, "mode": "aborted", "runs": st.runs, "completed": st.completed,
                "diverged": st.diverged, "first_divergence": st.first_div, "steps": st.steps,
                "distinct": st.distinct.len(), "distinct_nontrivial": st.nontrivial,
                "violations": st.violations, "tool_errors": st.tool_errors, "samples": st.samples,
            });
            if let Some(p) = out_path.as_deref() {
                let _ = std::fs::write(p, serde_json::to_string_pretty(&res).unwrap());
            }
            std::process::exit(if st.violations.is_empty() { 2 } else { 1 });
        }
        finish(ctl, &out, handles, &mut *unstick);
        if traces.is_none() {
            HISTORY.lock().unwrap().clear();
        }
        if let Some(w) = traces.as_mut() {
            let mut h = HISTORY.lock().unwrap();
            if !h.is_empty() {
                for e in h.drain(..) {
                    let _ = writeln!(w, "{e}");
                }
            } else {
                let _ = writeln!(w, "{}", json!({"ev": "reset", "run": label}));
                for e in trace_json(&out.names, &out.trace) {
                    let _ = writeln!(w, "{e}");
                }
            }
        }
        out
    };

    match mode {
        "replay" => {
            let behs = input.get("behaviours").and_then(|b| b.as_array()).cloned().unwrap_or_default();
            for (k, b) in behs.iter().enumerate() {
                let mut ch = Replay::new(parse_schedule(b));
                run_one(&mut ch, &mut st, &format!("b{k}"));
                if st.violations.len() >= max_viol || st.tool_errors.len() >= 3 {
                    break;
                }
            }
        }
        "one" => {
            let sched = input.get("schedule").cloned().unwrap_or(json!([]));
            let mut ch = Replay::new(parse_schedule(&sched));
            let out = run_one(&mut ch, &mut st, "one");
            eprintln!("end = {:?}; diverged = {:?}", out.end, out.diverged);
        }
        "explore" => {
            let seed: u64 = arg(args, "--seed").and_then(|s| s.parse().ok()).unwrap_or(1);
            let n: usize = arg(args, "--n").and_then(|s| s.parse().ok()).unwrap_or(100);
            let uniform = args.iter().any(|a| a == "--uniform");
            let nact = builder(ctl, &params).actors.len();
            for k in 0..n {
                let s = seed.wrapping_mul(1_000_003).wrapping_add(k as u64);
                let mut ch = RandomWalk::new(s, nact, 3, uniform || k % 2 == 1);
                run_one(&mut ch, &mut st, &format!("s{s}"));
                if st.violations.len() >= max_viol || st.tool_errors.len() >= 3 {
                    break;
                }
            }
        }
        "dfs" => {
            let max: usize = arg(args, "--max").and_then(|s| s.parse().ok()).unwrap_or(1000);
            let pb: usize = arg(args, "--pb").and_then(|s| s.parse().ok()).unwrap_or(2);
            // iterative preemption-bounded DFS over choice indices
            let mut stack: Vec<Vec<usize>> = vec![vec![]];
            let mut seen = std::collections::HashSet::new();
            while let Some(prefix) = stack.pop() {
                if st.runs >= max {
                    break;
                }
                let mut ch = Dfs::new(prefix.clone());
                let lbl = format!("d{}", st.runs);
                run_one(&mut ch, &mut st, &lbl);
                // children: deviate at every position >= prefix.len()
                for pos in (prefix.len()..ch.widths.len()).rev() {
                    let nonzero = ch.taken[..pos].iter().filter(|c| **c != 0).count();
                    if nonzero >= pb {
                        continue;
                    }
                    for alt in 1..ch.widths[pos] {
                        let mut p = ch.taken[..pos].to_vec();
                        p.push(alt);
                        if seen.insert(p.clone()) {
                            stack.push(p);
                        }
                    }
                }
                if st.violations.len() >= max_viol || st.tool_errors.len() >= 3 {
                    break;
                }
            }
        }
        _ => {
            eprintln!("unknown mode {mode}");
            return 2;
        }
    }
    drop(run_one);
    if let Some(w) = traces.as_mut() {
        let _ = w.flush();
    }
    let res = json!({
        "scenario": scen_name, "mode": mode, "runs": st.runs, "completed": st.completed,
        "diverged": st.diverged, "first_divergence": st.first_div, "steps": st.steps,
        "distinct": st.distinct.len(), "distinct_nontrivial": st.nontrivial,
        "violations": st.violations, "tool_errors": st.tool_errors, "samples": st.samples,
        "extra": EXTRA.lock().unwrap().clone(),
    });
    let s = serde_json::to_string_pretty(&res).unwrap();
    match arg(args, "--out") {
        Some(p) => {
            let _ = std::fs::write(p, &s);
        }
        None => println!("{s}"),
    }
    if !st.tool_errors.is_empty() {
        eprintln!("tool errors: {:?}", st.tool_errors);
        return 2;
    }
    if !st.violations.is_empty() {
        return 1;
    }
    0
}
