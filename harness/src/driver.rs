//! Generic execution driver: runs one scenario instance under the baton, following a chooser
//! (replay of a TLC behaviour, seeded random/PCT walk, or a systematic DFS prefix).
use crate::ctrl::{ASt, Ctrl, Event, PointInfo, Settled};
use serde_json::{json, Value};
use std::sync::atomic::{AtomicBool, Ordering};
use std::sync::Arc;
use std::time::Duration;

pub type Body = Box<dyn FnOnce() + Send + 'static>;

pub struct ActorDef {
    pub name: String,
    pub is_co: bool,
    pub body: Body,
    /// started by the code under test (e.g. a select coroutine), not by the driver
    pub external: bool,
    /// Some(name): this is the kernel side of the coroutine actor `name`
    pub kernel_of: Option<String>,
}

pub fn actor(name: &str, is_co: bool, body: impl FnOnce() + Send + 'static) -> ActorDef {
    ActorDef { name: name.to_string(), is_co, body: Box::new(body), external: false, kernel_of: None }
}

/// an actor slot for a coroutine that the code under test spawns itself; it calls
/// `ctl.enroll_co(idx)` and holds a `fin_guard` while it runs
pub fn external_actor(name: &str) -> ActorDef {
    ActorDef { name: name.to_string(), is_co: true, body: Box::new(|| {}), external: true, kernel_of: None }
}

/// an actor slot for a thread that the scenario (or the code under test) spawns itself; it calls
/// `ctl.enroll_thread(idx)` and holds a `fin_guard` while it runs
pub fn external_thread_actor(name: &str) -> ActorDef {
    ActorDef { name: name.to_string(), is_co: false, body: Box::new(|| {}), external: true, kernel_of: None }
}

/// a runtime thread (e.g. the timer thread) whose points in some category are to be gated: it is
/// never waited for unless it is at a point
pub fn passive_actor(name: &str) -> ActorDef {
    ActorDef { name: name.to_string(), is_co: false, body: Box::new(|| {}), external: true, kernel_of: Some(name.to_string()) }
}

/// the kernel side (subscribe) of coroutine actor `of` as an actor of its own
pub fn kernel_actor(name: &str, of: &str) -> ActorDef {
    ActorDef { name: name.to_string(), is_co: false, body: Box::new(|| {}), external: true, kernel_of: Some(of.to_string()) }
}

pub fn fin_guard(ctl: &'static Ctrl, idx: usize) -> impl Drop {
    FinGuard { ctl, idx }
}

/// one step of a schedule
#[derive(Clone, Debug, PartialEq)]
pub enum Step {
    /// release `actor`; `site` (if given) is the point it is expected to be at
    Go { actor: String, site: Option<String>, expect: Option<i64> },
    /// environment action: "cancel", "tick", or scenario specific
    Env { what: String, arg: String },
}

impl Step {
    pub fn to_json(&self) -> Value {
        match self {
            Step::Go { actor, site, expect } => json!([actor, site.clone().unwrap_or_default(), expect.unwrap_or(-1)]),
            Step::Env { what, arg } => json!([format!("!{what}"), arg]),
        }
    }
    pub fn from_json(v: &Value) -> Option<Step> {
        let a = v.get(0)?.as_str()?;
        let b = v.get(1).and_then(|x| x.as_str()).unwrap_or("");
        if let Some(w) = a.strip_prefix('!') {
            Some(Step::Env { what: w.to_string(), arg: b.to_string() })
        } else if a.starts_with('~') {
            None
        } else {
            let expect = v.get(2).and_then(|x| x.as_i64()).filter(|x| *x >= 0);
            Some(Step::Go { actor: a.to_string(), site: if b.is_empty() { None } else { Some(b.to_string()) }, expect })
        }
    }
}

pub struct View<'a> {
    pub names: &'a [String],
    pub ready: &'a [(usize, PointInfo)],
    pub env: &'a [(String, String)],
    pub nsteps: usize,
    pub finished: &'a [bool],
}

pub enum Choice {
    Go(usize),
    Env(usize),
    /// the chooser expects something that has not happened yet: settle again after a short pause
    Wait,
}

pub trait Chooser {
    /// pick the next step; None = nothing (more) to do from the chooser's side
    fn choose(&mut self, v: &View) -> Option<Choice>;
    fn diverged_at(&self) -> Option<(usize, String)> {
        None
    }
}

#[derive(Clone, Debug, PartialEq)]
pub enum End {
    Finished,
    /// logical deadlock: unfinished actors, nobody can move
    Stuck(Vec<String>),
    /// step budget exhausted (livelock guard)
    Budget,
    /// the scenario stopped the execution (continuing would touch freed memory)
    Aborted,
    Tool(String),
}

pub struct Outcome {
    pub end: End,
    pub trace: Vec<Event>,
    pub names: Vec<String>,
    pub schedule: Vec<Step>,
    pub diverged: Option<(usize, String)>,
    pub panicked: Vec<bool>,
    pub notes: Vec<(usize, &'static str, usize, usize)>,
    /// where every actor was when the execution ended (diagnostics, goes into replay files)
    pub final_state: Vec<String>,
}

pub struct ExecOpts {
    pub cats: Vec<&'static str>,
    pub vclock: bool,
    /// actors that may be cancelled by the environment (coroutines only)
    pub victims: Vec<String>,
    /// offer "tick" (advance virtual time to the next pending timer) as an env action to choosers
    pub offer_tick: bool,
    /// advance virtual time automatically when nothing else can move
    pub auto_tick: bool,
    pub max_steps: usize,
    pub want_notes: Vec<&'static str>,
    pub kernel_cats: Vec<&'static str>,
    pub timer_actor: Option<String>,
    /// extra scenario specific env actions, always enabled until used once
    pub custom_env: Vec<(String, String)>,
    /// points of these categories are taken at once (nothing else is offered while one is pending)
    pub urgent_cats: Vec<&'static str>,
    /// scheduling constraints that make a rare situation reachable (exploration goes on around them)
    pub holds: Vec<Hold>,
    /// (category, passive actor name): points of the category hit by runtime threads belong to that actor
    pub passive_cats: Vec<(&'static str, String)>,
    /// after a Tick make every worker run through its event loop once (the io time-outs are fired there)
    pub kick_workers: Vec<usize>,
    /// let a coroutine actor run on while the kernel side of its previous yield is still at work (real
    /// concurrency: somebody resumed it on another thread); needs a second kernel slot
    pub no_holdback: bool,
    /// the kernel side of a yield refers to memory owned by the coroutine (its socket): if the coroutine has
    /// finished while that kernel side is still at a point, letting it go on is a use after free - report it
    /// instead of crashing
    pub kernel_must_not_outlive: bool,
    /// a tick advances virtual time by one pending deadline only (scenarios whose timers fire in event loops)
    pub tick_single: bool,
}

/// `actor` is not offered for its `nth` pass of `site` until `until_actor` has passed `until_site`
/// `until_n` times (or has finished, or nothing else can move)
#[derive(Clone, Debug)]
pub struct Hold {
    pub actor: String,
    pub site: String,
    pub nth: usize,
    pub until_actor: String,
    pub until_site: String,
    pub until_n: usize,
}
pub fn parse_holds(v: &Value) -> Vec<Hold> {
    v.as_array().map(|a| a.iter().map(|h| Hold {
        actor: h["actor"].as_str().unwrap_or("").to_string(),
        site: h["site"].as_str().unwrap_or("").to_string(),
        nth: h["nth"].as_u64().unwrap_or(1) as usize,
        until_actor: h["until_actor"].as_str().unwrap_or("").to_string(),
        until_site: h["until_site"].as_str().unwrap_or("").to_string(),
        until_n: h["until_n"].as_u64().unwrap_or(1) as usize,
    }).collect()).unwrap_or_default()
}

impl Default for ExecOpts {
    fn default() -> Self {
        ExecOpts {
            cats: vec![],
            vclock: false,
            victims: vec![],
            offer_tick: false,
            auto_tick: true,
            max_steps: 5000,
            want_notes: vec![],
            kernel_cats: vec![],
            timer_actor: None,
            custom_env: vec![],
            urgent_cats: vec![],
            holds: vec![],
            passive_cats: vec![],
            kick_workers: vec![],
            no_holdback: false,
            kernel_must_not_outlive: false,
            tick_single: false,
        }
    }
}

struct FinGuard {
    ctl: &'static Ctrl,
    idx: usize,
}
impl Drop for FinGuard {
    fn drop(&mut self) {
        self.ctl.finished(self.idx, std::thread::panicking());
    }
}

pub enum Handle {
    Thread(Option<std::thread::JoinHandle<()>>),
    Co(Option<may::coroutine::JoinHandle<()>>),
}

/// Run one execution.  `custom` handles scenario specific env actions.
pub fn execute(
    ctl: &'static Ctrl,
    opts: &ExecOpts,
    defs: Vec<ActorDef>,
    chooser: &mut dyn Chooser,
    custom: &mut dyn FnMut(&str, &str),
) -> (Outcome, Vec<Handle>) {
    let names: Vec<String> = defs.iter().map(|d| d.name.clone()).collect();
    let spec: Vec<(&str, bool, bool)> = defs.iter().map(|d| (d.name.as_str(), d.is_co, d.external)).collect();
    ctl.begin(&opts.cats, &spec, opts.vclock);
    {
        let mut g = ctl.lock();
        g.want_notes = opts.want_notes.clone();
        g.kernel_cats = opts.kernel_cats.clone();
        g.timer_actor = opts.timer_actor.as_ref().and_then(|n| names.iter().position(|x| x == n));
        g.passive = opts.passive_cats.iter().filter_map(|(c, n)| names.iter().position(|x| x == n).map(|i| (*c, i))).collect();
    }
    for (k, d) in defs.iter().enumerate() {
        if let Some(of) = &d.kernel_of {
            if let Some(i) = names.iter().position(|n| n == of) {
                ctl.set_kernel_of(k, i);
            }
        }
    }
    let mut handles: Vec<Handle> = vec![];
    for (idx, d) in defs.into_iter().enumerate() {
        let body = d.body;
        if d.external {
            handles.push(Handle::Co(None));
            continue;
        }
        if d.is_co {
            let h = unsafe {
                may::coroutine::Builder::new()
                    .name(d.name.clone())
                    .spawn(move || {
                        ctl.enroll_co(idx);
                        let _g = FinGuard { ctl, idx };
                        body();
                    })
                    .expect("spawn coroutine actor")
            };
            handles.push(Handle::Co(Some(h)));
        } else {
            let h = std::thread::Builder::new()
                .name(d.name.clone())
                .spawn(move || {
                    ctl.enroll_thread(idx);
                    let _g = FinGuard { ctl, idx };
                    let r = std::panic::catch_unwind(std::panic::AssertUnwindSafe(body));
                    if r.is_err() {
                        ctl.finished(idx, true);
                        std::mem::forget(_g);
                    }
                })
                .expect("spawn thread actor");
            handles.push(Handle::Thread(Some(h)));
        }
    }

    let mut schedule: Vec<Step> = vec![];
    let mut cancelled: Vec<bool> = vec![false; names.len()];
    let mut custom_used: Vec<bool> = vec![false; opts.custom_env.len()];
    let mut nsteps = 0usize;
    // spin detection: an actor that keeps coming back to the same point while nobody else moved
    let mut prev_pt: Vec<Option<(&'static str, usize)>> = vec![None; names.len()];
    let mut same_cnt: Vec<usize> = vec![0; names.len()];
    // the points an actor has passed since anybody else moved: coming back to one of them for the third
    // time means it is waiting for someone else (spin loops longer than one point)
    let mut solo: Vec<std::collections::HashMap<(&'static str, usize), usize>> = vec![Default::default(); names.len()];
    // how often each actor has passed each site (for `holds`)
    let mut passes: Vec<std::collections::HashMap<&'static str, usize>> = vec![Default::default(); names.len()];
    let mut spin_rounds = 0usize;
    let mut idle_loops = 0usize;
    let end;
    // MV_SCHED_LOG: the schedule so far is kept in a file, so that the steps that led to a crash of the
    // scenario process are known
    let sched_log = std::env::var("MV_SCHED_LOG").ok();
    let mut empty_stuck = 0usize;
    let mut logged = 0usize;
    loop {
        if let Some(p) = &sched_log {
            if schedule.len() != logged {
                logged = schedule.len();
                let _ = std::fs::write(p, schedule_json(&schedule).to_string());
            }
        }
        let st = match ctl.settle(20) {
            Ok(s) => s,
            Err(e) => {
                end = End::Tool(e.0);
                break;
            }
        };
        if opts.kernel_must_not_outlive {
            if let Some(why) = ctl.kernel_outlives() {
                *crate::run::RUNTIME_PANIC.lock().unwrap_or_else(|p| p.into_inner()) = Some(why);
                end = End::Aborted;
                break;
            }
        }
        if ctl.aborted() {
            end = End::Aborted;
            break;
        }
        if st == Settled::AllFinished {
            end = End::Finished;
            break;
        }
        if nsteps >= opts.max_steps {
            end = End::Budget;
            break;
        }
        let ready_all = ctl.at_points();
        // actors that are spinning (waiting for someone else) are not offered until someone else moved
        let mut ready: Vec<(usize, PointInfo)> = ready_all
            .iter()
            .filter(|(i, p)| !(same_cnt[*i] >= 2 && prev_pt[*i] == Some((p.site, p.obj))) && solo[*i].get(&(p.site, p.obj)).copied().unwrap_or(0) < 3)
            .cloned()
            .collect();
        // a coroutine actor is not offered while the kernel side of its previous yield is still at work
        // (it may well have been resumed meanwhile: it then waits at its point): one activation at a time
        let before = ready.len();
        if !opts.no_holdback {
            ready.retain(|(i, _)| !ctl.kernel_busy_of(*i));
        }
        let mut held_back = before != ready.len();
        if ready.is_empty() && !ready_all.is_empty() && held_back {
            // everybody who is not held back is taken for a spinner: the spin suppression gives way first
            let mut r2: Vec<(usize, PointInfo)> = ready_all.clone();
            if !opts.no_holdback {
                r2.retain(|(i, _)| !ctl.kernel_busy_of(*i));
            }
            if !r2.is_empty() {
                for c in same_cnt.iter_mut() {
                    *c = 0;
                }
                for m in solo.iter_mut() {
                    m.clear();
                }
                spin_rounds += 1;
                ready = r2;
                held_back = false;
            }
        }
        if ready.is_empty() && !ready_all.is_empty() && !held_back {
            spin_rounds += 1;
            if spin_rounds > 400 {
                end = End::Budget;
                break;
            }
            for c in same_cnt.iter_mut() {
                *c = 0;
            }
            for m in solo.iter_mut() {
                m.clear();
            }
            ready = ready_all.clone();
        }
        if !opts.holds.is_empty() {
            let before_holds = ready.clone();
            ready.retain(|(i, p)| {
                !opts.holds.iter().any(|h| {
                    names[*i] == h.actor && p.site == h.site && passes[*i].get(p.site).copied().unwrap_or(0) + 1 == h.nth && {
                        let u = names.iter().position(|n| *n == h.until_actor);
                        match u {
                            Some(u) => {
                                passes[u].get(h.until_site.as_str()).copied().unwrap_or(0) < h.until_n
                                    && !matches!(ctl.actor_state(u).0, ASt::Finished(_))
                            }
                            None => false,
                        }
                    }
                })
            });
            if ready.is_empty() {
                ready = before_holds; // nothing else can move: the hold gives way
            }
        }
        let urgent: Vec<(usize, PointInfo)> = ready.iter().filter(|(_, p)| opts.urgent_cats.contains(&crate::ctrl::cat_of(p.site))).cloned().collect();
        let has_urgent = !urgent.is_empty();
        if has_urgent {
            ready = urgent;
        }
        // enabled env actions
        let mut env: Vec<(String, String)> = vec![];
        for v in &opts.victims {
            if let Some(i) = names.iter().position(|n| n == v) {
                let (ast, _) = ctl.actor_state(i);
                if !cancelled[i] && !matches!(ast, ASt::Finished(_) | ASt::NotStarted) {
                    env.push(("cancel".into(), v.clone()));
                }
            }
        }
        // (not while the timer thread is held up by a coroutine it runs: the models' Tick fires at once)
        if opts.vclock && opts.offer_tick && ctl.next_timer().is_some() && !ctl.timer_is_held() {
            env.push(("tick".into(), String::new()));
        }
        for (k, e) in opts.custom_env.iter().enumerate() {
            if !custom_used[k] {
                env.push(e.clone());
            }
        }
        if has_urgent {
            env.clear();
        }
        let finished: Vec<bool> = (0..names.len()).map(|i| matches!(ctl.actor_state(i).0, ASt::Finished(_)) || ctl.kernel_idle(i)).collect();
        let view = View { names: &names, ready: &ready, env: &env, nsteps, finished: &finished };
        let choice = chooser.choose(&view);
        match choice {
            Some(Choice::Go(i)) => {
                let site = ready.iter().find(|(a, _)| *a == i).map(|(_, p)| p.site.to_string());
                if site.is_none() {
                    end = End::Tool(format!("chooser picked actor {} not at a point", names[i]));
                    break;
                }
                let obs = ready.iter().find(|(a, _)| *a == i).map(|(_, p)| p.a as i64);
                let expect = if site.as_deref().map_or(false, |s| s.ends_with(".ret")) { obs } else { None };
                idle_loops = 0;
                schedule.push(Step::Go { actor: names[i].clone(), site, expect });
                if let Some((_, p)) = ready.iter().find(|(a, _)| *a == i) {
                    if prev_pt[i] == Some((p.site, p.obj)) {
                        same_cnt[i] += 1;
                    } else {
                        same_cnt[i] = 0;
                    }
                    prev_pt[i] = Some((p.site, p.obj));
                    let seen_before = solo[i].get(&(p.site, p.obj)).copied().unwrap_or(0);
                    *solo[i].entry((p.site, p.obj)).or_insert(0) += 1;
                    *passes[i].entry(p.site).or_insert(0) += 1;
                    // in the lock-free queues only a write counts as progress for the others: two spinners
                    // (loads and failing CASes) must not keep waking each other while the one they wait for starves
                    let c = crate::ctrl::cat_of(p.site);
                    // (elsewhere: coming back to a point it has passed since anybody made progress - e.g. the
                    // `while wait_kernel { yield_now() }` loop - is no progress either)
                    let read_like = if c == "q" || c == "tl" {
                        p.site.ends_with("load") || p.site.ends_with(".cas") || p.site.contains(".load_") || p.site.ends_with(".spin") || p.site.ends_with(".check")
                    } else {
                        seen_before >= 1
                    };
                    if !read_like {
                        // (in the queues its own record too: an actor that writes is not spinning; elsewhere the
                        // own record is what tells a revisit from a first visit)
                        spin_rounds = 0;
                        let own_too = c == "q" || c == "tl";
                        for (j, m) in solo.iter_mut().enumerate() {
                            if j != i || own_too {
                                m.clear();
                            }
                        }
                    }
                    for j in 0..names.len() {
                        if j != i {
                            same_cnt[j] = 0;
                        }
                    }
                }
                ctl.release(i);
                nsteps += 1;
            }
            Some(Choice::Env(k)) => {
                let (what, arg) = env[k].clone();
                schedule.push(Step::Env { what: what.clone(), arg: arg.clone() });
                for c in same_cnt.iter_mut() {
                    *c = 0;
                }
                for m in solo.iter_mut() {
                    m.clear();
                }
                ctl.log_env(&what, &arg, &names);
                nsteps += 1;
                match what.as_str() {
                    "cancel" => {
                        let i = names.iter().position(|n| *n == arg).unwrap();
                        cancelled[i] = true;
                        if let Handle::Co(Some(h)) = &handles[i] {
                            unsafe { h.coroutine().cancel() };
                        }
                    }
                    "tick" => {
                        tick_n(ctl, if opts.tick_single { 1 } else { 64 });
                        if !opts.kick_workers.is_empty() {
                            kick_workers(&opts.kick_workers);
                        }
                    }
                    _ => {
                        if let Some(k2) = opts.custom_env.iter().position(|e| e.0 == what && e.1 == arg) {
                            custom_used[k2] = true;
                        }
                        custom(&what, &arg);
                    }
                }
            }
            Some(Choice::Wait) => {
                std::thread::sleep(Duration::from_millis(2));
            }
            None => {
                if !ready.is_empty() {
                    // chooser gave up although actors are ready: treat as budget end
                    end = End::Budget;
                    break;
                }
                // nobody at a point.  Virtual time may still help.
                if opts.vclock && opts.auto_tick {
                    if ctl.next_timer().is_some() {
                        schedule.push(Step::Env { what: "tick".into(), arg: String::new() });
                        ctl.log_env("tick", "", &names);
                        tick_n(ctl, if opts.tick_single { 1 } else { 64 });
                        if !opts.kick_workers.is_empty() {
                            kick_workers(&opts.kick_workers);
                        }
                        nsteps += 1;
                        continue;
                    }
                }
                if st == Settled::Quiet && ctl.confirm_stuck(40) {
                    let g = ctl.lock();
                    if std::env::var("MV_DEBUG").is_ok() {
                        for a in g.actors.iter() {
                            eprintln!("  STUCK {} st={:?} co={:?} at={:?} ext={} host={:?}", a.name, a.st, g.co.get(&a.vid), a.at, a.external, a.hosting);
                        }
                        eprintln!("  co map: {:?}", g.co);
                    }
                    let who: Vec<String> = g
                        .actors
                        .iter()
                        .filter(|a| !matches!(a.st, ASt::Finished(_)) && !(a.kernel_of.is_some() && a.kactive == 0))
                        .map(|a| a.name.clone())
                        .collect();
                    if who.is_empty() {
                        // everybody has finished in the meantime: not a deadlock (the next round normally sees AllFinished)
                        drop(g);
                        empty_stuck += 1;
                        if empty_stuck > 20 {
                            end = End::Finished;
                            break;
                        }
                        continue;
                    }
                    end = End::Stuck(who);
                    break;
                }
                // actors are at points but none can be offered right now (held back behind a busy kernel
                // side, or spinning): give the runtime a moment
                idle_loops += 1;
                if idle_loops > 5000 {
                    if std::env::var("MV_DEBUG").is_ok() {
                        let g = ctl.lock();
                        for a in g.actors.iter() {
                            eprintln!("  IDLE {} st={:?} co={:?} at={:?} k={} host={:?}", a.name, a.st, g.co.get(&a.vid), a.at, a.kactive, a.hosting);
                        }
                        eprintln!("  kthread={:?}", g.kthread);
                    }
                    end = End::Tool("driver made no progress although actors are at points".into());
                    break;
                }
                std::thread::sleep(Duration::from_micros(200));
            }
        }
    }
    let diverged = chooser.diverged_at();
    let trace = ctl.take_trace();
    let notes = std::mem::take(&mut ctl.lock().notes);
    let panicked: Vec<bool> = {
        let g = ctl.lock();
        g.actors.iter().map(|a| matches!(a.st, ASt::Finished(true))).collect()
    };
    let final_state: Vec<String> = {
        let g = ctl.lock();
        g.actors.iter().map(|a| format!("{} st={:?} co={:?} at={:?} k={} host={:?} busy={}", a.name, a.st, g.co.get(&a.vid), a.at.as_ref().map(|p| p.site), a.kactive, a.hosting, a.passive_busy)).collect()
    };
    (Outcome { end, trace, names, schedule, diverged, panicked, notes, final_state }, handles)
}

/// after the oracle has looked at the outcome: open the gates, let `unstick` release actors that
/// are blocked for ever (legitimately or not), join what finishes, leak the rest
pub fn finish(ctl: &'static Ctrl, out: &Outcome, mut handles: Vec<Handle>, unstick: &mut dyn FnMut()) {
    ctl.end();
    ctl.wait_passive_idle(30);
    std::thread::sleep(Duration::from_micros(200));
    if !matches!(out.end, End::Finished) {
        unstick();
        let t0 = std::time::Instant::now();
        loop {
            let all = handles.iter().all(|h| match h {
                Handle::Thread(Some(t)) => t.is_finished(),
                Handle::Co(Some(c)) => c.is_done(),
                _ => true,
            });
            if all || t0.elapsed() > Duration::from_millis(300) {
                break;
            }
            std::thread::sleep(Duration::from_millis(1));
        }
    }
    for h in handles.iter_mut() {
        match h {
            Handle::Thread(t) => {
                if t.as_ref().map_or(false, |t| matches!(out.end, End::Finished) || t.is_finished()) {
                    let _ = t.take().unwrap().join();
                }
            }
            Handle::Co(c) => {
                if c.as_ref().map_or(false, |c| matches!(out.end, End::Finished) || c.is_done()) {
                    let _ = c.take().unwrap().join();
                }
            }
        }
    }
    std::mem::forget(handles);
}

/// make every worker go through its event loop (twice: the second pass proves the first one, including its
/// timer handling at the end of the loop, is complete); a worker held by an actor at a point is skipped
pub fn kick_workers(ws: &[usize]) {
    for _round in 0..2 {
        let hs: Vec<_> = ws.iter().map(|k| unsafe { may::coroutine::Builder::new().id(*k).spawn(|| {}).unwrap() }).collect();
        let t0 = std::time::Instant::now();
        for h in hs.iter() {
            while !h.is_done() && t0.elapsed() < Duration::from_millis(5) {
                std::thread::yield_now();
            }
        }
        std::mem::forget(hs);
    }
}

/// advance virtual time to the next pending deadline, repeatedly, until a timer really fires
/// (stale entries of timers that were removed in the meantime do not count) or none is pending
pub fn tick(ctl: &'static Ctrl) {
    tick_n(ctl, 64)
}
/// `max` = 1: exactly one step of virtual time (to the next pending deadline), whoever owns that timer - io time-outs are
/// handled by the workers' event loops, which the controller cannot see firing
pub fn tick_n(ctl: &'static Ctrl, max: usize) {
    let before = ctl.lock().fired;
    for _ in 0..max {
        let Some(t) = ctl.next_timer() else { break };
        ctl.advance_clock(t);
        let q = ctl.timer_quiet(300, before);
        {
            let g = ctl.lock();
            crate::run::dbg(format!("tick -> {t} quiet={q} fired {}->{} timers={:?} parked={} done_gen={} read_gen={} tick_gen={} add_gen={} done_add={}", before, g.fired, g.timers, g.timer_parked, g.timer_done_gen, g.timer_read_gen, g.tick_gen, g.add_gen, g.done_add_gen));
        }
        if ctl.lock().fired != before {
            break;
        }
        // stopped at its own point: it has seen the new time, what fires is the schedule's business
        if ctl.at_points().iter().any(|(_, p)| p.site.starts_with("timer.")) {
            break;
        }
    }
    // several timers may be due at the new time: let the timer thread get through all of them
    ctl.timer_drain(100);
    {
        let g = ctl.lock();
        crate::run::dbg(format!("drained fired={} done_gen={} read_gen={} tick_gen={} host={:?}", g.fired, g.timer_done_gen, g.timer_read_gen, g.tick_gen, g.timer_host_vid));
    }
}

// ---------------------------------------------------------------------------------------------
// choosers

/// follows a TLC behaviour; after exhaustion or divergence drains round-robin
pub struct Replay {
    pub waits: usize,
    pub steps: Vec<Step>,
    pub pos: usize,
    pub div: Option<(usize, String)>,
    pub rr: usize,
    pub strict: bool,
}

impl Replay {
    pub fn new(steps: Vec<Step>) -> Self {
        Replay { waits: 0, steps, pos: 0, div: None, rr: 0, strict: true }
    }
    fn diverge(&mut self, why: String) {
        if self.div.is_none() {
            self.div = Some((self.pos, why));
        }
    }
}

impl Chooser for Replay {
    fn choose(&mut self, v: &View) -> Option<Choice> {
        while self.pos < self.steps.len() {
            let s = self.steps[self.pos].clone();
            match s {
                Step::Go { actor, site, expect } => {
                    let Some(ai) = v.names.iter().position(|n| *n == actor) else {
                        self.diverge(format!("unknown actor {actor}"));
                        self.pos += 1;
                        continue;
                    };
                    match v.ready.iter().find(|(a, _)| *a == ai) {
                        Some((_, p)) => {
                            if let Some(s) = &site {
                                if s != p.site {
                                    self.diverge(format!("{actor} expected at {s} but is at {}", p.site));
                                } else if let Some(e) = expect {
                                    if e != p.a as i64 {
                                        self.diverge(format!("{actor} at {s}: expected value {e}, observed {}", p.a));
                                    }
                                }
                            }
                            self.pos += 1;
                            self.waits = 0;
                            return Some(Choice::Go(ai));
                        }
                        None => {
                            // asynchronous parts of the runtime (timer thread, worker wake-up) may
                            // need a moment: retry a few times before calling it a divergence
                            if self.div.is_none() && self.waits < 40 && !v.finished[ai] {
                                self.waits += 1;
                                return Some(Choice::Wait);
                            }
                            self.waits = 0;
                            self.diverge(format!(
                                "{actor} expected at {} but is not at a point",
                                site.clone().unwrap_or_default()
                            ));
                            self.pos += 1;
                            continue;
                        }
                    }
                }
                Step::Env { what, arg } => {
                    // a Tick is offered only while the timer thread is free: it may need a moment to get rid of the
                    // coroutine it has just run
                    if what == "tick" && !v.env.iter().any(|e| e.0 == "tick") && self.div.is_none() && self.waits < 40 {
                        self.waits += 1;
                        return Some(Choice::Wait);
                    }
                    self.waits = 0;
                    self.pos += 1;
                    match v.env.iter().position(|e| e.0 == what && (e.1 == arg || what == "tick")) {
                        Some(k) => return Some(Choice::Env(k)),
                        None => {
                            // cancelling an actor that has already finished is a no-op in reality too
                            let fin = v.names.iter().position(|n| *n == arg).map_or(false, |i| v.finished[i]);
                            if !(what == "cancel" && fin) && what != "tick" {
                                self.diverge(format!("env {what} {arg} not enabled"));
                            }
                            continue;
                        }
                    }
                }
            }
        }
        // drain
        if v.ready.is_empty() {
            return None;
        }
        self.rr += 1;
        let k = self.rr % v.ready.len();
        Some(Choice::Go(v.ready[k].0))
    }
    fn diverged_at(&self) -> Option<(usize, String)> {
        self.div.clone()
    }
}

pub struct Rng(pub u64);
impl Rng {
    pub fn next(&mut self) -> u64 {
        // splitmix64
        self.0 = self.0.wrapping_add(0x9E3779B97F4A7C15);
        let mut z = self.0;
        z = (z ^ (z >> 30)).wrapping_mul(0xBF58476D1CE4E5B9);
        z = (z ^ (z >> 27)).wrapping_mul(0x94D049BB133111EB);
        z ^ (z >> 31)
    }
    pub fn below(&mut self, n: usize) -> usize {
        (self.next() % n as u64) as usize
    }
}

/// seeded random walk with PCT-like priorities: each actor has a priority; the highest-priority
/// ready actor runs; at `d` random change points the running actor's priority drops.
pub struct RandomWalk {
    pub rng: Rng,
    pub prio: Vec<u64>,
    pub change_at: Vec<usize>,
    pub env_prob_pct: u64,
    pub uniform: bool,
}

impl RandomWalk {
    pub fn new(seed: u64, nactors: usize, depth: usize, uniform: bool) -> Self {
        let mut rng = Rng(seed);
        let prio = (0..nactors).map(|_| rng.next() | (1 << 40)).collect();
        let change_at = (0..depth).map(|_| rng.below(60)).collect();
        RandomWalk { rng, prio, change_at, env_prob_pct: 12, uniform }
    }
}

impl Chooser for RandomWalk {
    fn choose(&mut self, v: &View) -> Option<Choice> {
        if !v.env.is_empty() && (v.ready.is_empty() || self.rng.next() % 100 < self.env_prob_pct) {
            return Some(Choice::Env(self.rng.below(v.env.len())));
        }
        if v.ready.is_empty() {
            return None;
        }
        if self.uniform {
            let k = self.rng.below(v.ready.len());
            return Some(Choice::Go(v.ready[k].0));
        }
        let best = v.ready.iter().max_by_key(|(a, _)| self.prio[*a]).unwrap().0;
        if self.change_at.contains(&v.nsteps) {
            self.prio[best] = self.rng.next() >> 24; // drop below the initial band
        }
        Some(Choice::Go(best))
    }
}

/// systematic exploration: follows a prefix of choice indices, then always takes choice 0;
/// records the number of alternatives at each step so the caller can enumerate.
pub struct Dfs {
    pub prefix: Vec<usize>,
    pub widths: Vec<usize>,
    pub taken: Vec<usize>,
}

impl Dfs {
    pub fn new(prefix: Vec<usize>) -> Self {
        Dfs { prefix, widths: vec![], taken: vec![] }
    }
}

impl Chooser for Dfs {
    fn choose(&mut self, v: &View) -> Option<Choice> {
        let n = v.ready.len() + v.env.len();
        if n == 0 {
            return None;
        }
        let k = self.widths.len();
        let c = if k < self.prefix.len() { self.prefix[k].min(n - 1) } else { 0 };
        self.widths.push(n);
        self.taken.push(c);
        if c < v.ready.len() {
            Some(Choice::Go(v.ready[c].0))
        } else {
            Some(Choice::Env(c - v.ready.len()))
        }
    }
}

pub fn trace_json(names: &[String], trace: &[Event]) -> Vec<Value> {
    trace.iter().map(|e| json!({"actor": names.get(e.actor).cloned().unwrap_or_default(), "site": e.site, "obj": e.obj, "a": e.a, "b": e.b})).collect()
}

pub fn schedule_json(s: &[Step]) -> Value {
    Value::Array(s.iter().map(|x| x.to_json()).collect())
}

pub fn parse_schedule(v: &Value) -> Vec<Step> {
    v.as_array().map(|a| a.iter().filter_map(Step::from_json).collect()).unwrap_or_default()
}

/// shared flag helper for scenario oracles
pub fn flag() -> Arc<AtomicBool> {
    Arc::new(AtomicBool::new(false))
}
pub fn set(f: &AtomicBool) {
    f.store(true, Ordering::SeqCst)
}
