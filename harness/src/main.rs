//! `mv` - conformance harness for the TLA+ specifications of may (see /verif/DESIGN.md).
//!
//!   mv <scenario> replay  <behaviours.json> [--out r.json] [--traces t.ndjson] [--replay-dir d]
//!   mv <scenario> explore <params.json> --seed S --n N [--uniform]
//!   mv <scenario> dfs     <params.json> --max N --pb K
//!   mv <scenario> one     <replay.json>
mod alloc;
mod ctrl;
mod driver;
mod run;
mod scen;

fn main() {
    let args: Vec<String> = std::env::args().collect();
    std::process::exit(run::main(&args));
}
