//! The controller installed into may's verification hooks: baton + shadow state + virtual clock.
//!
//! Every enrolled actor (plain thread or coroutine) that reaches an *enabled* verification
//! point blocks there until the driver releases it.  The driver releases one actor at a time and
//! waits until every actor is *settled* again (at a point, suspended, blocked in a thread park,
//! or finished), so the order of released points is the exact order of the operations that
//! follow them.
use std::cell::Cell;
use std::collections::HashMap;
use std::sync::atomic::{AtomicBool, Ordering};
use std::sync::{Condvar, Mutex, MutexGuard};
use std::time::{Duration, Instant};

#[derive(Clone, Debug, PartialEq)]
pub struct PointInfo {
    pub site: &'static str,
    pub obj: usize,
    pub a: usize,
    pub b: usize,
}

#[derive(Clone, Copy, Debug, PartialEq)]
pub enum CoSt {
    Queued,
    Running,
    Switching(usize),
    Suspended,
    Done,
}

#[derive(Clone, Debug, PartialEq)]
pub enum ASt {
    NotStarted,
    Running,
    AtPoint,
    /// thread blocked in ThreadPark (addr, timed)
    Blocked(usize, bool),
    /// thread blocked somewhere the harness declared (e.g. std::thread::park) - untimed
    Finished(bool),
}

pub struct Actor {
    pub name: String,
    pub is_co: bool,
    pub vid: usize,
    pub st: ASt,
    pub at: Option<PointInfo>,
    pub go: bool,
    pub worker: usize,
    pub steps: usize,
    /// not spawned by the driver: enrols itself when the code under test starts it
    pub external: bool,
    /// a coroutine this actor has resumed *on its own stack* (cqueue bottom halves): while it runs,
    /// the actor's progress is that coroutine's progress
    pub hosting: Option<usize>,
    /// a passive actor (a runtime thread) that has been released from a point and has not yet come to rest
    /// (next point, back in its idle wait, or held up by a coroutine it resumed on its own stack)
    pub passive_busy: bool,
    /// OS thread of a passive actor (as of its last point)
    pub tid: usize,
    /// a *kernel actor*: the kernel side (EventSource::subscribe, running on some worker after the
    /// stack switch) of coroutine actor `kernel_of`; active between co.switched and co.subscribed
    pub kernel_of: Option<usize>,
    pub kactive: usize,
    /// finished only when its coroutine is really done (co.done), not when its body returns: the
    /// epilogue of the coroutine (Join::trigger ...) stays under the baton
    pub fin_on_done: bool,
}

#[derive(Clone, Debug)]
pub struct Event {
    pub actor: usize,
    pub site: &'static str,
    pub obj: usize,
    pub a: usize,
    pub b: usize,
}

pub struct Inner {
    pub gating: bool,
    pub cats: Vec<&'static str>,
    pub actors: Vec<Actor>,
    pub by_vid: HashMap<usize, usize>,
    pub co: HashMap<usize, CoSt>,
    pub gen: usize,
    pub vclock: Option<u64>,
    pub timers: Vec<u64>,
    pub trace: Vec<Event>,
    pub notes: Vec<(usize, &'static str, usize, usize)>,
    pub want_notes: Vec<&'static str>,
    pub tp_unparked: HashMap<usize, bool>,
    pub change: u64,
    pub sb_new: usize,
    // kernel-side points: site prefixes whose `a` argument is the coroutine id of the actor
    pub kernel_cats: Vec<&'static str>,
    // sites executed by the runtime's timer thread, mapped onto this actor
    pub timer_actor: Option<usize>,
    /// categories whose points, when hit by a runtime thread that is no actor, belong to a passive actor
    pub passive: Vec<(&'static str, usize)>,
    /// a worker that `place` must not choose (the one whose selector serves the socket under test)
    pub avoid_worker: Option<usize>,
    // handshake with the runtime's timer thread (virtual clock): see `timer_quiet`
    pub tick_gen: u64,
    pub timer_read_gen: u64,
    pub timer_done_gen: u64,
    pub fired: usize,
    pub timer_parked: bool,
    /// the coroutine the timer thread has resumed on its own stack and not yet got back from
    pub timer_host_vid: Option<usize>,
    pub dbg_last_idle: (u64, usize),
    /// add_gen the latest timer that was due at once (deadline <= now when added) will have
    pub due_at_once: u64,
    pub timer_tid: usize,
    /// something outside the harness' view is under way (a helper thread that will write to a socket in 2 ms):
    /// no logical deadlock is declared meanwhile
    pub ext_pending: usize,
    /// the virtual sleep of the timer thread: the clock value it last read, when it wants to wake up, whether it
    /// has been unparked meanwhile, whether it sleeps
    pub timer_last_now: u64,
    pub timer_wake_at: u64,
    pub timer_token: bool,
    pub timer_sleeping: bool,
    /// workers chosen by `place` for a coroutine that has not been resumed there yet (vid 0 = the note is still to come)
    pub placed: Vec<(usize, usize)>,
    /// settle has waited long enough for a queued coroutine to be picked up (stolen) by some worker: from now on one
    /// that sits behind a worker occupied by an actor at a point counts as settled
    pub lenient_queued: bool,
    pub add_gen: u64,
    pub read_add_gen: u64,
    pub done_add_gen: u64,
    pub park_add_gen: u64,
    // which primitive owns a blocker (learnt at the primitive's `*.push` / `*.reg` point)
    pub owner: HashMap<usize, &'static str>,
    /// set by a scenario that has seen something after which continuing would be unsafe
    pub abort: bool,
    /// execution number: a thread that is still waking up from the previous execution must not be
    /// caught by the next one
    pub epoch: u64,
    /// OS thread -> kernel actor currently at work on it (between its first point and co.subscribed)
    pub kthread: HashMap<usize, (usize, usize)>, // OS thread -> (kernel slot actor, nesting depth)
}

pub struct Ctrl {
    pub m: Mutex<Inner>,
    pub cv: Condvar,
    pub gate: AtomicBool,
}

static NEXT_TID: std::sync::atomic::AtomicUsize = std::sync::atomic::AtomicUsize::new(1);
fn my_tid() -> usize {
    TID.with(|c| {
        if c.get() == 0 {
            c.set(NEXT_TID.fetch_add(1, Ordering::Relaxed));
        }
        c.get()
    })
}

thread_local! {
    static TID: Cell<usize> = const { Cell::new(0) };
    static ACTOR: Cell<usize> = const { Cell::new(usize::MAX) };
    static IS_TIMER: Cell<bool> = const { Cell::new(false) };
    static PASSIVE: Cell<usize> = const { Cell::new(usize::MAX) };
}

/// is the calling OS thread a thread actor?
static GLOBAL: std::sync::OnceLock<&'static Ctrl> = std::sync::OnceLock::new();
/// the controller, for helpers that are not handed one
pub fn global() -> Option<&'static Ctrl> {
    GLOBAL.get().copied()
}

pub fn is_actor_thread() -> bool {
    ACTOR.with(|c| c.get()) != usize::MAX
}

#[derive(Debug, Clone, PartialEq)]
pub enum Settled {
    /// at least one actor is at a point or everything finished; `at` lists (actor, point)
    Ready,
    /// nobody is at a point: every unfinished actor is suspended/blocked, nothing queued
    Quiet,
    AllFinished,
}

#[derive(Debug)]
pub struct ToolError(pub String);

pub fn cat_of(site: &str) -> &str {
    site.split('.').next().unwrap_or(site)
}

impl Ctrl {
    pub fn new() -> &'static Ctrl {
        let c = Box::leak(Box::new(Ctrl {
            m: Mutex::new(Inner {
                gating: false,
                cats: vec![],
                actors: vec![],
                by_vid: HashMap::new(),
                co: HashMap::new(),
                gen: 0,
                vclock: None,
                timers: vec![],
                trace: vec![],
                notes: vec![],
                want_notes: vec![],
                tp_unparked: HashMap::new(),
                change: 0,
                sb_new: 0,
                kernel_cats: vec![],
                timer_actor: None,
                passive: vec![],
                avoid_worker: None,
                tick_gen: 0,
                timer_read_gen: 0,
                timer_done_gen: 0,
                fired: 0,
                timer_parked: false,
                timer_host_vid: None,
                dbg_last_idle: (0, 0),
                due_at_once: 0,
                timer_tid: 0,
                ext_pending: 0,
                timer_last_now: 0,
                timer_wake_at: 0,
                timer_token: false,
                timer_sleeping: false,
                placed: vec![],
                lenient_queued: false,
                add_gen: 0,
                read_add_gen: 0,
                done_add_gen: 0,
                park_add_gen: 0,
                owner: HashMap::new(),
                abort: false,
                epoch: 0,
                kthread: HashMap::new(),
            }),
            cv: Condvar::new(),
            gate: AtomicBool::new(false),
        }));
        may::verif::install(c);
        let _ = GLOBAL.set(c);
        c
    }

    pub fn lock(&self) -> MutexGuard<'_, Inner> {
        match self.m.lock() {
            Ok(g) => g,
            Err(p) => p.into_inner(),
        }
    }

    /// start a fresh execution: forget actors, enable categories
    pub fn begin(&self, cats: &[&'static str], actors: &[(&str, bool, bool)], use_vclock: bool) {
        let mut g = self.lock();
        g.gating = true;
        self.gate.store(true, Ordering::SeqCst);
        g.cats = cats.to_vec();
        g.actors = actors
            .iter()
            .map(|(n, is_co, external)| Actor {
                name: n.to_string(),
                is_co: *is_co,
                vid: 0,
                st: ASt::NotStarted,
                at: None,
                go: false,
                worker: usize::MAX,
                steps: 0,
                external: *external,
                hosting: None,
                passive_busy: false,
                tid: 0,
                kernel_of: None,
                kactive: 0,
                fin_on_done: false,
            })
            .collect();
        g.by_vid.clear();
        g.co.retain(|_, s| *s != CoSt::Done);
        g.vclock = if use_vclock { Some(g.vclock.unwrap_or(1_000_000_000)) } else { None };
        g.fired = 0;
        g.owner.clear();
        g.abort = false;
        g.epoch += 1;
        g.kthread.clear();
        g.timers.clear();
        g.ext_pending = 0;
        g.timer_token = true; // let the timer thread look at the world of the new execution
        g.placed.clear();
        g.timer_host_vid = None;
        g.trace.clear();
        g.notes.clear();
        g.tp_unparked.clear();
        g.sb_new = 0;
        g.timer_actor = None;
        g.passive.clear();
        g.kernel_cats.clear();
    }

    /// end of an execution: everything passes through again
    pub fn end(&self) {
        let mut g = self.lock();
        g.gating = false;
        self.gate.store(false, Ordering::SeqCst);
        for a in g.actors.iter_mut() {
            a.go = true;
        }
        g.change += 1;
        self.cv.notify_all();
    }

    pub fn enroll_thread(&self, actor: usize) {
        ACTOR.with(|c| c.set(actor));
        let mut g = self.lock();
        g.actors[actor].st = ASt::Running;
        g.change += 1;
        self.cv.notify_all();
    }

    pub fn enroll_co(&self, actor: usize) {
        let vid = may::verif::cur_vid();
        assert!(vid != 0, "enroll_co outside a coroutine");
        let mut g = self.lock();
        g.actors[actor].vid = vid;
        g.actors[actor].st = ASt::Running;
        g.actors[actor].worker = may::verif::worker_id();
        g.by_vid.insert(vid, actor);
        g.co.insert(vid, CoSt::Running);
        g.change += 1;
        self.cv.notify_all();
    }

    /// like enroll_co, but the actor counts as finished only at `co.done`
    pub fn enroll_co_until_done(&self, actor: usize) {
        self.enroll_co(actor);
        self.lock().actors[actor].fin_on_done = true;
    }

    pub fn finished(&self, actor: usize, panicked: bool) {
        let mut g = self.lock();
        if actor < g.actors.len() {
            g.actors[actor].st = ASt::Finished(panicked);
            g.change += 1;
        }
        self.cv.notify_all();
    }

    fn resolve(&self, g: &Inner, site: &'static str, a: usize) -> Option<usize> {
        let cat = cat_of(site);
        if g.kernel_cats.iter().any(|c| *c == cat) {
            let co_actor = g.by_vid.get(&a).copied()?;
            // a dedicated kernel actor, if the scenario declared one: the slot at work on this thread
            // kernel code is attributed to the kernel slot at work on this OS thread (nested activations
            // on one thread are sequential, hence the same actor)
            if let Some((k, _)) = g.kthread.get(&my_tid()).copied() {
                return Some(k);
            }
            if g.actors.iter().any(|x| x.kernel_of == Some(co_actor)) {
                return None; // a slot exists but none is mapped to this thread: not under the baton
            }
            return Some(co_actor);
        }
        let vid = may::verif::cur_vid();
        if vid != 0 {
            return g.by_vid.get(&vid).copied();
        }
        let t = ACTOR.with(|c| c.get());
        if t != usize::MAX && t < g.actors.len() && !g.actors[t].is_co {
            return Some(t);
        }
        if cat == "cancel" {
            // `cancel.cancel()` called inline by the kernel side of a yield (the re-check in subscribe): a step of the
            // kernel slot at work on this thread
            if let Some((k, _)) = g.kthread.get(&my_tid()).copied() {
                return Some(k);
            }
        }
        if cat == "timer" {
            return g.timer_actor;
        }
        if let Some((_, a)) = g.passive.iter().find(|(c, _)| *c == cat) {
            return Some(*a);
        }
        None
    }

    pub fn set_avoid_worker(&self, w: Option<usize>) {
        self.lock().avoid_worker = w;
    }

    // ---- driver side -------------------------------------------------------------------

    /// the timer thread is in its (virtual) timed sleep and has no reason to wake up: its wake-up time is ahead and
    /// nobody has unparked it
    fn timer_asleep(x: &Inner) -> bool {
        x.timer_sleeping && !x.timer_token && x.vclock.map_or(false, |t| t < x.timer_wake_at)
    }

    /// the timer thread cannot look at the clock now: it is stopped at one of its own points, or it runs a
    /// coroutine it has resumed (or the kernel side of that coroutine's next yield) which is stopped at a point
    fn timer_held(x: &Inner) -> bool {
        if x.actors.iter().any(|a| a.st == ASt::AtPoint && a.at.as_ref().map_or(false, |p| p.site.starts_with("timer."))) {
            return true;
        }
        if x.timer_host_vid.map_or(false, |v| x.by_vid.get(&v).map_or(false, |i| matches!(x.actors[*i].st, ASt::AtPoint | ASt::Finished(_)))) {
            return true;
        }
        if let Some((k, _)) = x.kthread.get(&x.timer_tid) {
            if x.actors[*k].st == ASt::AtPoint {
                return true;
            }
        }
        false
    }

    fn settled_one(g: &Inner, i: usize) -> bool {
        let a = &g.actors[i];
        if a.hosting.is_some() {
            return true;
        }
        if a.passive_busy {
            // its thread may be held up by the kernel side of a yield that runs on it and is stopped at a point
            // (the coroutine it resumed has yielded again: that subscribe runs on this thread)
            if let Some((k, _)) = g.kthread.get(&a.tid) {
                // (... or which has itself resumed the coroutine again on this stack - fast_schedule - and waits for it)
                if g.actors[*k].st == ASt::AtPoint || g.actors[*k].hosting.is_some() {
                    return true;
                }
            }
            return false;
        }
        if a.kernel_of.is_some() {
            // buried under a nested activation on its own thread (fast_wake_up resumed the coroutine,
            // which yielded again): it goes on only when that one is done
            return a.st == ASt::AtPoint || a.kactive == 0;
        }
        match a.st {
            ASt::AtPoint | ASt::Finished(_) => true,
            ASt::Blocked(addr, timed) => !timed && !g.tp_unparked.get(&addr).copied().unwrap_or(false),
            ASt::NotStarted => a.external,
            ASt::Running => {
                if a.is_co && a.vid != 0 {
                    match g.co.get(&a.vid) {
                        Some(CoSt::Suspended) => true,
                        // switched out, its kernel side is an actor of its own
                        Some(CoSt::Switching(_)) => g.actors.iter().any(|x| x.kernel_of == Some(i)),
                        // queued on a worker whose thread is occupied by an actor that is stopped at a point (it got there
                        // after the placement): it runs once that actor has been released
                        Some(CoSt::Queued) => g.lenient_queued && g.placed.iter().any(|p| p.0 == a.vid && g.actors.iter().enumerate().any(|(j, x)| j != i && x.st == ASt::AtPoint && x.worker == p.1)),
                        _ => false,
                    }
                } else {
                    false
                }
            }
        }
    }

    /// wait until every actor is settled; classify the situation
    pub fn settle(&self, watchdog_s: u64) -> Result<Settled, ToolError> {
        let start = Instant::now();
        let mut g = self.lock();
        loop {
            if g.abort {
                return Ok(Settled::Quiet);
            }
            let n = g.actors.len();
            g.lenient_queued = start.elapsed() > Duration::from_millis(150);
            let mut all = (0..n).all(|i| Self::settled_one(&g, i));
            g.lenient_queued = false;
            // a timer that was added (possibly due at once: a zero time-out) and that the timer thread has not
            // looked at yet: it may fire without the clock moving
            if all && g.vclock.is_some() {
                let seen = g.done_add_gen >= g.add_gen || (g.timer_parked && g.park_add_gen == g.add_gen) || Self::timer_asleep(&g);
                if !seen && g.due_at_once > g.done_add_gen && !Self::timer_held(&g) && start.elapsed() < Duration::from_millis(200) {
                    all = false;
                }
            }
            // a coroutine the code under test has spawned but that has not started (not enrolled) yet is
            // on its way to become one of the external actors: wait for it
            if all && g.actors.iter().any(|a| a.external && a.kernel_of.is_none() && a.st == ASt::NotStarted) {
                let orphan = g.co.iter().any(|(vid, st)| !g.by_vid.contains_key(vid) && matches!(st, CoSt::Queued | CoSt::Running | CoSt::Switching(_)));
                if orphan {
                    all = false;
                }
            }
            if all {
                if g.actors.iter().all(|a| matches!(a.st, ASt::Finished(_)) || (a.kernel_of.is_some() && a.kactive == 0)) {
                    return Ok(Settled::AllFinished);
                }
                if g.actors.iter().any(|a| a.st == ASt::AtPoint) {
                    return Ok(Settled::Ready);
                }
                // nobody at a point: quiet (possibly stuck, see confirm_stuck)
                return Ok(Settled::Quiet);
            }
            if start.elapsed() > Duration::from_secs(watchdog_s) {
                let desc: Vec<String> = g
                    .actors
                    .iter()
                    .map(|a| format!("{}:{:?}:{:?}:k{}:h{:?}:w{}:{}", a.name, a.st, g.co.get(&a.vid), a.kactive, a.hosting, a.worker as isize, a.at.as_ref().map_or("", |p| p.site)))
                    .collect();
                let tail: Vec<String> = g.notes.iter().rev().take(40).map(|n| format!("{}:{}:{:x}", n.0 as isize, n.1, n.2)).collect();
                let dbg: Vec<String> = crate::run::DBG.lock().unwrap().iter().rev().take(12).cloned().collect();
                return Err(ToolError(format!("watchdog: actors never settled: {desc:?} kthread={:?} timer_host={:?} parked={} notes(newest first)={tail:?} dbg(newest first)={dbg:?}", g.kthread, g.timer_host_vid, g.timer_parked)));
            }
            let (g2, _) = self
                .cv
                .wait_timeout(g, Duration::from_millis(50))
                .unwrap_or_else(|p| p.into_inner());
            g = g2;
        }
    }

    /// the quiet state persists with no change at all for `stable_ms`: a logical deadlock
    pub fn confirm_stuck(&self, stable_ms: u64) -> bool {
        let g = self.lock();
        let ch = g.change;
        let (g, to) = self
            .cv
            .wait_timeout_while(g, Duration::from_millis(stable_ms), |x| x.change == ch)
            .unwrap_or_else(|p| p.into_inner());
        let n = g.actors.len();
        let orphan = g.actors.iter().any(|a| a.external && a.kernel_of.is_none() && a.st == ASt::NotStarted)
            && g.co.iter().any(|(vid, st)| !g.by_vid.contains_key(vid) && matches!(st, CoSt::Queued | CoSt::Running | CoSt::Switching(_)));
        to.timed_out()
            && g.change == ch
            && g.ext_pending == 0
            && !orphan
            && (0..n).all(|i| Self::settled_one(&g, i))
            && !g.actors.iter().any(|a| a.st == ASt::AtPoint)
    }

    /// after an execution: runtime threads that were released from a point when the gating ended get time to
    /// finish that step, so that it does not fall into the next execution
    pub fn wait_passive_idle(&self, max_ms: u64) {
        let g = self.lock();
        let _ = self
            .cv
            .wait_timeout_while(g, Duration::from_millis(max_ms), |x| x.actors.iter().any(|a| a.passive_busy))
            .unwrap_or_else(|p| p.into_inner());
    }

    pub fn change_count(&self) -> u64 {
        self.lock().change as u64
    }

    pub fn timer_is_held(&self) -> bool {
        Self::timer_held(&self.lock())
    }

    pub fn ext_pending(&self, delta: isize) {
        let mut g = self.lock();
        g.ext_pending = (g.ext_pending as isize + delta).max(0) as usize;
        g.change += 1;
        self.cv.notify_all();
    }

    /// declare actor `k` to be the kernel side of coroutine actor `of`
    pub fn set_kernel_of(&self, k: usize, of: usize) {
        self.lock().actors[k].kernel_of = Some(of);
    }

    /// is the kernel side of an earlier yield of coroutine actor `i` still at work?
    pub fn kernel_busy_of(&self, i: usize) -> bool {
        let g = self.lock();
        let vid = g.actors[i].vid;
        // (a kernel slot that has resumed the coroutine on its own stack waits for it, not the other way round)
        // nor is a coroutine held back that somebody else (e.g. a poller running its bottom half) has resumed on
        // their own stack: that is real concurrency with the kernel side
        if vid != 0 && g.actors.iter().any(|x| x.kernel_of != Some(i) && x.hosting == Some(vid)) {
            return false;
        }
        g.actors.iter().enumerate().any(|(j, x)| j != i && x.kernel_of == Some(i) && (x.kactive > 0 || x.st == ASt::AtPoint) && !(vid != 0 && x.hosting == Some(vid)))
    }

    /// a kernel slot stopped at a point although the coroutine it works for has finished
    pub fn kernel_outlives(&self) -> Option<String> {
        let g = self.lock();
        for x in g.actors.iter() {
            if let Some(i) = x.kernel_of {
                if x.st == ASt::AtPoint && i < g.actors.len() && g.actors[i].is_co && matches!(g.actors[i].st, ASt::Finished(_)) {
                    let site = x.at.as_ref().map_or("", |p| p.site);
                    return Some(format!("use after free: the kernel side of a yield of {} is still at work (next step: {site}) although the coroutine has been resumed by somebody else, has run to its end and has dropped the socket this code refers to", g.actors[i].name));
                }
            }
        }
        None
    }

    pub fn kernel_idle(&self, k: usize) -> bool {
        let g = self.lock();
        g.actors[k].kernel_of.is_some() && g.actors[k].kactive == 0
    }

    pub fn kernel_active(&self, k: usize) -> bool {
        let g = self.lock();
        g.actors[k].kactive > 0
    }

    pub fn abort_run(&self) {
        let mut g = self.lock();
        g.abort = true;
        g.change += 1;
        self.cv.notify_all();
    }

    pub fn aborted(&self) -> bool {
        self.lock().abort
    }

    pub fn at_points(&self) -> Vec<(usize, PointInfo)> {
        let g = self.lock();
        g.actors
            .iter()
            .enumerate()
            .filter(|(_, a)| a.st == ASt::AtPoint)
            .map(|(i, a)| (i, a.at.clone().unwrap()))
            .collect()
    }

    pub fn release(&self, actor: usize) {
        let mut g = self.lock();
        let is_timer = g.timer_actor == Some(actor);
        let a = &mut g.actors[actor];
        assert!(a.st == ASt::AtPoint);
        a.go = true;
        a.st = ASt::Running;
        if a.kernel_of == Some(actor) && is_timer {
            // the timer thread is at work from this moment on, not only once it has woken up (else the driver could
            // see it "settled" in between and let somebody else overtake its step).  Not for the event loops: several
            // worker threads share the one passive actor "sel", and with the flag set here executions of the io
            // scenario ended as false "missed readiness" (2 of 4 runs of C18; not understood, reverted for them)
            a.passive_busy = true;
        }
        a.steps += 1;
        let p = a.at.take().unwrap();
        g.trace.push(Event { actor, site: p.site, obj: p.obj, a: p.a, b: p.b });
        g.change += 1;
        self.cv.notify_all();
    }

    /// environment actions are part of the recorded trace
    pub fn log_env(&self, what: &str, arg: &str, names: &[String]) {
        let site: &'static str = match what {
            "cancel" => "!cancel",
            "tick" => "!tick",
            _ => "!env",
        };
        let actor = names.iter().position(|n| n == arg).unwrap_or(usize::MAX);
        self.lock().trace.push(Event { actor, site, obj: 0, a: 0, b: 0 });
    }

    pub fn advance_clock(&self, to: u64) {
        let mut g = self.lock();
        if let Some(t) = g.vclock {
            if to > t {
                g.vclock = Some(to);
            }
        }
        g.tick_gen += 1;
        g.change += 1;
    }

    /// after a tick: wait (bounded) until the timer thread has looked at the new time and is idle
    /// again, or some actor moved
    pub fn timer_quiet(&self, max_ms: u64, fired_before: usize) -> bool {
        let g = self.lock();
        let (g, to) = self
            .cv
            .wait_timeout_while(g, Duration::from_millis(max_ms), |x| {
                let parked_quiet = x.timer_parked && x.park_add_gen == x.add_gen;
                let polled_quiet = (x.timer_done_gen >= x.tick_gen && x.done_add_gen >= x.add_gen) || Self::timer_asleep(x);
                // the timer thread may also be stopped at one of its own points (it is an actor then) or held up
                let at_point = Self::timer_held(x);
                !parked_quiet && !polled_quiet && !at_point && x.fired == fired_before
            })
            .unwrap_or_else(|p| p.into_inner());
        drop(g);
        !to.timed_out()
    }

    /// after a timer has fired: wait (bounded) until the timer thread is through with everything that is
    /// due at the new time, or is held up by the coroutine it resumed (which stopped at a point)
    pub fn timer_drain(&self, max_ms: u64) {
        let g = self.lock();
        let _ = self
            .cv
            .wait_timeout_while(g, Duration::from_millis(max_ms), |x| {
                let parked_quiet = x.timer_parked && x.park_add_gen == x.add_gen;
                let polled_quiet = (x.timer_done_gen >= x.tick_gen && x.done_add_gen >= x.add_gen) || Self::timer_asleep(x);
                !parked_quiet && !polled_quiet && !Self::timer_held(x)
            })
            .unwrap_or_else(|p| p.into_inner());
    }

    pub fn vnow(&self) -> Option<u64> {
        self.lock().vclock
    }

    pub fn next_timer(&self) -> Option<u64> {
        let mut g = self.lock();
        let now = g.vclock?;
        g.timers.retain(|t| *t > now);
        g.timers.iter().min().copied()
    }

    /// the sites passed so far in this execution, in order
    pub fn sites_so_far(&self) -> Vec<&'static str> {
        self.lock().trace.iter().map(|e| e.site).collect()
    }

    pub fn take_trace(&self) -> Vec<Event> {
        std::mem::take(&mut self.lock().trace)
    }

    pub fn actor_is_co(&self, i: usize) -> bool {
        self.lock().actors[i].is_co
    }

    pub fn actor_state(&self, i: usize) -> (ASt, Option<CoSt>) {
        let g = self.lock();
        (g.actors[i].st.clone(), g.co.get(&g.actors[i].vid).copied())
    }
}

impl may::verif::Controller for Ctrl {
    fn point(&self, site: &'static str, obj: usize, a: usize, b: usize) {
        if !self.gate.load(Ordering::Relaxed) {
            return;
        }
        let mut g = self.lock();
        if !g.gating {
            return;
        }
        let mut cat = cat_of(site);
        // SyncBlockers are registered at `*.push` points, plain Blockers at `*.reg` points; a
        // SyncBlocker and the Blocker inside it may share an address, hence the tag bit
        if a != 0 && site.ends_with(".push") {
            g.owner.insert(a, cat);
        } else if a != 0 && site.ends_with(".reg") {
            g.owner.insert(a | 1, cat);
        }
        if cat == "sb" {
            // points inside (Sync)Blocker belong to the primitive that owns the blocker
            cat = g.owner.get(&obj).copied().unwrap_or(cat);
        } else if cat == "blk" {
            cat = g.owner.get(&(obj | 1)).copied().unwrap_or(cat);
        }
        // an entry of `cats` is a category or one full site name
        if !g.cats.iter().any(|c| *c == cat || *c == site) {
            return;
        }
        let Some(me) = self.resolve(&g, site, a) else { return };
        if matches!(g.actors[me].st, ASt::Finished(_)) {
            return;
        }

        g.actors[me].st = ASt::AtPoint;
        g.actors[me].passive_busy = false;
        let is_passive = g.actors[me].kernel_of == Some(me);
        if is_passive {
            PASSIVE.with(|c| c.set(me));
            g.actors[me].tid = my_tid();
        }
        g.actors[me].at = Some(PointInfo { site, obj, a, b });
        g.actors[me].worker = may::verif::worker_id();
        g.change += 1;
        self.cv.notify_all();
        let epoch = g.epoch;
        while g.epoch == epoch && g.gating && !g.actors.get(me).map_or(true, |x| x.go) {
            g = self.cv.wait(g).unwrap_or_else(|p| p.into_inner());
        }
        if g.epoch != epoch {
            return;
        }
        if let Some(x) = g.actors.get_mut(me) {
            x.go = false;
            if x.st == ASt::AtPoint {
                x.st = ASt::Running;
                x.at = None;
            }
            if is_passive {
                x.passive_busy = true;
            }
        }
    }

    fn note(&self, kind: &'static str, a: usize, b: usize) -> usize {
        let mut g = self.lock();
        let mut ret = 0;
        // the actor (if any) on whose stack this note is emitted
        let ctx: Option<usize> = {
            let vid = may::verif::cur_vid();
            if vid != 0 {
                g.by_vid.get(&vid).copied()
            } else {
                let t = ACTOR.with(|c| c.get());
                if t != usize::MAX && t < g.actors.len() && !g.actors[t].is_co && g.actors[t].kernel_of.is_none() {
                    Some(t)
                } else {
                    g.kthread.get(&my_tid()).map(|x| x.0)
                }
            }
        };
        match kind {
            "co.sched" => {
                g.co.insert(a, CoSt::Queued);
                // the reservation made by `place` now has an owner
                if let Some(p) = g.placed.iter_mut().find(|p| p.0 == 0 && p.1 == b) {
                    p.0 = a;
                }
            }
            "co.resume" => {
                g.co.insert(a, CoSt::Running);
                g.placed.retain(|p| p.0 != a);
                // the worker it occupies from now on (it may have been stolen)
                let w = may::verif::worker_id();
                if let Some(i) = g.by_vid.get(&a).copied() {
                    g.actors[i].worker = w;
                }
                // resumed from inside an actor (nested on its stack)?
                if let Some(h) = ctx {
                    if g.gating {
                        g.actors[h].hosting = Some(a);
                    }
                } else {
                    // ... or by a passive actor (timer thread, event loop) that is in the middle of its step
                    let p = PASSIVE.with(|c| c.get());
                    if g.gating && p != usize::MAX && p < g.actors.len() && g.actors[p].passive_busy && may::verif::cur_vid() == 0 {
                        g.actors[p].hosting = Some(a);
                    }
                }
            }
            "co.switched" => {
                if g.timer_host_vid == Some(a) {
                    g.timer_host_vid = None; // the timer thread has its stack back
                }
                g.gen += 1;
                ret = g.gen;
                g.co.insert(a, CoSt::Switching(ret));
                let t = my_tid();
                if let Some(ca) = g.by_vid.get(&a).copied() {
                    if let Some(e) = g.kthread.get_mut(&t) {
                        e.1 += 1; // nested activation on a thread that already runs kernel code
                    } else if let Some(k) = g.actors.iter().position(|x| x.kernel_of == Some(ca) && x.kactive == 0 && x.st != ASt::AtPoint) {
                        g.actors[k].kactive = 1;
                        g.actors[k].st = ASt::Running;
                        g.kthread.insert(t, (k, 1));
                    }
                }
                // a kernel slot that had resumed this coroutine on its own stack goes on now
                if let Some(h) = ctx {
                    if g.actors[h].kernel_of.is_some() && g.actors[h].hosting == Some(a) {
                        g.actors[h].hosting = None;
                    }
                }
            }
            "co.subscribed" => {
                if std::env::var("MV_DEBUG2").is_ok() {
                    eprintln!("    subscribed vid={a:x} gen={b} tid={} stack={:?}", my_tid(), g.kthread.get(&my_tid()));
                }
                if g.co.get(&a) == Some(&CoSt::Switching(b)) {
                    g.co.insert(a, CoSt::Suspended);
                }
                {
                    let t = my_tid();
                    if let Some((k, d)) = g.kthread.get(&t).copied() {
                        if d <= 1 {
                            g.actors[k].kactive = 0;
                            g.kthread.remove(&t);
                        } else {
                            g.kthread.insert(t, (k, d - 1));
                        }
                    }
                }
                // the kernel side of the nested coroutine's yield ran on the host's stack: now the host goes on
                // (only if this subscribe ran on the host's own stack: an earlier yield's kernel side may
                // finish late on another thread)
                if let Some(h) = ctx {
                    if g.actors[h].hosting == Some(a) {
                        g.actors[h].hosting = None;
                    }
                } else {
                    let p = PASSIVE.with(|c| c.get());
                    if p != usize::MAX && p < g.actors.len() && g.actors[p].hosting == Some(a) {
                        g.actors[p].hosting = None;
                    }
                }
            }
            "co.done" => {
                g.co.insert(a, CoSt::Done);
                if let Some(i) = g.by_vid.get(&a).copied() {
                    if g.actors[i].fin_on_done && g.actors[i].vid == a {
                        g.actors[i].st = ASt::Finished(false);
                    }
                }
                for x in g.actors.iter_mut() {
                    if x.hosting == Some(a) {
                        x.hosting = None;
                    }
                }
                let _ = ctx;
            }
            "timer.add" => {
                if g.vclock.is_some() {
                    g.timers.push(a as u64);
                    if a as u64 <= g.vclock.unwrap_or(0) {
                        g.due_at_once = g.add_gen + 1;
                    }
                    if g.gating {
                        crate::run::dbg(format!("add_timer at {:?}: due {a} interval {b}", g.vclock));
                    }
                }
            }
            "sel.idle" => {
                // a worker is back in epoll_wait: if it is a passive actor, its step is complete
                let p = PASSIVE.with(|c| c.get());
                if p != usize::MAX && p < g.actors.len() && g.actors[p].passive_busy {
                    g.actors[p].passive_busy = false;
                    g.change += 1;
                }
            }
            "timer.wakeup" => {
                g.timer_token = true;
                g.change += 1;
            }
            "timer.poll" => {
                // outside an execution the thread simply polls; inside it wakes when its time has come or on an unpark
                let due = g.vclock.map_or(true, |t| t >= g.timer_wake_at);
                if !g.gating || g.timer_token || due {
                    g.timer_token = false;
                    g.timer_sleeping = false;
                    ret = 1;
                }
            }
            "timer.thread" => {
                IS_TIMER.with(|c| c.set(true));
                g.timer_tid = my_tid();
            }
            "timer.added" => {
                g.add_gen += 1;
            }
            "timer.idle" => {
                if g.gating && (g.dbg_last_idle != (g.vclock.unwrap_or(0), a) || g.timer_done_gen < g.tick_gen) {
                    g.dbg_last_idle = (g.vclock.unwrap_or(0), a);
                    crate::run::dbg(format!("timer thread idle at {:?}: next expiry in {a} ns (read_gen {} tick_gen {})", g.vclock, g.timer_read_gen, g.tick_gen));
                }
                g.timer_done_gen = g.timer_read_gen;
                g.done_add_gen = g.read_add_gen;
                g.timer_host_vid = None;
                if let Some(t) = g.timer_actor {
                    g.actors[t].passive_busy = false;
                }
                g.timer_wake_at = g.timer_last_now + a as u64;
                g.timer_sleeping = true;
                ret = g.vclock.is_some() as usize;
            }
            "timer.park" => {
                g.timer_done_gen = g.timer_read_gen;
                g.done_add_gen = g.read_add_gen;
                g.park_add_gen = g.read_add_gen;
                g.timer_parked = true;
                g.timer_host_vid = None;
                if let Some(t) = g.timer_actor {
                    g.actors[t].passive_busy = false;
                }
            }
            "timer.unpark" => {
                g.timer_parked = false;
            }
            "timer.fire" => {
                // the coroutine has been taken out of its slot and is about to be resumed on the
                // timer thread: it is no longer suspended
                g.fired += 1;
                g.co.insert(a, CoSt::Queued);
                g.timer_host_vid = Some(a);
            }
            "tp.wait" => {
                // emitted under the ThreadPark lock with no token pending: an unpark recorded for this
                // address belongs to an earlier blocker that lived at the same address
                g.tp_unparked.insert(a, false);
                let t = ACTOR.with(|c| c.get());
                if t != usize::MAX && t < g.actors.len() && !g.actors[t].is_co && g.gating {
                    if g.actors[t].st == ASt::Running {
                        g.actors[t].st = ASt::Blocked(a, b != 0);
                    }
                }
            }
            "tp.wake" => {
                let t = ACTOR.with(|c| c.get());
                g.tp_unparked.insert(a, false);
                if t != usize::MAX && t < g.actors.len() && !g.actors[t].is_co {
                    if matches!(g.actors[t].st, ASt::Blocked(..)) {
                        g.actors[t].st = ASt::Running;
                    }
                }
            }
            "tp.unpark" => {
                g.tp_unparked.insert(a, true);
            }
            "sb.new" => {
                g.sb_new += 1;
            }
            "th.park" => {
                let t = ACTOR.with(|c| c.get());
                if t != usize::MAX && t < g.actors.len() && !g.actors[t].is_co && g.gating && g.actors[t].st == ASt::Running {
                    g.actors[t].st = ASt::Blocked(a | (1 << 62), false);
                }
            }
            "th.wake" => {
                let t = ACTOR.with(|c| c.get());
                g.tp_unparked.insert(a | (1 << 62), false);
                if t != usize::MAX && t < g.actors.len() && !g.actors[t].is_co && matches!(g.actors[t].st, ASt::Blocked(..)) {
                    g.actors[t].st = ASt::Running;
                }
            }
            "th.unpark" => {
                g.tp_unparked.insert(a | (1 << 62), true);
            }
            _ => {}
        }
        if g.want_notes.iter().any(|k| *k == kind) {
            let who = {
                let vid = may::verif::cur_vid();
                if vid != 0 {
                    g.by_vid.get(&vid).copied().unwrap_or(usize::MAX)
                } else {
                    ACTOR.with(|c| c.get())
                }
            };
            g.notes.push((who, kind, a, b));
        }
        if !matches!(kind, "timer.idle" | "timer.park" | "timer.unpark" | "timer.thread" | "timer.added" | "sb.new" | "sel.idle") {
            g.change += 1;
        }
        self.cv.notify_all();
        ret
    }

    fn now_ns(&self) -> Option<u64> {
        let mut g = self.lock();
        if IS_TIMER.with(|c| c.get()) {
            if g.gating && g.timer_read_gen != g.tick_gen {
                crate::run::dbg(format!("timer thread reads the clock: {:?} (tick_gen {})", g.vclock, g.tick_gen));
            }
            g.timer_read_gen = g.tick_gen;
            g.read_add_gen = g.add_gen;
            g.timer_last_now = g.vclock.unwrap_or(0);
        }
        g.vclock
    }

    fn place(&self, dflt: usize, workers: usize) -> usize {
        let mut g = self.lock();
        if !g.gating {
            return dflt;
        }
        // a worker whose coroutine is stopped at a point is blocked, and so is everything queued behind
        // it in its global queue (which nobody steals from): avoid workers that hold an actor, and
        // workers that are about to get one
        let mut held: Vec<usize> = g
            .actors
            .iter()
            .filter(|a| ((a.is_co && matches!(a.st, ASt::AtPoint | ASt::Running)) || (a.kernel_of.is_some() && (a.st == ASt::AtPoint || a.kactive > 0))) && a.worker != usize::MAX)
            .map(|a| a.worker)
            .collect();
        held.extend(g.placed.iter().map(|p| p.1));
        held.extend(g.avoid_worker.iter().copied());
        let mut pick = dflt;
        for k in 0..workers {
            let w = (dflt + k) % workers;
            if !held.contains(&w) {
                pick = w;
                break;
            }
        }
        crate::run::dbg(format!("place dflt={dflt} held={held:?} -> {pick}"));
        g.placed.push((0, pick));
        if g.placed.len() > 64 {
            g.placed.remove(0);
        }
        pick
    }
}
