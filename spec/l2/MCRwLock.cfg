\* clean lock, code as written: passes.  InitPoison = TRUE exposes F1 (Prog <- P1) and F2 (Prog <- P2).
SPECIFICATION Spec
CONSTANTS
  Actors = {"a1","a2","a3"}
  Prog <- P3
  InitPoison = FALSE
  Fix1 = FALSE
  Fix2 = FALSE
INVARIANTS RWExclusion NothingBad GuardsBalance
CHECK_DEADLOCK TRUE
