----------------------------- MODULE MCSyncFlag -----------------------------
(* Model-checking / behaviour-export wrapper of SyncFlag.tla (see MCMutex.tla). *)
EXTENDS SyncFlag
VARIABLE last
F3 == [a \in Actors |-> CASE a = "a1" -> <<"twait", "wait">> [] a = "a2" -> <<"wait">> [] OTHER -> <<"fire", "wait">>]
F4 == [a \in Actors |-> CASE a = "a1" -> <<"twait", "wait">> [] a = "a2" -> <<"wait">> [] a = "a3" -> <<"twait">> [] OTHER -> <<"fire", "wait">>]
D == [a \in Actors |-> CASE a = "a1" -> 1 [] a = "a2" -> 2 [] OTHER -> 3]
MCInit == Init /\ last = <<"", "", -1>>
MCNext ==
  \/ \E a \in Actors : Step(a) /\ last' = <<a, pc[a], Obs(a)>>
  \/ \E a \in Actors : Internal(a) /\ last' = <<"~", a, -1>>
  \/ \E a \in Actors : Cancel(a) /\ last' = <<"!cancel", a, -1>>
  \/ Tick /\ last' = <<"!tick", "", -1>>
  \/ Terminal /\ UNCHANGED last
MCSpec == MCInit /\ [][MCNext]_<<vars, last>>
\* behaviours realizable under the baton: internal steps are urgent (they complete before anybody else
\* moves).  Used for behaviour export only; the exhaustive check explores MCSpec, a superset.
MCNextU ==
  IF \E a \in Actors : pc[a] \in InternalPcs
    THEN \E a \in Actors : Internal(a) /\ last' = <<"~", a, -1>>
    ELSE \/ \E a \in Actors : Step(a) /\ last' = <<a, pc[a], Obs(a)>>
         \/ \E a \in Actors : Cancel(a) /\ last' = <<"!cancel", a, -1>>
         \/ Tick /\ last' = <<"!tick", "", -1>>
         \/ Terminal /\ UNCHANGED last
MCSpecU == MCInit /\ [][MCNextU]_<<vars, last>>
View == vars
=============================================================================
