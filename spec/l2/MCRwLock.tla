---- MODULE MCRwLock ----
EXTENDS RwLock
P1 == [a \in {"a1", "a2"} |-> IF a = "a1" THEN "try_read" ELSE "write"]
P2 == [a \in {"a1", "a2"} |-> "write"]
P3 == [a \in {"a1", "a2", "a3"} |-> IF a = "a1" THEN "try_read" ELSE IF a = "a2" THEN "read" ELSE "write"]
P4 == [a \in {"a1", "a2", "a3"} |-> IF a = "a1" THEN "try_write" ELSE IF a = "a2" THEN "read" ELSE "write"]
====
