------------------------------ MODULE MCRwLock ------------------------------
(* Model-checking / behaviour-export wrapper of RwLock.tla (see MCMutex.tla). *)
EXTENDS RwLock
VARIABLE last
\* clean lock: reader, try-reader + writer, writer that is cancelled while waiting
Pc3 == [a \in Actors |-> CASE a = "a1" -> <<"read", "try_write">> [] a = "a2" -> <<"write">> [] OTHER -> <<"try_read", "read">>]
\* poisoning: a1 panics while writing, the others keep using the lock through the PoisonError
Pp3 == [a \in Actors |-> CASE a = "a1" -> <<"wpanic">> [] a = "a2" -> <<"try_read", "write">> [] OTHER -> <<"write", "try_write">>]
\* already poisoned: the two defects' minimal programs and a mixed one
Pf1 == [a \in Actors |-> CASE a = "a1" -> <<"try_read">> [] OTHER -> <<"write">>]
Pf2 == [a \in Actors |-> <<"write">>]
Pq3 == [a \in Actors |-> CASE a = "a1" -> <<"try_read", "read">> [] a = "a2" -> <<"write">> [] OTHER -> <<"try_write", "read">>]
MCInit == Init /\ last = <<"", "", -1>>
MCNext ==
  \/ \E a \in Actors : Step(a) /\ last' = <<a, pc[a], Obs(a)>>
  \/ \E a \in Actors : Internal(a) /\ last' = <<"~", a, -1>>
  \/ \E a \in Actors : Cancel(a) /\ last' = <<"!cancel", a, -1>>
  \/ Stutter /\ UNCHANGED last
MCSpec == MCInit /\ [][MCNext]_<<vars, last>>
\* behaviours realizable under the baton: internal steps are urgent (they complete before anybody else
\* moves).  Used for behaviour export only; the exhaustive check explores MCSpec, a superset.
MCNextU ==
  IF \E a \in Actors : pc[a] \in InternalPcs
    THEN \E a \in Actors : Internal(a) /\ last' = <<"~", a, -1>>
    ELSE \/ \E a \in Actors : Step(a) /\ last' = <<a, pc[a], Obs(a)>>
         \/ \E a \in Actors : Cancel(a) /\ last' = <<"!cancel", a, -1>>
         \/ Stutter /\ UNCHANGED last
MCSpecU == MCInit /\ [][MCNextU]_<<vars, last>>
View == vars
=============================================================================
