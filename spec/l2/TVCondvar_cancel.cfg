SPECIFICATION TVSpec
CONSTANTS
  Actors = {"a1", "a2", "a3"}
  Victims = {"a1"}
  Prog <- P3c
  Dur <- D
  ForwardOnGiveUp = TRUE
CONSTRAINT TVProgress
POSTCONDITION TVAccepted
CHECK_DEADLOCK FALSE
