------------------------------ MODULE Semaphore ------------------------------
(* Literal model of src/sync/semphore.rs (wait / wait_timeout / try_wait / post) over the
   SyncBlocker hand-shake (src/sync/blocking.rs).  pc[a] = name of the verification point the
   actor is stopped at (the operation it performs next); labels without a dot are internal.

   park() is the AbsBlocker contract (l1/Park.tla): a binary token; ParkEnter consumes a token
   that is already there, otherwise the actor really suspends ("parked"); it is resumed by the
   token (WakeByToken), by its timer (Tick: virtual time jumps to the earliest pending deadline,
   exactly what the replay driver does) or by a cancel.  A token that races with a Timeout /
   Canceled result is discarded by the post-resume check_park, which is why the code keeps the
   separate `unparked` flag.

   Prog[a] \in Seq({"wait","twait","try","post"}); Dur[a] = duration of a's timed waits.   *)
EXTENDS Integers, FiniteSets, Sequences, TLC

CONSTANTS Actors, Victims, Prog, Dur, InitVal,
          TimeoutPath        \* "as_written" | "never_post" | "always_post"   (mutants)

VARIABLES cnt, toWake,                      \* the semaphore; toWake is the SegQueue (FIFO)
          token, unparked, release,         \* per blocker = <<actor, op index>>
          pc, ip, w, retTo, r,              \* r[a]: value read by try_wait's load / failed CAS
          cancelled, parked, res, deadline, now, timerHost,
          okCnt, postCnt                    \* ghost: successful waits, completed posts

vars == <<cnt, toWake, token, unparked, release, pc, ip, w, retTo, r, cancelled, parked, res,
          deadline, now, timerHost, okCnt, postCnt>>

MaxOps == 3
Blockers == Actors \X (1..MaxOps)
Me(a) == <<a, ip[a]>>
NoB == <<"none", 0>>
Op(a) == Prog[a][ip[a]]
FirstPc(op) == IF op = "post" THEN "sem.post.inc" ELSE "sem.try.load"
StartPc(a) == IF Len(Prog[a]) = 0 THEN "done" ELSE FirstPc(Prog[a][1])

Init ==
  /\ cnt = InitVal /\ toWake = <<>>
  /\ token = [b \in Blockers |-> FALSE] /\ unparked = [b \in Blockers |-> FALSE]
  /\ release = [b \in Blockers |-> FALSE]
  /\ ip = [a \in Actors |-> 1] /\ pc = [a \in Actors |-> StartPc(a)]
  /\ w = [a \in Actors |-> NoB] /\ retTo = [a \in Actors |-> "next"] /\ r = [a \in Actors |-> 0]
  /\ cancelled = [a \in Actors |-> FALSE] /\ parked = [a \in Actors |-> FALSE]
  /\ res = [a \in Actors |-> "none"] /\ deadline = [a \in Actors |-> 0] /\ now = 0
  /\ timerHost = "none"     \* the coroutine the timer thread is currently running, if any
  /\ okCnt = 0 /\ postCnt = 0

Goto(a, l) == pc' = [pc EXCEPT ![a] = l]
UNCH_B == UNCHANGED <<token, unparked, release>>
UNCH_S == UNCHANGED <<cnt, toWake>>
UNCH_T == UNCHANGED <<deadline, now, timerHost>>
LeaveTimer(a) == timerHost' = IF timerHost = a THEN "none" ELSE timerHost
UNCH_G == UNCHANGED <<okCnt, postCnt>>

\* try_wait(): load, then CAS loop while the value read is positive.  wait() starts with it.
TryLoad(a) ==
  /\ pc[a] = "sem.try.load"
  /\ r' = [r EXCEPT ![a] = cnt]
  /\ IF cnt > 0 THEN Goto(a, "sem.try.cas")
     ELSE Goto(a, IF Op(a) = "try" THEN "next" ELSE "sem.wait.push")
  /\ retTo' = [retTo EXCEPT ![a] = "next"]
  /\ UNCHANGED <<ip, w, cancelled, parked, res>> /\ UNCH_B /\ UNCH_S /\ UNCH_T /\ UNCH_G
TryCas(a) ==
  /\ pc[a] = "sem.try.cas"
  /\ IF cnt = r[a]
       THEN /\ cnt' = cnt - 1 /\ okCnt' = okCnt + 1 /\ Goto(a, "next") /\ UNCHANGED r
       ELSE /\ r' = [r EXCEPT ![a] = cnt] /\ UNCHANGED <<cnt, okCnt>>
            /\ IF cnt > 0 THEN Goto(a, "sem.try.cas")
               ELSE Goto(a, IF Op(a) = "try" THEN "next" ELSE "sem.wait.push")
  /\ UNCHANGED <<toWake, ip, w, retTo, cancelled, parked, res, postCnt>> /\ UNCH_B /\ UNCH_T

WaitPush(a) ==
  /\ pc[a] = "sem.wait.push"
  /\ toWake' = Append(toWake, Me(a)) /\ Goto(a, "sem.wait.dec")
  /\ UNCHANGED <<cnt, ip, w, retTo, r, cancelled, parked, res>> /\ UNCH_B /\ UNCH_T /\ UNCH_G
WaitDec(a) ==
  /\ pc[a] = "sem.wait.dec"
  /\ cnt' = cnt - 1
  /\ IF cnt > 0 THEN Goto(a, "sem.pop") /\ retTo' = [retTo EXCEPT ![a] = "sb.park"]
                ELSE Goto(a, "sb.park") /\ UNCHANGED retTo
  /\ UNCHANGED <<toWake, ip, w, r, cancelled, parked, res>> /\ UNCH_B /\ UNCH_T /\ UNCH_G

PostInc(a) ==
  /\ pc[a] = "sem.post.inc"
  /\ cnt' = cnt + 1
  /\ IF cnt < 0 THEN Goto(a, "sem.pop") ELSE Goto(a, retTo[a])
  /\ postCnt' = IF retTo[a] = "next" /\ Op(a) = "post" /\ w[a] = NoB THEN postCnt + 1 ELSE postCnt
  /\ UNCHANGED <<toWake, ip, w, retTo, r, cancelled, parked, res, okCnt>> /\ UNCH_B /\ UNCH_T

Pop(a) ==
  /\ pc[a] = "sem.pop"
  /\ toWake # <<>>                                  \* .expect("got null blocker!")
  /\ w' = [w EXCEPT ![a] = Head(toWake)] /\ toWake' = Tail(toWake) /\ Goto(a, "sb.unpark")
  /\ UNCHANGED <<cnt, ip, retTo, r, cancelled, parked, res>> /\ UNCH_B /\ UNCH_T /\ UNCH_G
\* blocker.unpark(): a target that is really suspended on this blocker is taken out of its slot and
\* resumed at once (it will return Ok); otherwise the token is left for its next park
WakeUnpark(a) ==
  /\ pc[a] = "sb.unpark"
  /\ LET b == w[a]  t == b[1] IN
       IF pc[t] = "parked" /\ parked[t] /\ Me(t) = b
         THEN /\ parked' = [parked EXCEPT ![t] = FALSE] /\ res' = [res EXCEPT ![t] = "Ok"]
              /\ pc' = [pc EXCEPT ![a] = "sb.set_unparked", ![t] = "sb.park.ret"]
              /\ UNCHANGED token
         ELSE /\ token' = [token EXCEPT ![b] = TRUE] /\ Goto(a, "sb.set_unparked")
              /\ UNCHANGED <<parked, res>>
  /\ UNCHANGED <<unparked, release, ip, w, retTo, r, cancelled>> /\ UNCH_S /\ UNCH_T /\ UNCH_G
WakeSetUnparked(a) ==
  /\ pc[a] = "sb.set_unparked"
  /\ unparked' = [unparked EXCEPT ![w[a]] = TRUE] /\ Goto(a, "sb.take_release")
  /\ UNCHANGED <<token, release, ip, w, retTo, r, cancelled, parked, res>> /\ UNCH_S /\ UNCH_T /\ UNCH_G
\* take_release(): by the waker on w[a], or by the giving-up waiter on its own blocker
\* (retTo = "g_recheck")
TakeRelease(a) ==
  /\ pc[a] = "sb.take_release"
  /\ LET mine == retTo[a] = "g_recheck"
         b == IF mine THEN Me(a) ELSE w[a] IN
       /\ release' = [release EXCEPT ![b] = FALSE]
       /\ IF release[b]
            THEN /\ Goto(a, "sem.post.inc")
                 /\ retTo' = IF mine THEN [retTo EXCEPT ![a] = "giveup"] ELSE retTo
            ELSE /\ Goto(a, IF mine THEN "giveup" ELSE retTo[a]) /\ UNCHANGED retTo
  /\ UNCHANGED <<token, unparked, ip, w, r, cancelled, parked, res>> /\ UNCH_S /\ UNCH_T /\ UNCH_G

ParkEnter(a) ==
  /\ pc[a] = "sb.park"
  /\ IF token[Me(a)]
       THEN /\ token' = [token EXCEPT ![Me(a)] = FALSE] /\ res' = [res EXCEPT ![a] = "Ok"]
            /\ Goto(a, "sb.park.ret") /\ UNCHANGED <<parked, deadline, timerHost>>
       ELSE IF cancelled[a]
         THEN /\ res' = [res EXCEPT ![a] = "Canceled"] /\ Goto(a, "sb.park.ret")
              /\ UNCHANGED <<token, parked, deadline, timerHost>>
         ELSE /\ parked' = [parked EXCEPT ![a] = TRUE] /\ Goto(a, "parked")
              /\ deadline' = [deadline EXCEPT ![a] = IF Op(a) = "twait" THEN now + Dur[a] ELSE 0]
              /\ LeaveTimer(a)       \* a really suspends: the timer thread (if it hosted a) is free again
              /\ UNCHANGED <<token, res>>
  /\ UNCHANGED <<unparked, release, ip, w, retTo, r, cancelled, now>> /\ UNCH_S /\ UNCH_G
ParkReturn(a) ==
  /\ pc[a] = "sb.park.ret"
  /\ IF res[a] = "Ok"
       THEN /\ Goto(a, "next") /\ okCnt' = okCnt + 1 /\ UNCHANGED <<token, retTo>>
       ELSE /\ token' = [token EXCEPT ![Me(a)] = FALSE]    \* post-resume check_park discards it
            /\ UNCHANGED okCnt
            /\ retTo' = [retTo EXCEPT ![a] = "giveup"]
            /\ Goto(a, CASE TimeoutPath = "as_written"  -> "sb.is_unparked"
                         [] TimeoutPath = "never_post"  -> "giveup"
                         [] TimeoutPath = "always_post" -> "sem.post.inc")
  /\ UNCHANGED <<unparked, release, ip, w, r, cancelled, parked, res, postCnt>> /\ UNCH_S /\ UNCH_T

\* giving up (timeout or cancel): is_unparked, set_release, is_unparked again, take_release
IsUnparked(a) ==
  /\ pc[a] = "sb.is_unparked"
  /\ IF retTo[a] # "g_second"
       THEN IF unparked[Me(a)] THEN Goto(a, "sem.post.inc") /\ retTo' = [retTo EXCEPT ![a] = "giveup"]
                               ELSE Goto(a, "sb.set_release") /\ UNCHANGED retTo
       ELSE IF unparked[Me(a)] THEN Goto(a, "sb.take_release") /\ retTo' = [retTo EXCEPT ![a] = "g_recheck"]
                               ELSE Goto(a, "giveup") /\ UNCHANGED retTo
  /\ UNCHANGED <<ip, w, r, cancelled, parked, res>> /\ UNCH_B /\ UNCH_S /\ UNCH_T /\ UNCH_G
SetRelease(a) ==
  /\ pc[a] = "sb.set_release"
  /\ release' = [release EXCEPT ![Me(a)] = TRUE] /\ Goto(a, "sb.is_unparked")
  /\ retTo' = [retTo EXCEPT ![a] = "g_second"]
  /\ UNCHANGED <<token, unparked, ip, w, r, cancelled, parked, res>> /\ UNCH_S /\ UNCH_T /\ UNCH_G
\* the wait returns false (timeout) or the coroutine unwinds (cancel)
GiveUp(a) ==
  /\ pc[a] = "giveup"
  /\ Goto(a, IF res[a] = "Canceled" THEN "dead" ELSE "next")
  /\ retTo' = [retTo EXCEPT ![a] = "next"]
  /\ IF res[a] = "Canceled" THEN LeaveTimer(a) ELSE UNCHANGED timerHost
  /\ UNCHANGED <<ip, w, r, cancelled, parked, res, deadline, now>> /\ UNCH_B /\ UNCH_S /\ UNCH_G

NextOp(a) ==
  /\ pc[a] = "next"
  /\ IF ip[a] < Len(Prog[a])
       THEN ip' = [ip EXCEPT ![a] = ip[a] + 1] /\ Goto(a, FirstPc(Prog[a][ip[a] + 1])) /\ UNCHANGED timerHost
       ELSE UNCHANGED ip /\ Goto(a, "done") /\ LeaveTimer(a)
  /\ res' = [res EXCEPT ![a] = "none"] /\ retTo' = [retTo EXCEPT ![a] = "next"]
  /\ w' = [w EXCEPT ![a] = NoB]
  /\ UNCHANGED <<r, cancelled, parked, deadline, now>> /\ UNCH_B /\ UNCH_S /\ UNCH_G

\* environment ---------------------------------------------------------------------------
TimedParked == {a \in Actors : pc[a] = "parked" /\ parked[a] /\ deadline[a] > 0}
\* virtual time jumps to the earliest pending deadline; the waiter due then times out and is
\* resumed *on the timer thread*, which serves no other timer until that coroutine suspends or ends
Tick ==
  /\ TimedParked # {} /\ timerHost = "none"
  /\ LET t == CHOOSE t \in {deadline[a] : a \in TimedParked} : \A a \in TimedParked : t <= deadline[a]
         due == {a \in TimedParked : deadline[a] <= t} IN
       /\ now' = t
       /\ timerHost' = CHOOSE a \in due : TRUE
       /\ parked' = [a \in Actors |-> IF a \in due THEN FALSE ELSE parked[a]]
       /\ res' = [a \in Actors |-> IF a \in due THEN "Timeout" ELSE res[a]]
       /\ pc' = [a \in Actors |-> IF a \in due THEN "sb.park.ret" ELSE pc[a]]
  /\ UNCHANGED <<ip, w, retTo, r, cancelled, deadline>> /\ UNCH_B /\ UNCH_S /\ UNCH_G
Cancel(a) ==
  /\ a \in Victims /\ ~cancelled[a] /\ pc[a] \notin {"done", "dead"}
  /\ cancelled' = [cancelled EXCEPT ![a] = TRUE]
  /\ IF pc[a] = "parked" /\ ~token[Me(a)]
       THEN /\ parked' = [parked EXCEPT ![a] = FALSE] /\ res' = [res EXCEPT ![a] = "Canceled"]
            /\ pc' = [pc EXCEPT ![a] = "sb.park.ret"]
       ELSE UNCHANGED <<parked, res, pc>>
  /\ UNCHANGED <<ip, w, retTo, r>> /\ UNCH_B /\ UNCH_S /\ UNCH_T /\ UNCH_G

Step(a) ==
  \/ TryLoad(a) \/ TryCas(a) \/ WaitPush(a) \/ WaitDec(a) \/ PostInc(a) \/ Pop(a) \/ WakeUnpark(a)
  \/ WakeSetUnparked(a) \/ TakeRelease(a) \/ ParkEnter(a) \/ ParkReturn(a) \/ IsUnparked(a) \/ SetRelease(a)
Internal(a) == NextOp(a) \/ GiveUp(a)
\* labels at which an actor performs internal steps (no verification point): under the baton these
\* complete before anybody else moves
InternalPcs == {"next", "giveup"}
Obs(a) == IF pc[a] = "sb.park.ret"
            THEN (CASE res[a] = "Ok" -> 0 [] res[a] = "Timeout" -> 1 [] OTHER -> 2) ELSE -1

Finished(a) == pc[a] \in {"done", "dead"}
\* a plain wait() with no permit in sight blocks for ever by specification, not by accident
LegitParked(a) == pc[a] = "parked" /\ ~token[Me(a)] /\ deadline[a] = 0 /\ a \notin Victims
Quiescent == \A a \in Actors : Finished(a) \/ (pc[a] = "parked" /\ ~token[Me(a)])
Terminal == (\A a \in Actors : Finished(a) \/ LegitParked(a)) /\ UNCHANGED vars

Next == (\E a \in Actors : Step(a) \/ Internal(a) \/ Cancel(a)) \/ Tick \/ Terminal
Spec == Init /\ [][Next]_vars
-----------------------------------------------------------------------------
Value == IF cnt > 0 THEN cnt ELSE 0
NeverOverdrawn == okCnt <= InitVal + postCnt
\* conservation at every quiescent state (nobody in the middle of a call; waiters may still be
\* parked): the permits that logically exist are exactly what get_value() shows, and nobody
\* sleeps while one exists
QuiescentValue == Quiescent => /\ Value = InitVal + postCnt - okCnt
                               /\ ((\E a \in Actors : pc[a] = "parked") => Value = 0)
PopNeverEmpty == \A a \in Actors : pc[a] = "sem.pop" => toWake # <<>>
=============================================================================
