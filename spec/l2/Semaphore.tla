------------------------------ MODULE Semaphore ------------------------------
(* DRAFT (round 0).  Literal model of src/sync/semphore.rs over the SyncBlocker hand-shake.
   park() is the AbsBlocker: Ok consumes the token; for a timed wait Timeout may be
   returned at any moment (time is an adversary) and a token that raced in is discarded. *)
EXTENDS Integers, FiniteSets, Sequences, TLC
CONSTANTS Actors, Prog,      \* Prog[a] \in {"wait", "wait_timeout", "try_wait", "post"}
          InitVal,
          TimeoutPath        \* "as_written" | "never_post" | "always_post"   (mutants)
VARIABLES cnt, toWake, token, unparked, release, pc, w, retTo, result
vars == <<cnt, toWake, token, unparked, release, pc, w, retTo, result>>
Waiters == {a \in Actors : Prog[a] \in {"wait", "wait_timeout"}}
Init ==
  /\ cnt = InitVal /\ toWake = <<>>
  /\ token = [a \in Actors |-> FALSE] /\ unparked = [a \in Actors |-> FALSE]
  /\ release = [a \in Actors |-> FALSE]
  /\ pc = [a \in Actors |-> IF Prog[a] = "post" THEN "post.inc" ELSE "sem.try"]
  /\ w = [a \in Actors |-> "none"]
  /\ retTo = [a \in Actors |-> "done"]
  /\ result = [a \in Actors |-> "none"]        \* "ok" | "fail" | "posted"
Goto(a, l) == pc' = [pc EXCEPT ![a] = l]
Finish(a, r) == Goto(a, "done") /\ result' = [result EXCEPT ![a] = r]
UNCH_B == UNCHANGED <<token, unparked, release>>

Try(a) ==
  /\ pc[a] = "sem.try"
  /\ IF cnt > 0 THEN cnt' = cnt - 1 /\ Finish(a, "ok")
     ELSE /\ UNCHANGED cnt
          /\ IF Prog[a] = "try_wait" THEN Finish(a, "fail") ELSE Goto(a, "sem.push") /\ UNCHANGED result
  /\ UNCHANGED <<toWake, w, retTo>> /\ UNCH_B
Push(a) ==
  /\ pc[a] = "sem.push" /\ toWake' = Append(toWake, a) /\ Goto(a, "sem.dec")
  /\ UNCHANGED <<cnt, w, retTo, result>> /\ UNCH_B
Dec(a) ==
  /\ pc[a] = "sem.dec" /\ cnt' = cnt - 1
  /\ IF cnt > 0 THEN Goto(a, "wake.pop") /\ retTo' = [retTo EXCEPT ![a] = "sem.park"]
                ELSE Goto(a, "sem.park") /\ UNCHANGED retTo
  /\ UNCHANGED <<toWake, w, result>> /\ UNCH_B
ParkOk(a) ==
  /\ pc[a] = "sem.park" /\ token[a] /\ token' = [token EXCEPT ![a] = FALSE] /\ Finish(a, "ok")
  /\ UNCHANGED <<cnt, toWake, unparked, release, w, retTo>>
ParkTimeout(a) ==
  /\ pc[a] = "sem.park" /\ Prog[a] = "wait_timeout"
  /\ token' = [token EXCEPT ![a] = FALSE]
  /\ Goto(a, CASE TimeoutPath = "as_written"  -> "sem.t_isunparked"
               [] TimeoutPath = "never_post"  -> "fail"
               [] TimeoutPath = "always_post" -> "post.inc")
  /\ retTo' = [retTo EXCEPT ![a] = "fail"]
  /\ UNCHANGED <<cnt, toWake, unparked, release, w, result>>
TIsUnparked(a) ==
  /\ pc[a] = "sem.t_isunparked"
  /\ Goto(a, IF unparked[a] THEN "post.inc" ELSE "sem.t_setrel")
  /\ UNCHANGED <<cnt, toWake, w, retTo, result>> /\ UNCH_B
TSetRel(a) ==
  /\ pc[a] = "sem.t_setrel" /\ release' = [release EXCEPT ![a] = TRUE] /\ Goto(a, "sem.t_recheck")
  /\ UNCHANGED <<cnt, toWake, token, unparked, w, retTo, result>>
TRecheck(a) ==
  /\ pc[a] = "sem.t_recheck" /\ Goto(a, IF unparked[a] THEN "sem.t_takerel" ELSE "fail")
  /\ UNCHANGED <<cnt, toWake, w, retTo, result>> /\ UNCH_B
TTakeRel(a) ==
  /\ pc[a] = "sem.t_takerel" /\ release' = [release EXCEPT ![a] = FALSE]
  /\ Goto(a, IF release[a] THEN "post.inc" ELSE "fail")
  /\ UNCHANGED <<cnt, toWake, token, unparked, w, retTo, result>>
Fail(a) == /\ pc[a] = "fail" /\ Finish(a, "fail")
           /\ UNCHANGED <<cnt, toWake, w, retTo>> /\ UNCH_B
PostInc(a) ==
  /\ pc[a] = "post.inc" /\ cnt' = cnt + 1
  /\ Goto(a, IF cnt < 0 THEN "wake.pop" ELSE retTo[a])
  /\ UNCHANGED <<toWake, w, retTo, result>> /\ UNCH_B
WakePop(a) ==
  /\ pc[a] = "wake.pop" /\ toWake # <<>>
  /\ w' = [w EXCEPT ![a] = Head(toWake)] /\ toWake' = Tail(toWake) /\ Goto(a, "wake.unpark")
  /\ UNCHANGED <<cnt, retTo, result>> /\ UNCH_B
WakeUnpark(a) ==
  /\ pc[a] = "wake.unpark" /\ token' = [token EXCEPT ![w[a]] = TRUE] /\ Goto(a, "wake.set_unparked")
  /\ UNCHANGED <<cnt, toWake, unparked, release, w, retTo, result>>
WakeSetUnparked(a) ==
  /\ pc[a] = "wake.set_unparked" /\ unparked' = [unparked EXCEPT ![w[a]] = TRUE] /\ Goto(a, "wake.takerel")
  /\ UNCHANGED <<cnt, toWake, token, release, w, retTo, result>>
WakeTakeRel(a) ==
  /\ pc[a] = "wake.takerel" /\ release' = [release EXCEPT ![w[a]] = FALSE]
  /\ Goto(a, IF release[w[a]] THEN "post.inc" ELSE retTo[a])
  /\ UNCHANGED <<cnt, toWake, token, unparked, w, retTo, result>>
PostDone(a) ==       \* a pure post() returns
  /\ pc[a] = "done" /\ Prog[a] = "post" /\ result[a] = "none"
  /\ result' = [result EXCEPT ![a] = "posted"]
  /\ UNCHANGED <<cnt, toWake, pc, w, retTo>> /\ UNCH_B
AllOver == \A a \in Actors : pc[a] = "done" /\ result[a] # "none"
Stutter == AllOver /\ UNCHANGED vars
\* a plain wait() with no permit in sight blocks for ever by specification, not by accident
LegitBlocked == /\ \A a \in Actors : \/ (pc[a] = "done" /\ result[a] # "none")
                                     \/ (pc[a] = "sem.park" /\ Prog[a] = "wait" /\ ~token[a])
                /\ UNCHANGED vars
Next == \/ \E a \in Actors : Try(a) \/ Push(a) \/ Dec(a) \/ ParkOk(a) \/ ParkTimeout(a) \/ TIsUnparked(a)
             \/ TSetRel(a) \/ TRecheck(a) \/ TTakeRel(a) \/ Fail(a) \/ PostInc(a) \/ WakePop(a)
             \/ WakeUnpark(a) \/ WakeSetUnparked(a) \/ WakeTakeRel(a) \/ PostDone(a)
        \/ Stutter \/ LegitBlocked
Spec == Init /\ [][Next]_vars

Posts     == Cardinality({a \in Actors : Prog[a] = "post" /\ pc[a] = "done"})
Successes == Cardinality({a \in Actors : result[a] = "ok"})
Value     == IF cnt > 0 THEN cnt ELSE 0
NeverOverdrawn == Successes <= InitVal + Cardinality({a \in Actors : Prog[a] = "post" /\ pc[a] # "post.inc"})
\* conservation, stated at every quiescent state (nobody in the middle of a call; waiters
\* may still be parked): the permits that logically exist are exactly what get_value() shows,
\* and nobody sleeps while one exists
Quiescent == \A a \in Actors : (pc[a] = "done" /\ result[a] # "none") \/ (pc[a] = "sem.park" /\ ~token[a])
Parked    == {a \in Actors : pc[a] = "sem.park"}
QuiescentValue == Quiescent => /\ Value = InitVal + Posts - Successes
                               /\ (Parked # {} => Value = 0)
PopNeverEmpty  == \A a \in Actors : pc[a] = "wake.pop" => toWake # <<>>
\* whenever permits suffice every waiter proceeds: nobody is left parked with a positive value
PermitsSuffice == ~(\E a \in Waiters : pc[a] = "sem.park" /\ ~token[a]) \/ cnt <= 0
                  \/ \E a \in Actors : pc[a] \notin {"done", "sem.park"}
=============================================================================
