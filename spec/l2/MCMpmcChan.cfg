SPECIFICATION Spec
CONSTANTS
  Receivers = {r1, r2}
  NMsg = 1
  RepostOnDisconnect = FALSE
  DropPostOnce = FALSE
  RetryOnDisc = FALSE
INVARIANTS NoUnreachable DeliveredOnce DrainThenDisconnected
CHECK_DEADLOCK TRUE
