* code as written: DrainThenDisconnected is violated (F4b) and, with it disabled, a deadlock is reported (F4);
\* RetryOnDisc = DropPostOnce = RepostOnDisconnect = TRUE is the three-part candidate repair that passes
SPECIFICATION Spec
CONSTANTS
  Receivers = {r1, r2}
  NMsg = 1
  RepostOnDisconnect = FALSE
  DropPostOnce = FALSE
  RetryOnDisc = FALSE
INVARIANTS NoUnreachable DeliveredOnce DrainThenDisconnected
CHECK_DEADLOCK TRUE
