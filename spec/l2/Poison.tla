-------------------------------- MODULE Poison --------------------------------
(* src/sync/poison.rs + MutexGuard::drop: a guard remembers whether the
   thread was already panicking when it was created; on drop the lock is poisoned iff a panic
   started *inside* the guard and the coroutine is not being cancelled; the lock is released in
   every case.  Used as the oracle generator for C13 (panic / cancel / normal exit while
   holding), and for RwLock write guards. *)
EXTENDS Naturals, TLC
CONSTANTS Actors, How,           \* How[a] \in {"normal", "panic", "cancel", "panic_before", "pending_panic"}
          FixP                   \* FALSE: pinned tree ("is a cancel pending?"), TRUE: repaired ("is this the Cancel unwind?"), F21
\* "pending_panic": cancel() was called on the running coroutine, and before it reaches a cancellation
\* point its closure panics for its own reasons inside the guard
VARIABLES locked, poisoned, pc, guardPanicking, panicking, cancelled, sawPoison, unwinding
vars == <<locked, poisoned, pc, guardPanicking, panicking, cancelled, sawPoison, unwinding>>
Init == /\ locked = "free" /\ poisoned = FALSE /\ pc = [a \in Actors |-> "start"]
        /\ guardPanicking = [a \in Actors |-> FALSE] /\ panicking = [a \in Actors |-> FALSE]
        /\ cancelled = [a \in Actors |-> FALSE] /\ sawPoison = [a \in Actors |-> FALSE]
        /\ unwinding = [a \in Actors |-> FALSE]
Goto(a, l) == pc' = [pc EXCEPT ![a] = l]
Start(a) == /\ pc[a] = "start" /\ panicking' = [panicking EXCEPT ![a] = (How[a] = "panic_before")]
            /\ Goto(a, "lock") /\ UNCHANGED <<locked, poisoned, guardPanicking, cancelled, sawPoison, unwinding>>
Lock(a) == /\ pc[a] = "lock" /\ locked = "free" /\ locked' = a
           /\ guardPanicking' = [guardPanicking EXCEPT ![a] = panicking[a]]
           /\ sawPoison' = [sawPoison EXCEPT ![a] = poisoned]          \* LockResult: Err(Poisoned(guard)) still holds
           /\ Goto(a, "hold") /\ UNCHANGED <<poisoned, panicking, cancelled, unwinding>>
Hold(a) == /\ pc[a] = "hold"
           /\ panicking' = [panicking EXCEPT ![a] = panicking[a] \/ How[a] \in {"panic", "cancel", "pending_panic"}]
           /\ cancelled' = [cancelled EXCEPT ![a] = (How[a] \in {"cancel", "pending_panic"})]       \* the cancel bit
           /\ unwinding' = [unwinding EXCEPT ![a] = (How[a] = "cancel")]                           \* trigger_cancel_panic ran
           /\ Goto(a, "drop_guard") /\ UNCHANGED <<locked, poisoned, guardPanicking, sawPoison>>
Drop(a) == /\ pc[a] = "drop_guard"
           /\ poisoned' = (poisoned \/ (~guardPanicking[a] /\ panicking[a] /\ ~(IF FixP THEN unwinding[a] ELSE cancelled[a])))
           /\ locked' = "free" /\ Goto(a, "done")
           /\ UNCHANGED <<guardPanicking, panicking, cancelled, sawPoison, unwinding>>
AllOver == \A a \in Actors : pc[a] = "done"
Next == (\E a \in Actors : Start(a) \/ Lock(a) \/ Hold(a) \/ Drop(a)) \/ (AllOver /\ UNCHANGED vars)
Spec == Init /\ [][Next]_vars
PoisonIffPanic == poisoned <=> \E a \in Actors : pc[a] = "done" /\ How[a] \in {"panic", "pending_panic"}
ReleasedAnyway == AllOver => locked = "free"
=============================================================================
