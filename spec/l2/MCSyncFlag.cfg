SPECIFICATION Spec
CONSTANTS
  Waiters = {"w1", "w2", "w3"}
  Timed = {"w3"}
  Firers = {"f1"}
  BIG = 1000
INVARIANTS Latch FiredWakesAll FalseOnlyOnTimeout
CHECK_DEADLOCK TRUE
