-------------------------------- MODULE Barrier --------------------------------
(* DRAFT (round 0).  src/sync/barrier.rs (and the shape of wait_group.rs) as clients of the
   checked Mutex/Condvar contracts: `lock`; bump count; the n-th arrival resets count, bumps the
   generation and notify_all()s under the lock; the others wait_while(generation unchanged).
   The Condvar is abstract here: wait = atomically (enqueue, unlock), later woken, then re-lock;
   a woken waiter may also be woken spuriously (wait_while re-tests). *)
EXTENDS Naturals, FiniteSets, TLC
CONSTANTS Parties, N, Gens        \* |Parties| = N parties, each passes the barrier Gens times
VARIABLES owner, count, gen, waiting, pc, localGen, round, leaderOf, passed
vars == <<owner, count, gen, waiting, pc, localGen, round, leaderOf, passed>>
Init == /\ owner = "free" /\ count = 0 /\ gen = 0 /\ waiting = {}
        /\ pc = [p \in Parties |-> "lock"] /\ localGen = [p \in Parties |-> 0]
        /\ round = [p \in Parties |-> 1] /\ leaderOf = [g \in 0..Gens |-> {}] /\ passed = [g \in 0..Gens |-> {}]
Goto(p, l) == pc' = [pc EXCEPT ![p] = l]
Lock(p) == /\ pc[p] = "lock" /\ owner = "free" /\ owner' = p /\ Goto(p, "arrive")
           /\ UNCHANGED <<count, gen, waiting, localGen, round, leaderOf, passed>>
Arrive(p) ==
  /\ pc[p] = "arrive" /\ localGen' = [localGen EXCEPT ![p] = gen]
  /\ IF count + 1 < N
       THEN /\ count' = count + 1 /\ waiting' = waiting \cup {p} /\ owner' = "free" /\ Goto(p, "cv.wait")
            /\ UNCHANGED <<gen, leaderOf, passed>>
       ELSE /\ count' = 0 /\ gen' = gen + 1 /\ waiting' = {}                     \* notify_all under the lock
            /\ leaderOf' = [leaderOf EXCEPT ![gen] = @ \cup {p}] /\ passed' = [passed EXCEPT ![gen] = @ \cup {p}]
            /\ owner' = "free" /\ Goto(p, "next")
  /\ UNCHANGED round
Woken(p) == /\ pc[p] = "cv.wait" /\ p \notin waiting /\ Goto(p, "relock")          \* notified
            /\ UNCHANGED <<owner, count, gen, waiting, localGen, round, leaderOf, passed>>
Relock(p) == /\ pc[p] = "relock" /\ owner = "free"
             /\ IF gen = localGen[p]                                               \* wait_while: still the same generation
                  THEN waiting' = waiting \cup {p} /\ Goto(p, "cv.wait") /\ UNCHANGED <<owner, passed>>
                  ELSE passed' = [passed EXCEPT ![localGen[p]] = @ \cup {p}] /\ Goto(p, "next") /\ UNCHANGED <<owner, waiting>>
             /\ UNCHANGED <<count, gen, localGen, round, leaderOf>>
NextRound(p) == /\ pc[p] = "next"
                /\ IF round[p] < Gens THEN round' = [round EXCEPT ![p] = @ + 1] /\ Goto(p, "lock")
                                      ELSE UNCHANGED round /\ Goto(p, "done")
                /\ UNCHANGED <<owner, count, gen, waiting, localGen, leaderOf, passed>>
AllOver == \A p \in Parties : pc[p] = "done"
Next == (\E p \in Parties : Lock(p) \/ Arrive(p) \/ Woken(p) \/ Relock(p) \/ NextRound(p)) \/ (AllOver /\ UNCHANGED vars)
Spec == Init /\ [][Next]_vars
\* a generation is released exactly when N parties have arrived, with exactly one leader
OneLeader    == \A g \in 0..Gens : Cardinality(leaderOf[g]) <= 1
ReleasedIffN == \A g \in 0..Gens : passed[g] # {} => g < gen        \* nobody passes a generation that is not complete
AllPass      == AllOver => \A g \in 0..(Gens - 1) : passed[g] = Parties /\ Cardinality(leaderOf[g]) = 1
=============================================================================
