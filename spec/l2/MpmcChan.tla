------------------------------ MODULE MpmcChan ------------------------------
(* DRAFT (round 0).  src/sync/mpmc.rs over src/sync/semphore.rs (no time-outs here).
   One sender that sends NMsg messages and then drops (the *last* sender), a set of
   receivers each doing one blocking recv().  Blocker = AbsBlocker token. *)
EXTENDS Integers, FiniteSets, Sequences, TLC

CONSTANTS Receivers, NMsg,
          RepostOnDisconnect,   \* FALSE = code as written; TRUE = candidate repair (F4)
          RetryOnDisc,          \* FALSE = as written; TRUE = candidate repair: try_recv re-tries
                                \* the permit once after reading tx_ports = 0 (as mpsc re-pops)
          DropPostOnce          \* FALSE = `while get_value()==0 {post}` as written;
                                \* TRUE  = candidate repair: the last sender posts exactly once

VARIABLES queue, cnt, toWake, tx,            \* channel + semaphore
          token, unparked, release,          \* per receiver blocker
          pcS, sent, w, retS,                \* sender
          pcR, ret, wr, retR                 \* receivers

vars == <<queue, cnt, toWake, tx, token, unparked, release, pcS, sent, w, retS, pcR, ret, wr, retR>>
NoR == "none"
Disconnected == -1
Unreachable == -2

Init ==
  /\ queue = <<>> /\ cnt = 0 /\ toWake = <<>> /\ tx = 1
  /\ token = [r \in Receivers |-> FALSE] /\ unparked = [r \in Receivers |-> FALSE]
  /\ release = [r \in Receivers |-> FALSE]
  /\ pcS = IF NMsg > 0 THEN "send.push" ELSE "drop.dec"
  /\ sent = 0 /\ w = NoR /\ retS = "none"
  /\ pcR = [r \in Receivers |-> "recv.try"] /\ ret = [r \in Receivers |-> 0]
  /\ wr = [r \in Receivers |-> NoR] /\ retR = [r \in Receivers |-> "none"]

UNCH_R == UNCHANGED <<pcR, ret, wr, retR>>
UNCH_S == UNCHANGED <<pcS, sent, w, retS>>
UNCH_B == UNCHANGED <<token, unparked, release>>

(* ---- the wake chain (post -> wakeup_one -> maybe post again), for the sender ---- *)
SPush ==
  /\ pcS = "send.push" /\ queue' = Append(queue, sent + 1) /\ sent' = sent + 1
  /\ pcS' = "post.inc" /\ retS' = (IF sent + 1 < NMsg THEN "send.push" ELSE "drop.dec")
  /\ UNCHANGED <<cnt, toWake, tx, w>> /\ UNCH_B /\ UNCH_R
SPostInc ==
  /\ pcS = "post.inc" /\ cnt' = cnt + 1
  /\ pcS' = IF cnt < 0 THEN "wake.pop" ELSE retS
  /\ UNCHANGED <<queue, toWake, tx, sent, w, retS>> /\ UNCH_B /\ UNCH_R
SWakePop ==
  /\ pcS = "wake.pop" /\ toWake # <<>>
  /\ w' = Head(toWake) /\ toWake' = Tail(toWake) /\ pcS' = "wake.unpark"
  /\ UNCHANGED <<queue, cnt, tx, sent, retS>> /\ UNCH_B /\ UNCH_R
SWakeUnpark ==
  /\ pcS = "wake.unpark" /\ token' = [token EXCEPT ![w] = TRUE] /\ pcS' = "wake.set_unparked"
  /\ UNCHANGED <<queue, cnt, toWake, tx, unparked, release, sent, w, retS>> /\ UNCH_R
SWakeSetUnparked ==
  /\ pcS = "wake.set_unparked" /\ unparked' = [unparked EXCEPT ![w] = TRUE] /\ pcS' = "wake.takerel"
  /\ UNCHANGED <<queue, cnt, toWake, tx, token, release, sent, w, retS>> /\ UNCH_R
SWakeTakeRel ==
  /\ pcS = "wake.takerel" /\ release' = [release EXCEPT ![w] = FALSE]
  /\ pcS' = IF release[w] THEN "post.inc" ELSE retS
  /\ UNCHANGED <<queue, cnt, toWake, tx, token, unparked, sent, w, retS>> /\ UNCH_R
(* drop_tx of the last sender: while sem.get_value() == 0 { sem.post() } *)
SDropDec ==
  /\ pcS = "drop.dec" /\ tx' = tx - 1 /\ pcS' = "drop.get_value"
  /\ UNCHANGED <<queue, cnt, toWake, sent, w, retS>> /\ UNCH_B /\ UNCH_R
SDropGetValue ==
  /\ pcS = "drop.get_value"
  /\ IF DropPostOnce
       THEN pcS' = "post.inc" /\ retS' = "done"
       ELSE IF cnt <= 0 THEN pcS' = "post.inc" /\ retS' = "drop.get_value"
                        ELSE pcS' = "done" /\ UNCHANGED retS
  /\ UNCHANGED <<queue, cnt, toWake, tx, sent, w>> /\ UNCH_B /\ UNCH_R

(* ---- receivers ---- *)
GotoR(r, l) == pcR' = [pcR EXCEPT ![r] = l]
RTry(r) ==        \* try_recv: sem.try_wait (dec-if-positive) else look at tx_ports
  /\ pcR[r] = "recv.try"
  /\ IF cnt > 0 THEN cnt' = cnt - 1 /\ GotoR(r, "recv.pop")
                ELSE UNCHANGED cnt /\ GotoR(r, "recv.load_tx")
  /\ UNCHANGED <<queue, toWake, tx, ret, wr, retR>> /\ UNCH_B /\ UNCH_S
RLoadTx(r) ==
  /\ pcR[r] = "recv.load_tx"
  /\ IF tx = 0
       THEN IF RetryOnDisc THEN UNCHANGED ret /\ GotoR(r, "recv.retry")
                           ELSE ret' = [ret EXCEPT ![r] = Disconnected] /\ GotoR(r, "done")
       ELSE UNCHANGED ret /\ GotoR(r, "sem.try")
  /\ UNCHANGED <<queue, cnt, toWake, tx, wr, retR>> /\ UNCH_B /\ UNCH_S
RRetry(r) ==
  /\ pcR[r] = "recv.retry"
  /\ IF cnt > 0 THEN cnt' = cnt - 1 /\ GotoR(r, "recv.pop") /\ UNCHANGED ret
                ELSE UNCHANGED cnt /\ ret' = [ret EXCEPT ![r] = Disconnected] /\ GotoR(r, "done")
  /\ UNCHANGED <<queue, toWake, tx, wr, retR>> /\ UNCH_B /\ UNCH_S
RSemTry(r) ==     \* Semphore::wait -> try_wait first
  /\ pcR[r] = "sem.try"
  /\ IF cnt > 0 THEN cnt' = cnt - 1 /\ GotoR(r, "recv.pop")
                ELSE UNCHANGED cnt /\ GotoR(r, "sem.push")
  /\ UNCHANGED <<queue, toWake, tx, ret, wr, retR>> /\ UNCH_B /\ UNCH_S
RSemPush(r) ==
  /\ pcR[r] = "sem.push" /\ toWake' = Append(toWake, r) /\ GotoR(r, "sem.dec")
  /\ UNCHANGED <<queue, cnt, tx, ret, wr, retR>> /\ UNCH_B /\ UNCH_S
RSemDec(r) ==
  /\ pcR[r] = "sem.dec" /\ cnt' = cnt - 1
  /\ IF cnt > 0 THEN GotoR(r, "rwake.pop") /\ retR' = [retR EXCEPT ![r] = "sem.park"]
                ELSE GotoR(r, "sem.park") /\ UNCHANGED retR
  /\ UNCHANGED <<queue, toWake, tx, ret, wr>> /\ UNCH_B /\ UNCH_S
RWakePop(r) ==
  /\ pcR[r] = "rwake.pop" /\ toWake # <<>>
  /\ wr' = [wr EXCEPT ![r] = Head(toWake)] /\ toWake' = Tail(toWake) /\ GotoR(r, "rwake.unpark")
  /\ UNCHANGED <<queue, cnt, tx, ret, retR>> /\ UNCH_B /\ UNCH_S
RWakeUnpark(r) ==
  /\ pcR[r] = "rwake.unpark" /\ token' = [token EXCEPT ![wr[r]] = TRUE] /\ GotoR(r, "rwake.set_unparked")
  /\ UNCHANGED <<queue, cnt, toWake, tx, unparked, release, ret, wr, retR>> /\ UNCH_S
RWakeSetUnparked(r) ==
  /\ pcR[r] = "rwake.set_unparked" /\ unparked' = [unparked EXCEPT ![wr[r]] = TRUE]
  /\ GotoR(r, "rwake.takerel")
  /\ UNCHANGED <<queue, cnt, toWake, tx, token, release, ret, wr, retR>> /\ UNCH_S
RWakeTakeRel(r) ==
  /\ pcR[r] = "rwake.takerel" /\ release' = [release EXCEPT ![wr[r]] = FALSE]
  /\ GotoR(r, IF release[wr[r]] THEN "rpost.inc" ELSE retR[r])
  /\ UNCHANGED <<queue, cnt, toWake, tx, token, unparked, ret, wr, retR>> /\ UNCH_S
RPostInc(r) ==    \* a post issued by a receiver (pass-it-on / repair)
  /\ pcR[r] = "rpost.inc" /\ cnt' = cnt + 1
  /\ GotoR(r, IF cnt < 0 THEN "rwake.pop" ELSE retR[r])
  /\ UNCHANGED <<queue, toWake, tx, ret, wr, retR>> /\ UNCH_B /\ UNCH_S
RPark(r) ==
  /\ pcR[r] = "sem.park" /\ token[r]
  /\ token' = [token EXCEPT ![r] = FALSE] /\ GotoR(r, "recv.pop")
  /\ UNCHANGED <<queue, cnt, toWake, tx, unparked, release, ret, wr, retR>> /\ UNCH_S
RPop(r) ==
  /\ pcR[r] = "recv.pop"
  /\ IF queue # <<>>
       THEN /\ queue' = Tail(queue) /\ ret' = [ret EXCEPT ![r] = Head(queue)]
            /\ GotoR(r, "done") /\ UNCHANGED retR
       ELSE /\ UNCHANGED queue
            /\ IF tx = 0
                 THEN /\ ret' = [ret EXCEPT ![r] = Disconnected]
                      /\ IF RepostOnDisconnect
                           THEN GotoR(r, "rpost.inc") /\ retR' = [retR EXCEPT ![r] = "done"]
                           ELSE GotoR(r, "done") /\ UNCHANGED retR
                 ELSE ret' = [ret EXCEPT ![r] = Unreachable] /\ GotoR(r, "done") /\ UNCHANGED retR
  /\ UNCHANGED <<cnt, toWake, tx, wr>> /\ UNCH_B /\ UNCH_S

AllOver == pcS = "done" /\ \A r \in Receivers : pcR[r] = "done"
Stutter == AllOver /\ UNCHANGED vars
Next ==
  \/ SPush \/ SPostInc \/ SWakePop \/ SWakeUnpark \/ SWakeSetUnparked \/ SWakeTakeRel
  \/ SDropDec \/ SDropGetValue
  \/ \E r \in Receivers : RTry(r) \/ RLoadTx(r) \/ RRetry(r) \/ RSemTry(r) \/ RSemPush(r) \/ RSemDec(r)
        \/ RWakePop(r) \/ RWakeUnpark(r) \/ RWakeSetUnparked(r) \/ RWakeTakeRel(r)
        \/ RPostInc(r) \/ RPark(r) \/ RPop(r)
  \/ Stutter
Spec == Init /\ [][Next]_vars

Got == {ret[r] : r \in Receivers} \cap (1..NMsg)
NoUnreachable == \A r \in Receivers : ret[r] # Unreachable
DeliveredOnce == \A r1, r2 \in Receivers : (r1 # r2 /\ ret[r1] \in 1..NMsg) => ret[r1] # ret[r2]
\* drain first: nobody is told Disconnected while a message is still queued for good
Min(a, b) == IF a < b THEN a ELSE b
DrainThenDisconnected ==
  AllOver => /\ Cardinality(Got) = Min(NMsg, Cardinality(Receivers))
             /\ \A r \in Receivers : ret[r] \in Got \/ ret[r] = Disconnected
\* NoHangAfterLastSender = TLC deadlock check (a receiver parked for ever is a deadlock)
=============================================================================
