------------------------------ MODULE MpmcChan ------------------------------
(* Literal model of src/sync/mpmc.rs (SegQueue + Semphore): send / recv / try_recv / recv_timeout,
   clone and drop of Sender and Receiver, several receivers.  pc[a] = name of the verification point
   the actor is stopped at; labels without a dot are internal.  The SegQueue is an atomic FIFO and
   the Semphore is its contract (C10): a counter plus a FIFO of blocked waiters; post() hands the
   permit to the first blocked waiter, a timed wait gives up at Tick (virtual time jumps to the
   earliest deadline).  A blocked receiver is "sem.blocked" and continues at mpmc.recv.pop.

   FixM = FALSE is the pinned tree:
     - the last Sender posts "until the value is positive" (wakes the receivers blocked right now
       and leaves one permit);
     - try_recv, after a failed try_wait, reports Disconnected as soon as it reads tx_ports = 0;
     - a receiver that consumed a permit and finds no data reports Disconnected and keeps the permit.
   That loses a message (try_recv says Disconnected while one is queued: defect F4b) and strands a
   receiver that passed its tx_ports check before the last sender left (defect F4).
   FixM = TRUE is the repaired protocol: the last Sender posts exactly one surplus permit, a receiver
   that finds no data behind a permit passes the permit on, try_recv re-tries the permit after reading
   tx_ports = 0.                                                                           *)
EXTENDS Integers, FiniteSets, Sequences, TLC

CONSTANTS Actors, Receivers, Prog, Dur, FixM

VARIABLES queue, sem, semq, txPorts, rxPorts,
          pc, ip, nsent, rret, retried,
          deadline, now, timerHost,
          pushed, sentOk, got, dropped, discQ
vars == <<queue, sem, semq, txPorts, rxPorts, pc, ip, nsent, rret, retried, deadline, now, timerHost,
          pushed, sentOk, got, dropped, discQ>>

Senders == Actors \ Receivers
Op(a) == Prog[a][ip[a]]
FirstPc(op) == CASE op = "send" -> "mpmc.send.load_rx" [] op = "clone" -> "mpmc.clone_tx.inc"
                 [] op = "drop" -> "mpmc.drop_tx.dec" [] op = "rdrop" -> "mpmc.drop_rx.dec"
                 [] OTHER -> "mpmc.try.wait"
StartPc(a) == IF Len(Prog[a]) = 0 THEN "done" ELSE FirstPc(Prog[a][1])

Init ==
  /\ queue = <<>> /\ sem = 0 /\ semq = <<>>
  /\ txPorts = Cardinality(Senders) /\ rxPorts = Cardinality(Receivers)
  /\ ip = [a \in Actors |-> 1] /\ pc = [a \in Actors |-> StartPc(a)]
  /\ nsent = [a \in Actors |-> 0]
  /\ rret = [a \in Actors |-> "none"]
  /\ retried = [a \in Actors |-> FALSE]
  /\ deadline = [a \in Actors |-> 0] /\ now = 0 /\ timerHost = "none"
  /\ pushed = {} /\ sentOk = {} /\ got = [a \in Actors |-> <<>>] /\ dropped = {}
  /\ discQ = [a \in Actors |-> 0]

Goto(a, l) == pc' = [pc EXCEPT ![a] = l]
\* values in the queue that no other receiver has already claimed with a permit (a receiver between
\* its successful permit and its pop will take one of them)
Claims(a) == Cardinality({b \in Receivers \ {a} : pc[b] \in {"mpmc.try.pop", "mpmc.recv.pop"}})
Unclaimed(a) == IF Len(queue) > Claims(a) THEN Len(queue) - Claims(a) ELSE 0
UNCH_Q == UNCHANGED <<queue, txPorts, rxPorts>>
UNCH_S == UNCHANGED <<sem, semq>>
UNCH_T == UNCHANGED <<deadline, now, timerHost>>
UNCH_H == UNCHANGED <<pushed, sentOk, got, dropped, discQ>>
LeaveTimer(a) == timerHost' = IF timerHost = a THEN "none" ELSE timerHost

\* Semphore::post(), atomically: the first blocked waiter gets the permit, else the value grows.
\* `base` carries the other pc updates of the step.
Post(base) ==
  IF semq = <<>>
    THEN sem' = sem + 1 /\ semq' = semq /\ pc' = base /\ UNCHANGED deadline
    ELSE LET h == Head(semq) IN
         /\ sem' = sem /\ semq' = Tail(semq)
         /\ pc' = [base EXCEPT ![h] = "mpmc.recv.pop"]
         /\ deadline' = [deadline EXCEPT ![h] = 0]

(* ------------------------------- senders ------------------------------- *)
SendLoadRx(a) ==
  /\ pc[a] = "mpmc.send.load_rx"
  /\ Goto(a, IF rxPorts = 0 THEN "next" ELSE "mpmc.send.push")
  /\ UNCHANGED <<ip, nsent, rret, retried>> /\ UNCH_Q /\ UNCH_S /\ UNCH_T /\ UNCH_H
\* queue.push(t); sem.post()   (no point in between)
SendPush(a) ==
  /\ pc[a] = "mpmc.send.push"
  /\ LET m == <<a, nsent[a] + 1>> IN
       queue' = Append(queue, m) /\ pushed' = pushed \cup {m} /\ sentOk' = sentOk \cup {m}
  /\ nsent' = [nsent EXCEPT ![a] = @ + 1]
  /\ Post([pc EXCEPT ![a] = "next"])
  /\ UNCHANGED <<txPorts, rxPorts, ip, rret, retried, now, timerHost, got, dropped, discQ>>
CloneTx(a) ==
  /\ pc[a] = "mpmc.clone_tx.inc" /\ txPorts' = txPorts + 1 /\ Goto(a, "next")
  /\ UNCHANGED <<queue, rxPorts, ip, nsent, rret, retried>> /\ UNCH_S /\ UNCH_T /\ UNCH_H
DropTxDec(a) ==
  /\ pc[a] = "mpmc.drop_tx.dec"
  /\ txPorts' = txPorts - 1
  /\ Goto(a, IF txPorts = 1 THEN "mpmc.drop_tx.get" ELSE "next")
  /\ UNCHANGED <<queue, rxPorts, ip, nsent, rret, retried>> /\ UNCH_S /\ UNCH_T /\ UNCH_H
\* the last Sender.  As written: `while sem.get_value() == 0 { sem.post() }` - every blocked waiter is
\* woken and one permit is left; repaired: one unconditional post()
DropTxLoop(a) ==
  /\ pc[a] = "mpmc.drop_tx.get"
  /\ IF FixM THEN Post([pc EXCEPT ![a] = "next"])               \* repaired: exactly one surplus permit
     ELSE IF sem > 0 THEN UNCH_S /\ Goto(a, "next") /\ UNCHANGED deadline
     ELSE /\ sem' = 1 /\ semq' = <<>>
          /\ pc' = [x \in Actors |-> IF x = a THEN "next" ELSE IF \E i \in DOMAIN semq : semq[i] = x THEN "mpmc.recv.pop" ELSE pc[x]]
          /\ deadline' = [x \in Actors |-> IF \E i \in DOMAIN semq : semq[i] = x THEN 0 ELSE deadline[x]]
  /\ UNCHANGED <<ip, nsent, rret, retried, now, timerHost>> /\ UNCH_Q /\ UNCH_H

(* ------------------------------- receivers ------------------------------- *)
Blocking(a) == Op(a) \in {"recv", "trecv"}
\* try_recv(): try_wait
TryWait(a) ==
  /\ pc[a] = "mpmc.try.wait"
  /\ IF sem > 0 THEN sem' = sem - 1 /\ Goto(a, "mpmc.try.pop")
                ELSE UNCHANGED sem /\ Goto(a, "mpmc.try.load_tx")
  /\ retried' = [retried EXCEPT ![a] = FALSE]
  /\ UNCHANGED <<semq, ip, nsent, rret>> /\ UNCH_Q /\ UNCH_T /\ UNCH_H
TryLoadTx(a) ==
  /\ pc[a] = "mpmc.try.load_tx"
  /\ IF txPorts # 0
       THEN /\ rret' = [rret EXCEPT ![a] = "Empty"] /\ UNCHANGED <<discQ, retried>>
            /\ Goto(a, IF Blocking(a) THEN "mpmc.recv.wait" ELSE "next")
       ELSE IF FixM /\ ~retried[a]
              THEN Goto(a, "mpmc.try.rewait") /\ UNCHANGED <<rret, discQ, retried>>
              ELSE /\ rret' = [rret EXCEPT ![a] = "Disconnected"] /\ discQ' = [discQ EXCEPT ![a] = Unclaimed(a)]
                   /\ Goto(a, "next") /\ UNCHANGED retried
  /\ UNCHANGED <<ip, nsent, pushed, sentOk, got, dropped>> /\ UNCH_Q /\ UNCH_S /\ UNCH_T
\* repaired code only: no sender is left, so every message has been posted: try the permit again
TryRewait(a) ==
  /\ pc[a] = "mpmc.try.rewait"
  /\ IF sem > 0 THEN sem' = sem - 1 /\ Goto(a, "mpmc.try.pop") /\ UNCHANGED <<rret, discQ>>
                ELSE /\ UNCHANGED sem /\ rret' = [rret EXCEPT ![a] = "Disconnected"]
                     /\ discQ' = [discQ EXCEPT ![a] = Unclaimed(a)] /\ Goto(a, "next")
  /\ retried' = [retried EXCEPT ![a] = TRUE]
  /\ UNCHANGED <<semq, ip, nsent, pushed, sentOk, got, dropped>> /\ UNCH_Q /\ UNCH_T
\* behind a permit: pop; no data means the permit was the disconnect signal
PopBehindPermit(a, here) ==
  /\ pc[a] = here
  /\ IF queue # <<>>
       THEN /\ queue' = Tail(queue) /\ got' = [got EXCEPT ![a] = Append(@, Head(queue))]
            /\ rret' = [rret EXCEPT ![a] = "Ok"] /\ Goto(a, "next") /\ UNCH_S /\ UNCHANGED <<discQ, deadline>>
       ELSE /\ UNCHANGED <<queue, got>>
            /\ rret' = [rret EXCEPT ![a] = IF txPorts = 0 THEN "Disconnected" ELSE "unreachable"]
            /\ discQ' = [discQ EXCEPT ![a] = Unclaimed(a)]
            /\ IF FixM THEN Post([pc EXCEPT ![a] = "next"])            \* pass the permit on
                       ELSE Goto(a, "next") /\ UNCH_S /\ UNCHANGED deadline
  /\ UNCHANGED <<txPorts, rxPorts, ip, nsent, retried, now, timerHost, pushed, sentOk, dropped>>
TryPop(a) == PopBehindPermit(a, "mpmc.try.pop")
RecvPop(a) == PopBehindPermit(a, "mpmc.recv.pop")
\* recv / recv_timeout: sem.wait() / sem.wait_timeout()
RecvWait(a) ==
  /\ pc[a] = "mpmc.recv.wait"
  /\ IF sem > 0
       THEN sem' = sem - 1 /\ Goto(a, "mpmc.recv.pop") /\ UNCHANGED <<semq, deadline, timerHost>>
       ELSE /\ semq' = Append(semq, a) /\ Goto(a, "sem.blocked") /\ UNCHANGED sem
            /\ deadline' = [deadline EXCEPT ![a] = IF Op(a) = "trecv" THEN now + Dur[a] ELSE 0]
            /\ LeaveTimer(a)
  /\ UNCHANGED <<ip, nsent, rret, retried, now>> /\ UNCH_Q /\ UNCH_H
DropRxDec(a) ==
  /\ pc[a] = "mpmc.drop_rx.dec"
  /\ rxPorts' = rxPorts - 1
  /\ IF rxPorts = 1 THEN dropped' = dropped \cup {queue[i] : i \in DOMAIN queue} /\ queue' = <<>>
                    ELSE UNCHANGED <<dropped, queue>>
  /\ Goto(a, "next")
  /\ UNCHANGED <<txPorts, ip, nsent, rret, retried, pushed, sentOk, got, discQ>> /\ UNCH_S /\ UNCH_T

NextOp(a) ==
  /\ pc[a] = "next"
  /\ IF ip[a] < Len(Prog[a])
       THEN ip' = [ip EXCEPT ![a] = ip[a] + 1] /\ Goto(a, FirstPc(Prog[a][ip[a] + 1])) /\ UNCHANGED timerHost
       ELSE UNCHANGED ip /\ Goto(a, "done") /\ LeaveTimer(a)
  /\ UNCHANGED <<nsent, rret, retried, deadline, now>> /\ UNCH_Q /\ UNCH_S /\ UNCH_H

\* the timed waiter with the earliest deadline gives up (wait_timeout returns false -> Timeout)
TimedBlocked == {a \in Receivers : pc[a] = "sem.blocked" /\ deadline[a] > 0}
Tick ==
  /\ TimedBlocked # {} /\ timerHost = "none"
  /\ LET t == CHOOSE t \in {deadline[a] : a \in TimedBlocked} : \A a \in TimedBlocked : t <= deadline[a]
         v == CHOOSE a \in TimedBlocked : deadline[a] = t IN
       /\ now' = t /\ timerHost' = v
       /\ semq' = SelectSeq(semq, LAMBDA x : x # v)
       /\ rret' = [rret EXCEPT ![v] = "Timeout"] /\ Goto(v, "next")
       /\ deadline' = [deadline EXCEPT ![v] = 0]
  /\ UNCHANGED <<sem, ip, nsent, retried>> /\ UNCH_Q /\ UNCH_H

Step(a) == \/ SendLoadRx(a) \/ SendPush(a) \/ CloneTx(a) \/ DropTxDec(a) \/ DropTxLoop(a)
           \/ TryWait(a) \/ TryLoadTx(a) \/ TryRewait(a) \/ TryPop(a) \/ RecvPop(a) \/ RecvWait(a) \/ DropRxDec(a)
Internal(a) == NextOp(a)
InternalPcs == {"next"}
Obs(a) == -1
Cancel(a) == FALSE /\ UNCHANGED vars

Finished(a) == pc[a] \in {"done", "dead"}
\* a recv() while senders are alive and silent blocks for ever by specification
LegitBlocked(a) == pc[a] = "sem.blocked" /\ deadline[a] = 0 /\ txPorts > 0
Terminal == (\A a \in Actors : Finished(a) \/ LegitBlocked(a)) /\ UNCHANGED vars
Next == (\E a \in Actors : Step(a) \/ Internal(a)) \/ Tick \/ Terminal
Spec == Init /\ [][Next]_vars
-----------------------------------------------------------------------------
AllGot == UNION {{got[a][i] : i \in DOMAIN got[a]} : a \in Actors}
DeliveredOnce  == /\ \A a \in Actors : Cardinality({got[a][i] : i \in DOMAIN got[a]}) = Len(got[a])
                  /\ \A a, b \in Actors : a # b => {got[a][i] : i \in DOMAIN got[a]} \cap {got[b][i] : i \in DOMAIN got[b]} = {}
                  /\ AllGot \cap dropped = {}
NoInvented     == AllGot \subseteq pushed
PerSenderOrder == \A a \in Actors : \A i, j \in DOMAIN got[a] :
                    (i < j /\ got[a][i][1] = got[a][j][1]) => got[a][i][2] < got[a][j][2]
\* Disconnected only once every queued value has been taken or claimed by a receiver that holds its
\* permit, and every sender is gone; never the unreachable!() arm
DrainThenDisconnected == \A a \in Actors : /\ rret[a] # "unreachable"
                                           /\ (rret[a] = "Disconnected" => (discQ[a] = 0 /\ txPorts = 0))
NothingLost == (\A a \in Actors : Finished(a)) =>
                 (sentOk \subseteq (AllGot \cup dropped \cup {queue[i] : i \in DOMAIN queue}))
\* NoHangAfterLastSender / WokenBySend: deadlock-freedom (Terminal is the only legitimate rest)
=============================================================================
