\* code as written (Fix7 = FALSE): FrameOutlivesChildren violated (F7)
SPECIFICATION Spec
CONSTANTS
  Children = {"k1","k2"}
  Fix7 = FALSE
INVARIANTS FrameOutlivesChildren
CHECK_DEADLOCK TRUE
