------------------------------ MODULE SpscChan ------------------------------
(* Literal model of src/sync/spsc.rs: one Sender (send, drop), one Receiver (recv, try_recv, drop).
   pc[a] = name of the verification point the actor is stopped at; labels without a dot are
   internal.  The queue is the L0 contract (atomic FIFO, C03).

   The receiver blocks in two different ways:
   * a *coroutine* (RxCo = TRUE) yields with a 'Park' event source; only the kernel side of the
     yield (Park::subscribe, running on the worker after the stack switch: the points named spscsub.store, spscsub.recheck, spscsub.take)
     stores the coroutine into `wait_co`, re-checks the queue and possibly takes itself out again.
     A sender that takes the coroutine while the kernel side is still at work resumes it at once,
     but the resumed coroutine cannot pass Park::drop before the kernel side has finished
     (wait_kernel), so the actor's steps stay sequential;
   * a *thread* stores a thread handle into `wait_co`, re-checks with try_recv and calls
     std::thread::park() (a binary token).

   Fix3 = FALSE is the pinned tree: subscribe re-checks only `queue.is_empty()`, not `channels`, so a
   sender that drops between the receiver's failed try_recv and its registration is missed and
   the coroutine sleeps for ever (defect F3).  Fix3 = TRUE re-checks both.                 *)
EXTENDS Integers, FiniteSets, Sequences, TLC

CONSTANTS Actors, Rx, Prog, RxCo, Fix3

VARIABLES queue, waitCo, channels, portDropped, thToken,
          pc, ip, mode, nsent, rret, woken, parked,
          pushed, sentOk, got, dropped, discAt
vars == <<queue, waitCo, channels, portDropped, thToken, pc, ip, mode, nsent, rret, woken, parked,
          pushed, sentOk, got, dropped, discAt>>

Op(a) == Prog[a][ip[a]]
FirstPc(op) == CASE op = "send" -> "spsc.send.load_port" [] op = "drop" -> "spsc.drop.store"
                 [] op = "rdrop" -> "spsc.port.store" [] OTHER -> "spsc.try.pop"
StartPc(a) == IF Len(Prog[a]) = 0 THEN "done" ELSE FirstPc(Prog[a][1])

Init ==
  /\ queue = <<>> /\ waitCo = "none" /\ channels = 1 /\ portDropped = FALSE /\ thToken = FALSE
  /\ ip = [a \in Actors |-> 1] /\ pc = [a \in Actors |-> StartPc(a)]
  /\ mode = "plain"      \* which try_recv of the current receiver op: "plain" | "first" | "after"
  /\ nsent = [a \in Actors |-> 0] /\ rret = "none"
  /\ woken = FALSE       \* the suspended / registering coroutine has been taken out of wait_co and resumed
  /\ parked = FALSE
  /\ pushed = {} /\ sentOk = {} /\ got = <<>> /\ dropped = {} /\ discAt = <<>>

Goto(a, l) == pc' = [pc EXCEPT ![a] = l]
UNCH_Q == UNCHANGED <<queue, waitCo, channels, portDropped>>
UNCH_H == UNCHANGED <<pushed, sentOk, got, dropped, discAt>>
UNCH_R == UNCHANGED <<mode, rret>>
UNCH_W == UNCHANGED <<thToken, woken, parked>>

\* wait_co.take() + unpark() by the sender side (send / drop): returns the primed conjuncts
\* for everything a wake-up touches; `next` is where the taker continues
TakeAndWake(a, next) ==
  /\ waitCo' = "none"
  /\ CASE waitCo = "co" ->     \* coroutine: scheduled; if it is fully suspended it runs on from here
            /\ woken' = TRUE /\ UNCHANGED thToken
            /\ IF pc[Rx] = "parked"
                 THEN parked' = FALSE /\ pc' = [pc EXCEPT ![a] = next, ![Rx] = "resumed"]
                 ELSE UNCHANGED parked /\ Goto(a, next)
       [] waitCo = "th" ->     \* thread: Thread::unpark
            /\ UNCHANGED woken
            /\ IF pc[Rx] = "parked"
                 THEN parked' = FALSE /\ UNCHANGED thToken /\ pc' = [pc EXCEPT ![a] = next, ![Rx] = "resumed"]
                 ELSE thToken' = TRUE /\ UNCHANGED parked /\ Goto(a, next)
       [] OTHER -> UNCHANGED <<thToken, woken, parked>> /\ Goto(a, next)

(* ------------------------------- sender ------------------------------- *)
SendLoadPort(a) ==
  /\ pc[a] = "spsc.send.load_port"
  /\ Goto(a, IF portDropped THEN "next" ELSE "spsc.send.push")
  /\ UNCHANGED <<ip, nsent>> /\ UNCH_Q /\ UNCH_H /\ UNCH_R /\ UNCH_W
SendPush(a) ==
  /\ pc[a] = "spsc.send.push"
  /\ LET m == <<a, nsent[a] + 1>> IN queue' = Append(queue, m) /\ pushed' = pushed \cup {m}
  /\ nsent' = [nsent EXCEPT ![a] = @ + 1] /\ Goto(a, "spsc.send.take")
  /\ UNCHANGED <<waitCo, channels, portDropped, ip, sentOk, got, dropped, discAt>> /\ UNCH_R /\ UNCH_W
SendTake(a) ==
  /\ pc[a] = "spsc.send.take"
  /\ sentOk' = sentOk \cup {<<a, nsent[a]>>}
  /\ TakeAndWake(a, "next")
  /\ UNCHANGED <<queue, channels, portDropped, ip, nsent, pushed, got, dropped, discAt>> /\ UNCH_R
DropStore(a) ==
  /\ pc[a] = "spsc.drop.store"
  /\ channels' = 0 /\ Goto(a, "spsc.drop.take")
  /\ UNCHANGED <<queue, waitCo, portDropped, ip, nsent>> /\ UNCH_H /\ UNCH_R /\ UNCH_W
DropTake(a) ==
  /\ pc[a] = "spsc.drop.take"
  /\ TakeAndWake(a, "next")
  /\ UNCHANGED <<queue, channels, portDropped, ip, nsent>> /\ UNCH_H /\ UNCH_R

(* ------------------------------- receiver ------------------------------- *)
Deliver(m) == got' = Append(got, m)
AfterResult == IF mode = "first" THEN "spsc.recv.clear" ELSE "next"
OnEmpty == CASE Op(Rx) = "try" -> "next"
             [] mode = "plain" -> (IF RxCo THEN "spsc.recv.yield" ELSE "spsc.recv.reg")
             [] mode = "first" -> "th.park"             \* thread: registered, re-check said Empty
             [] OTHER -> "recv.loop"                    \* after the wake-up: Empty -> Receiver::recv loops
TryPop ==
  /\ pc[Rx] = "spsc.try.pop"
  /\ IF queue # <<>>
       THEN queue' = Tail(queue) /\ Deliver(Head(queue)) /\ rret' = "Ok" /\ Goto(Rx, AfterResult)
       ELSE UNCHANGED <<queue, got, rret>> /\ Goto(Rx, "spsc.try.load_ch")
  /\ UNCHANGED <<waitCo, channels, portDropped, ip, mode, nsent, pushed, sentOk, dropped, discAt>> /\ UNCH_W
TryLoadCh ==
  /\ pc[Rx] = "spsc.try.load_ch"
  /\ IF channels > 0 THEN Goto(Rx, OnEmpty) /\ rret' = "Empty"
                     ELSE Goto(Rx, "spsc.try.repop") /\ UNCHANGED rret
  /\ UNCHANGED <<ip, mode, nsent>> /\ UNCH_Q /\ UNCH_H /\ UNCH_W
TryRepop ==
  /\ pc[Rx] = "spsc.try.repop"
  /\ IF queue # <<>>
       THEN queue' = Tail(queue) /\ Deliver(Head(queue)) /\ rret' = "Ok" /\ UNCHANGED discAt
       ELSE UNCHANGED <<queue, got>> /\ rret' = "Disconnected" /\ discAt' = queue
  /\ Goto(Rx, AfterResult)
  /\ UNCHANGED <<waitCo, channels, portDropped, ip, mode, nsent, pushed, sentOk, dropped>> /\ UNCH_W
\* thread receiver: register, re-check, std::thread::park
RecvReg ==
  /\ pc[Rx] = "spsc.recv.reg"
  /\ waitCo' = "th" /\ mode' = "first" /\ Goto(Rx, "spsc.try.pop")
  /\ UNCHANGED <<queue, channels, portDropped, ip, nsent, rret>> /\ UNCH_H /\ UNCH_W
RecvClear ==
  /\ pc[Rx] = "spsc.recv.clear"
  /\ waitCo' = "none" /\ Goto(Rx, "next")
  /\ UNCHANGED <<queue, channels, portDropped, ip, nsent>> /\ UNCH_H /\ UNCH_R /\ UNCH_W
\* internal: std::thread::park()
ThPark ==
  /\ pc[Rx] = "th.park"
  /\ IF thToken THEN thToken' = FALSE /\ Goto(Rx, "resumed") /\ UNCHANGED parked
                ELSE parked' = TRUE /\ Goto(Rx, "parked") /\ UNCHANGED thToken
  /\ UNCHANGED <<ip, nsent, woken>> /\ UNCH_Q /\ UNCH_H /\ UNCH_R
\* coroutine receiver: yield; the kernel side registers, re-checks, maybe takes itself back
RecvYield ==
  /\ pc[Rx] = "spsc.recv.yield"
  /\ woken' = FALSE /\ Goto(Rx, "spscsub.store")
  /\ UNCHANGED <<ip, nsent, thToken, parked>> /\ UNCH_Q /\ UNCH_H /\ UNCH_R
SubStore ==
  /\ pc[Rx] = "spscsub.store"
  /\ waitCo' = "co" /\ Goto(Rx, "spscsub.recheck")
  /\ UNCHANGED <<queue, channels, portDropped, ip, nsent>> /\ UNCH_H /\ UNCH_R /\ UNCH_W
SubRecheck ==
  /\ pc[Rx] = "spscsub.recheck"
  /\ Goto(Rx, IF queue # <<>> \/ (Fix3 /\ channels = 0) THEN "spscsub.take" ELSE "sub.end")
  /\ UNCHANGED <<ip, nsent>> /\ UNCH_Q /\ UNCH_H /\ UNCH_R /\ UNCH_W
SubTake ==
  /\ pc[Rx] = "spscsub.take"
  /\ IF waitCo = "co" THEN waitCo' = "none" /\ woken' = TRUE       \* run_coroutine(co) right here
                      ELSE UNCHANGED <<waitCo, woken>>
  /\ Goto(Rx, "sub.end")
  /\ UNCHANGED <<queue, channels, portDropped, ip, nsent, thToken, parked>> /\ UNCH_H /\ UNCH_R
\* internal: the kernel side is done; a coroutine that was taken meanwhile runs on, else it sleeps
SubEnd ==
  /\ pc[Rx] = "sub.end"
  /\ IF woken THEN Goto(Rx, "resumed") /\ UNCHANGED parked
              ELSE parked' = TRUE /\ Goto(Rx, "parked")
  /\ UNCHANGED <<ip, nsent, thToken, woken>> /\ UNCH_Q /\ UNCH_H /\ UNCH_R
\* internal: back in InnerQueue::recv after the wake-up: try_recv again
Resumed ==
  /\ pc[Rx] = "resumed"
  /\ mode' = "after" /\ Goto(Rx, "spsc.try.pop")
  /\ UNCHANGED <<ip, nsent, rret>> /\ UNCH_Q /\ UNCH_H /\ UNCH_W
RecvLoop ==
  /\ pc[Rx] = "recv.loop"
  /\ mode' = "plain" /\ Goto(Rx, "spsc.try.pop")
  /\ UNCHANGED <<ip, nsent, rret>> /\ UNCH_Q /\ UNCH_H /\ UNCH_W
PortStore ==
  /\ pc[Rx] = "spsc.port.store"
  /\ portDropped' = TRUE /\ Goto(Rx, "port.drain")
  /\ UNCHANGED <<queue, waitCo, channels, ip, nsent>> /\ UNCH_H /\ UNCH_R /\ UNCH_W
PortDrain ==
  /\ pc[Rx] = "port.drain"
  /\ dropped' = dropped \cup {queue[i] : i \in DOMAIN queue} /\ queue' = <<>> /\ Goto(Rx, "next")
  /\ UNCHANGED <<waitCo, channels, portDropped, ip, nsent, pushed, sentOk, got, discAt>> /\ UNCH_R /\ UNCH_W

NextOp(a) ==
  /\ pc[a] = "next"
  /\ IF ip[a] < Len(Prog[a])
       THEN ip' = [ip EXCEPT ![a] = ip[a] + 1] /\ Goto(a, FirstPc(Prog[a][ip[a] + 1]))
       ELSE UNCHANGED ip /\ Goto(a, "done")
  /\ mode' = (IF a = Rx THEN "plain" ELSE mode)
  /\ UNCHANGED <<nsent, rret>> /\ UNCH_Q /\ UNCH_H /\ UNCH_W

RStep == TryPop \/ TryLoadCh \/ TryRepop \/ RecvReg \/ RecvClear \/ RecvYield \/ SubStore \/ SubRecheck \/ SubTake \/ PortStore
Step(a) == \/ SendLoadPort(a) \/ SendPush(a) \/ SendTake(a) \/ DropStore(a) \/ DropTake(a)
           \/ (a = Rx /\ RStep)
Internal(a) == NextOp(a) \/ (a = Rx /\ (ThPark \/ SubEnd \/ Resumed \/ RecvLoop \/ PortDrain))
InternalPcs == {"next", "th.park", "sub.end", "resumed", "recv.loop", "port.drain"}
Obs(a) == -1
Cancel(a) == FALSE /\ UNCHANGED vars

Finished(a) == pc[a] \in {"done", "dead"}
\* a recv() whose sender is alive and silent blocks for ever by specification
LegitParked == pc[Rx] = "parked" /\ channels > 0 /\ ~thToken
Terminal == (\A a \in Actors : Finished(a) \/ (a = Rx /\ LegitParked)) /\ UNCHANGED vars
Next == (\E a \in Actors : Step(a) \/ Internal(a)) \/ Terminal
Spec == Init /\ [][Next]_vars
-----------------------------------------------------------------------------
GotSet == {got[i] : i \in DOMAIN got}
DeliveredOnce  == Cardinality(GotSet) = Len(got) /\ GotSet \cap dropped = {}
NoInvented     == GotSet \subseteq pushed
FifoOrder      == \A i, j \in DOMAIN got : i < j => got[i][2] < got[j][2]
DrainThenDisconnected == (rret = "Disconnected" => (discAt = <<>> /\ channels = 0))
NothingLost == (\A a \in Actors : Finished(a)) =>
                 (sentOk \subseteq (GotSet \cup dropped \cup {queue[i] : i \in DOMAIN queue}))
\* NoHangAfterLastSender / WokenBySend: deadlock-freedom (Terminal is the only legitimate rest)
=============================================================================
