------------------------------ MODULE SpscChan ------------------------------
(* DRAFT (round 0).  src/sync/spsc.rs with a *coroutine* receiver: the receiver does not
   register itself; it yields and the worker-side Park::subscribe stores it in wait_co and
   re-checks -- only queue emptiness as written; Fix3 adds the `channels == 0` re-check. *)
EXTENDS Naturals, Sequences, TLC
CONSTANTS NMsg, Fix3
VARIABLES queue, channels, waitCo, co, pcR, pcK, pcS, sent, got, ret
vars == <<queue, channels, waitCo, co, pcR, pcK, pcS, sent, got, ret>>

Init == /\ queue = <<>> /\ channels = 1 /\ waitCo = FALSE /\ co = "user"
        /\ pcR = "recv.pop" /\ pcK = "idle" /\ pcS = (IF NMsg > 0 THEN "send.push" ELSE "drop.store")
        /\ sent = 0 /\ got = <<>> /\ ret = "none"

Running == co = "user"
RPop ==      \* try_recv: queue.pop()
  /\ Running /\ pcR = "recv.pop"
  /\ IF queue # <<>> THEN queue' = Tail(queue) /\ got' = Append(got, Head(queue)) /\ pcR' = "recv.pop"
                     ELSE UNCHANGED <<queue, got>> /\ pcR' = "recv.load_channels"
  /\ UNCHANGED <<channels, waitCo, co, pcK, pcS, sent, ret>>
RLoadChannels ==
  /\ Running /\ pcR = "recv.load_channels"
  /\ pcR' = IF channels > 0 THEN "recv.yield" ELSE "recv.repop"
  /\ UNCHANGED <<queue, channels, waitCo, co, pcK, pcS, sent, got, ret>>
RRepop ==
  /\ Running /\ pcR = "recv.repop"
  /\ IF queue # <<>> THEN queue' = Tail(queue) /\ got' = Append(got, Head(queue)) /\ pcR' = "recv.pop" /\ UNCHANGED ret
                     ELSE UNCHANGED <<queue, got>> /\ ret' = "Disconnected" /\ pcR' = "done"
  /\ UNCHANGED <<channels, waitCo, co, pcK, pcS, sent>>
RYield ==    \* yield_with(&park): switch stacks, the worker runs subscribe()
  /\ Running /\ pcR = "recv.yield" /\ co' = "switching" /\ pcK' = "sub.store_co" /\ pcR' = "recv.pop"
  /\ UNCHANGED <<queue, channels, waitCo, pcS, sent, got, ret>>
KStoreCo ==
  /\ pcK = "sub.store_co" /\ waitCo' = TRUE /\ co' = "slot" /\ pcK' = "sub.recheck"
  /\ UNCHANGED <<queue, channels, pcR, pcS, sent, got, ret>>
KRecheck ==
  /\ pcK = "sub.recheck"
  /\ pcK' = IF queue # <<>> \/ (Fix3 /\ channels = 0) THEN "sub.take" ELSE "idle"
  /\ UNCHANGED <<queue, channels, waitCo, co, pcR, pcS, sent, got, ret>>
KTake ==
  /\ pcK = "sub.take" /\ pcK' = "idle"
  /\ IF waitCo THEN waitCo' = FALSE /\ co' = "user" ELSE UNCHANGED <<waitCo, co>>
  /\ UNCHANGED <<queue, channels, pcR, pcS, sent, got, ret>>
SPush ==
  /\ pcS = "send.push" /\ queue' = Append(queue, sent + 1) /\ sent' = sent + 1 /\ pcS' = "send.take"
  /\ UNCHANGED <<channels, waitCo, co, pcR, pcK, got, ret>>
STake ==     \* wait_co.take() -> unpark (schedule)
  /\ pcS \in {"send.take", "drop.take"}
  /\ IF waitCo THEN waitCo' = FALSE /\ co' = "queued" ELSE UNCHANGED <<waitCo, co>>
  /\ pcS' = IF pcS = "drop.take" THEN "done" ELSE IF sent < NMsg THEN "send.push" ELSE "drop.store"
  /\ UNCHANGED <<queue, channels, pcR, pcK, sent, got, ret>>
SDropStore ==
  /\ pcS = "drop.store" /\ channels' = 0 /\ pcS' = "drop.take"
  /\ UNCHANGED <<queue, waitCo, co, pcR, pcK, sent, got, ret>>
Resume == /\ co = "queued" /\ co' = "user"
          /\ UNCHANGED <<queue, channels, waitCo, pcR, pcK, pcS, sent, got, ret>>
AllOver == pcR = "done" /\ pcS = "done" /\ pcK = "idle"
Stutter == AllOver /\ UNCHANGED vars
Next == RPop \/ RLoadChannels \/ RRepop \/ RYield \/ KStoreCo \/ KRecheck \/ KTake
        \/ SPush \/ STake \/ SDropStore \/ Resume \/ Stutter
Spec == Init /\ [][Next]_vars
DrainThenDisconnected == ret = "Disconnected" => Len(got) = NMsg
InOrder == \A i \in DOMAIN got : got[i] = i
SlotImpliesSuspended == waitCo => co = "slot"
\* NoHangAfterLastSender == TLC deadlock check
=============================================================================
