SPECIFICATION MCSpec
CONSTANTS
  Actors = {"a1", "a2", "a3"}
  Victims = {}
  Prog <- P3a
  Dur <- D
  ForwardOnGiveUp = TRUE
INVARIANTS ReacquireBeforeReturn NoLostNotify
VIEW View
CHECK_DEADLOCK TRUE
