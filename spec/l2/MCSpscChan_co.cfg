SPECIFICATION MCSpec
CONSTANTS
  Actors = {"rx", "s1"}
  Rx = "rx"
  Prog <- Pa
  RxCo = TRUE
  Fix3 = TRUE
INVARIANTS DeliveredOnce NoInvented FifoOrder DrainThenDisconnected NothingLost
VIEW View
CHECK_DEADLOCK TRUE
