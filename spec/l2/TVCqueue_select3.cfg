SPECIFICATION TVSpec
CONSTANTS
  Arms = {"m1", "m2", "m3"}
  K <- KK
  NEvents <- N1
  NPoll = 1
  FixK = TRUE
  UrgentKernel = TRUE
  Fix8 = TRUE
CONSTRAINT TVProgress
POSTCONDITION TVAccepted
CHECK_DEADLOCK FALSE
