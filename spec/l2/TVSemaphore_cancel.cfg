SPECIFICATION TVSpec
CONSTANTS
  Actors = {"a1", "a2", "a3"}
  Victims = {"a1"}
  Prog <- P3c
  Dur <- D
  InitVal = 0
  TimeoutPath = "as_written"
CONSTRAINT TVProgress
POSTCONDITION TVAccepted
CHECK_DEADLOCK FALSE
