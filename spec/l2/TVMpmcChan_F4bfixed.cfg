SPECIFICATION TVSpec
CONSTANTS
  Actors = {"r1", "s1"}
  Receivers = {"r1"}
  Prog <- Pf4b
  Dur <- D
  FixM = TRUE
CONSTRAINT TVProgress
POSTCONDITION TVAccepted
CHECK_DEADLOCK FALSE
