SPECIFICATION TVSpec
CONSTANTS
  Actors = {"r1", "r2", "s1", "s2"}
  Receivers = {"r1", "r2"}
  Prog <- Pa
  Dur <- D
  FixM = TRUE
CONSTRAINT TVProgress
POSTCONDITION TVAccepted
CHECK_DEADLOCK FALSE
