-------------------------------- MODULE Cqueue --------------------------------
(* DRAFT (round 0).  src/cqueue.rs + select! (src/macros.rs): oneshot select arms.
   An arm = top half; EventSender::send (check_cancel; yield_with -> the worker pushes the
   event *carrying the suspended arm* and wakes the poller); bottom half (run by the poller
   inside poll via continue_bottom); EventSender::drop (push Done, cnt -= 1, wake).
   Owner: add arms (spawn, then cnt += 1), poll(None) once (select!), then Cqueue::drop:
   cancel every unfinished arm and poll until Finished. *)
EXTENDS Integers, FiniteSets, Sequences, TLC
CONSTANTS Arms,
          Fix13,   \* FALSE = as written; TRUE = candidate repair: after registering, re-check cnt too
          Fix8     \* FALSE = as written; TRUE = candidate repair: re-pop once after reading cnt = 0
VARIABLES evq, cnt, toWake, token,
          pcA, cancelBit, topDone, bottomRuns, sentEv, host,   \* per arm; host: "worker"|"poller"|"none"
          pcO, added, selectRet, pollRets, inDrop, cur, consumedEv, bad
vars == <<evq, cnt, toWake, token, pcA, cancelBit, topDone, bottomRuns, sentEv, host,
          pcO, added, selectRet, pollRets, inDrop, cur, consumedEv, bad>>
ArmSeq == CHOOSE s \in [1..Cardinality(Arms) -> Arms] : \A i, j \in DOMAIN s : i # j => s[i] # s[j]
Init ==
  /\ evq = <<>> /\ cnt = 0 /\ toWake = FALSE /\ token = FALSE
  /\ pcA = [a \in Arms |-> "unborn"] /\ cancelBit = [a \in Arms |-> FALSE]
  /\ topDone = [a \in Arms |-> FALSE] /\ bottomRuns = [a \in Arms |-> 0]
  /\ sentEv = [a \in Arms |-> FALSE] /\ host = [a \in Arms |-> "none"]
  /\ pcO = "add.spawn" /\ added = 0 /\ selectRet = <<"none">> /\ pollRets = <<>>
  /\ inDrop = FALSE /\ cur = "none" /\ consumedEv = {} /\ bad = "ok"
Flag(c, m) == bad' = IF bad = "ok" /\ c THEN m ELSE bad
UNCH_O == UNCHANGED <<pcO, added, selectRet, pollRets, inDrop, cur, consumedEv>>
GotoA(a, l) == pcA' = [pcA EXCEPT ![a] = l]
\* an arm runs either on a worker (independently) or nested on the poller's thread
CanStep(a) == host[a] = "worker" \/ (host[a] = "poller" /\ pcO = "poll.in_bottom" /\ cur = a)

ATop(a) ==
  /\ pcA[a] = "top" /\ CanStep(a) /\ topDone' = [topDone EXCEPT ![a] = TRUE] /\ GotoA(a, "es.check_cancel")
  /\ UNCHANGED <<evq, cnt, toWake, token, cancelBit, bottomRuns, sentEv, host, bad>> /\ UNCH_O
ACheckCancel(a) ==      \* EventSender::send: cancel.check_cancel() -> Cancel panic -> arm unwinds
  /\ pcA[a] = "es.check_cancel" /\ CanStep(a)
  /\ GotoA(a, IF cancelBit[a] THEN "drop.push_done" ELSE "es.yield")
  /\ UNCHANGED <<evq, cnt, toWake, token, cancelBit, topDone, bottomRuns, sentEv, host, bad>> /\ UNCH_O
AYield(a) ==            \* yield_with(self): short-circuit if cancelled (yield_back ignores it!)
  /\ pcA[a] = "es.yield" /\ CanStep(a)
  /\ IF cancelBit[a] THEN GotoA(a, "bottom") /\ UNCHANGED host
                     ELSE GotoA(a, "sub.push_event") /\ host' = [host EXCEPT ![a] = "kernel"]
  /\ UNCHANGED <<evq, cnt, toWake, token, cancelBit, topDone, bottomRuns, sentEv, bad>> /\ UNCH_O
KPush(a) ==             \* worker side: subscribe pushes the event with the coroutine inside
  /\ pcA[a] = "sub.push_event" /\ evq' = Append(evq, <<"Normal", a>>) /\ sentEv' = [sentEv EXCEPT ![a] = TRUE]
  /\ GotoA(a, "sub.wake")
  /\ UNCHANGED <<cnt, toWake, token, cancelBit, topDone, bottomRuns, host, bad>> /\ UNCH_O
KWake(a) ==
  /\ pcA[a] = "sub.wake" /\ GotoA(a, "in_event") /\ host' = [host EXCEPT ![a] = "none"]
  /\ IF toWake THEN toWake' = FALSE /\ token' = TRUE ELSE UNCHANGED <<toWake, token>>
  /\ UNCHANGED <<evq, cnt, cancelBit, topDone, bottomRuns, sentEv, bad>> /\ UNCH_O
ABottom(a) ==
  /\ pcA[a] = "bottom" /\ CanStep(a) /\ bottomRuns' = [bottomRuns EXCEPT ![a] = @ + 1]
  \* observation (b) of DESIGN C16: when a cancel lands between check_cancel and yield_with the
  \* bottom half runs although no event was ever sent.  The property as stated does not forbid
  \* it (the final drain runs bottom halves of non-selected arms anyway), so it is recorded in
  \* `unsentBottom`-style diagnostics only, not flagged.
  /\ GotoA(a, "drop.push_done")
  /\ UNCHANGED <<evq, cnt, toWake, token, cancelBit, topDone, sentEv, host, bad>> /\ UNCH_O
ADropPush(a) ==
  /\ pcA[a] = "drop.push_done" /\ CanStep(a) /\ evq' = Append(evq, <<"Done", a>>) /\ GotoA(a, "drop.dec_cnt")
  /\ UNCHANGED <<cnt, toWake, token, cancelBit, topDone, bottomRuns, sentEv, host, bad>> /\ UNCH_O
ADropDec(a) ==
  /\ pcA[a] = "drop.dec_cnt" /\ CanStep(a) /\ cnt' = cnt - 1 /\ GotoA(a, "drop.wake")
  /\ UNCHANGED <<evq, toWake, token, cancelBit, topDone, bottomRuns, sentEv, host, bad>> /\ UNCH_O
ADropWake(a) ==
  /\ pcA[a] = "drop.wake" /\ CanStep(a) /\ GotoA(a, "ended")
  /\ IF toWake THEN toWake' = FALSE /\ token' = TRUE ELSE UNCHANGED <<toWake, token>>
  /\ UNCHANGED <<evq, cnt, cancelBit, topDone, bottomRuns, sentEv, host, bad>> /\ UNCH_O

(* owner *)
UNCH_A == UNCHANGED <<pcA, cancelBit, topDone, bottomRuns, sentEv, host>>
OSpawn ==
  /\ pcO = "add.spawn" /\ LET a == ArmSeq[added + 1] IN
       /\ pcA' = [pcA EXCEPT ![a] = "top"] /\ host' = [host EXCEPT ![a] = "worker"]
  /\ pcO' = "add.inc_cnt"
  /\ UNCHANGED <<evq, cnt, toWake, token, cancelBit, topDone, bottomRuns, sentEv, added, selectRet, pollRets, inDrop, cur, consumedEv, bad>>
OIncCnt ==
  /\ pcO = "add.inc_cnt" /\ cnt' = cnt + 1 /\ added' = added + 1
  /\ pcO' = IF added + 1 < Cardinality(Arms) THEN "add.spawn" ELSE "poll.pop1"
  /\ UNCHANGED <<evq, toWake, token, selectRet, pollRets, inDrop, cur, consumedEv, bad>> /\ UNCH_A
PollReturn(r) ==        \* poll returns r; select! takes the first result, drop keeps polling
  /\ pollRets' = Append(pollRets, r)
  /\ IF ~inDrop
       THEN /\ selectRet' = r /\ inDrop' = TRUE /\ pcO' = "drop.cancel_all"
       ELSE /\ UNCHANGED <<selectRet, inDrop>>
            /\ pcO' = IF r = <<"Finished">> THEN "left" ELSE "poll.pop1"
RunEv(ev) ==            \* run_ev!: Done -> check_panic, continue;  Normal -> continue_bottom, return
  IF ev[1] = "Done"
    THEN /\ pcO' = "poll.check_panic" /\ cur' = ev[2]     \* selectors[id].take().join(): waits for the arm
         /\ UNCHANGED <<consumedEv, pollRets, selectRet, inDrop, pcA, host>>
    ELSE /\ cur' = ev[2] /\ consumedEv' = consumedEv \cup {ev[2]} /\ pcO' = "poll.in_bottom"
         /\ pcA' = [pcA EXCEPT ![ev[2]] = "bottom"] /\ host' = [host EXCEPT ![ev[2]] = "poller"]
         /\ UNCHANGED <<pollRets, selectRet, inDrop>>
OPop1 ==
  /\ pcO = "poll.pop1"
  /\ IF evq # <<>> THEN evq' = Tail(evq) /\ RunEv(Head(evq))
                   ELSE UNCHANGED <<evq, cur, consumedEv, pollRets, selectRet, inDrop, pcA, host>> /\ pcO' = "poll.load_cnt"
  /\ UNCHANGED <<cnt, toWake, token, cancelBit, topDone, bottomRuns, sentEv, added, bad>>
OLoadCnt ==
  /\ pcO = "poll.load_cnt"
  /\ IF cnt = 0
       THEN IF Fix8 /\ evq # <<>>
              THEN pcO' = "poll.pop1" /\ UNCHANGED <<pollRets, selectRet, inDrop, bad>>
              ELSE PollReturn(<<"Finished">>) /\ Flag(evq # <<>>, "Finished returned with an unconsumed event in the queue")
       ELSE pcO' = "poll.reg" /\ UNCHANGED <<pollRets, selectRet, inDrop, bad>>
  /\ UNCHANGED <<evq, cnt, toWake, token, added, cur, consumedEv>> /\ UNCH_A
OReg ==
  /\ pcO = "poll.reg" /\ toWake' = TRUE /\ token' = FALSE /\ pcO' = "poll.pop2"
  /\ UNCHANGED <<evq, cnt, added, selectRet, pollRets, inDrop, cur, consumedEv, bad>> /\ UNCH_A
OPop2 ==
  /\ pcO = "poll.pop2"
  /\ IF evq # <<>> THEN evq' = Tail(evq) /\ toWake' = FALSE /\ RunEv(Head(evq))
                   ELSE /\ UNCHANGED <<evq, cur, consumedEv, pollRets, selectRet, inDrop, pcA, host>>
                        /\ IF Fix13 /\ cnt = 0 THEN toWake' = FALSE /\ pcO' = "poll.pop1"
                                                ELSE UNCHANGED toWake /\ pcO' = "poll.park"
  /\ UNCHANGED <<cnt, token, cancelBit, topDone, bottomRuns, sentEv, added, bad>>
OPark ==
  /\ pcO = "poll.park" /\ token /\ token' = FALSE /\ pcO' = "poll.pop1"
  /\ UNCHANGED <<evq, cnt, toWake, added, selectRet, pollRets, inDrop, cur, consumedEv, bad>> /\ UNCH_A
OCheckPanic ==          \* JoinHandle::join() of the arm named by the Done event
  /\ pcO = "poll.check_panic" /\ pcA[cur] = "ended" /\ pcO' = "poll.pop1"
  /\ UNCHANGED <<evq, cnt, toWake, token, added, selectRet, pollRets, inDrop, cur, consumedEv, bad>> /\ UNCH_A
OBottomDone ==          \* continue_bottom returned: the nested arm ended (oneshot) -> return Ok(ev)
  /\ pcO = "poll.in_bottom" /\ pcA[cur] = "ended"
  /\ PollReturn(<<"Ok", cur>>) /\ host' = [host EXCEPT ![cur] = "none"]
  /\ UNCHANGED <<evq, cnt, toWake, token, added, cur, consumedEv, bad, pcA, cancelBit, topDone, bottomRuns, sentEv>>
ODropCancel ==          \* Cqueue::drop: cancel every arm that is not done
  /\ pcO = "drop.cancel_all"
  /\ cancelBit' = [a \in Arms |-> IF pcA[a] # "ended" THEN TRUE ELSE cancelBit[a]]
  /\ pcO' = "poll.pop1"
  /\ UNCHANGED <<evq, cnt, toWake, token, added, selectRet, pollRets, inDrop, cur, consumedEv, bad, pcA, topDone, bottomRuns, sentEv, host>>
AllOver == pcO = "left" /\ \A a \in Arms : pcA[a] \in {"ended", "in_event"}
Stutter == AllOver /\ UNCHANGED vars
Next == \/ \E a \in Arms : ATop(a) \/ ACheckCancel(a) \/ AYield(a) \/ KPush(a) \/ KWake(a) \/ ABottom(a)
                           \/ ADropPush(a) \/ ADropDec(a) \/ ADropWake(a)
        \/ OSpawn \/ OIncCnt \/ OPop1 \/ OLoadCnt \/ OReg \/ OPop2 \/ OPark \/ OCheckPanic \/ OBottomDone \/ ODropCancel
        \/ Stutter
Spec == Init /\ [][Next]_vars
-----------------------------------------------------------------------------
NothingBad == bad = "ok"
BottomOnce == \A a \in Arms : bottomRuns[a] <= 1
BottomAfterOwnTop == \A a \in Arms : bottomRuns[a] > 0 => topDone[a]
SelectReturnsRunArm == (selectRet[1] = "Ok") => (topDone[selectRet[2]] /\ bottomRuns[selectRet[2]] = 1)
SelectNeverFinished == selectRet # <<"Finished">>      \* select!: `_ => unreachable!("select error")`
\* when the owner has left the scope no arm is still executing (an arm left suspended inside an
\* unconsumed event would be a leak: flagged separately)
NoArmRunningAtReturn == pcO = "left" => \A a \in Arms : pcA[a] = "ended"
\* weaker: the arm's *own code* (top/bottom halves) is over, but it may still be inside
\* EventSender::drop, touching the Cqueue after the decrement that released the owner (F12)
NoArmBodyRunningAtReturn == pcO = "left" => \A a \in Arms : pcA[a] \in {"ended", "drop.wake"}
=============================================================================
