------------------------------- MODULE Cqueue -------------------------------
(* Literal model of src/cqueue.rs (EventSender::send / drop, Cqueue::poll, check_panic, Drop) as
   used by cqueue::scope and select!.  Actors: the owner "o" (poller, a thread or a coroutine) and the
   select coroutines (arms).  pc[a] = name of the verification point the actor is stopped at
   (cq.* in cqueue.rs, cqsub.* = kernel side of an arm's yield, blk.* in the poller's Blocker, cqa.* /
   cqo.* placed by the harness in the arm bodies / the owner's closure); labels without a dot are internal.

   An arm runs  top half -> send (check_cancel, yield; the kernel side pushes the event *with the
   suspended coroutine inside* and wakes the poller) -> bottom half (resumed by the poller's
   continue_bottom, nested on the poller's stack) -> ... -> end: EventSender::drop pushes Done,
   decrements cnt, wakes the poller; consuming Done joins the arm (check_panic).
   The owner polls NPoll times, then leaves the scope: Cqueue::drop cancels every unfinished arm and
   polls until Finished.

   Fix8 = FALSE is the pinned tree: poll() returns Finished as soon as it reads cnt = 0 after an empty
   pop, although the arm that made it 0 pushed its Done event *before* the decrement - the event is
   left unconsumed, nobody joins that arm, and the owner can leave the scope while the arm still
   executes the rest of EventSender::drop on the dead Cqueue (defect F8).  Fix8 = TRUE pops once more
   after reading cnt = 0.                                                                *)
EXTENDS Integers, FiniteSets, Sequences, TLC
CONSTANTS Arms, NEvents,         \* NEvents[m]: number of events arm m sends (1 = oneshot)
          K,                     \* K[m]: name of the actor that is the *kernel side* of arm m's yields:
                                 \* EventSender::subscribe runs on the thread that ran the arm, after the
                                 \* stack switch, concurrently with whoever resumes the arm again
          NPoll,                 \* polls by the owner's closure before it leaves the scope
          Fix8,
          FixK                   \* FALSE = pinned tree: nothing keeps an arm from running on (and ending) while the
                                 \* kernel side of its yield is still between the push and `to_wake.take()`, so that
                                 \* kernel side can touch the EventSender / Cqueue after the scope is gone (finding F19);
                                 \* TRUE = the resumed arm first waits for its kernel side (as Park does with wait_kernel)
Owner == "o"
Kernels == {K[m] : m \in Arms}
ArmOf(k) == CHOOSE m \in Arms : K[m] = k
Actors == Arms \cup Kernels \cup {Owner}

VARIABLES evq, cnt, toWake, token,          \* the cqueue; token = the poller's Blocker token
          pc, sent, cancelled, host,        \* host[m]: "self" (own worker) | "o" (nested on the poller) | "evq" (suspended inside an event)
          kon,                              \* kon[m]: where the kernel side of m's current yield runs ("self" | "o")
          armDone, joined,                  \* coroutine really finished / joined by check_panic
          polls, stage, parked, cur,        \* owner: polls done, "closure"|"drop"|"left", parked?, event in hand
          got, topRuns, botRuns, consumed, leftEarly, kLeftEarly
vars == <<evq, cnt, toWake, token, pc, sent, cancelled, host, kon, armDone, joined, polls, stage, parked, cur,
          got, topRuns, botRuns, consumed, leftEarly, kLeftEarly>>

NoEv == <<"none", "none", 0>>
Init ==
  /\ evq = <<>> /\ cnt = Cardinality(Arms) /\ toWake = FALSE /\ token = FALSE
  /\ pc = [a \in Actors |-> IF a = Owner THEN "cqo.poll" ELSE IF a \in Kernels THEN "idle" ELSE "cqa.top"]
  /\ kon = [m \in Arms |-> "self"]
  /\ sent = [m \in Arms |-> 0] /\ cancelled = [m \in Arms |-> FALSE]
  /\ host = [m \in Arms |-> "self"]
  /\ armDone = [m \in Arms |-> FALSE] /\ joined = [m \in Arms |-> FALSE]
  /\ polls = 0 /\ stage = "closure" /\ parked = FALSE /\ cur = NoEv
  /\ got = <<>> /\ topRuns = [m \in Arms |-> 0] /\ botRuns = [m \in Arms |-> 0]
  /\ consumed = {} /\ leftEarly = FALSE /\ kLeftEarly = FALSE

Goto(a, l) == pc' = [pc EXCEPT ![a] = l]
UNCH_Q == UNCHANGED <<evq, cnt, toWake, token>>
UNCH_O == UNCHANGED <<polls, stage, parked, cur>>
UNCH_A == UNCHANGED <<sent, cancelled, host, kon, armDone, joined>>
UNCH_G == UNCHANGED <<got, topRuns, botRuns, consumed, leftEarly, kLeftEarly>>

\* to_wake.take() + unpark of the poller: a parked poller is resumed at once, otherwise the token stays
WakePoller(taker, next) ==
  IF toWake
    THEN /\ toWake' = FALSE
         /\ IF pc[Owner] = "parked" /\ parked
              THEN parked' = FALSE /\ UNCHANGED token /\ pc' = [pc EXCEPT ![taker] = next, ![Owner] = "blk.park.ret"]
              ELSE token' = TRUE /\ UNCHANGED parked /\ Goto(taker, next)
    ELSE UNCHANGED <<toWake, token, parked>> /\ Goto(taker, next)

(* ------------------------------- arms ------------------------------- *)
\* the top half has run; send() begins
ArmTop(m) ==
  /\ pc[m] = "cqa.top"
  /\ topRuns' = [topRuns EXCEPT ![m] = @ + 1] /\ Goto(m, "cq.send.check")
  /\ UNCH_Q /\ UNCH_O /\ UNCH_A /\ UNCHANGED <<got, botRuns, consumed, leftEarly, kLeftEarly>>
\* check_cancel(): a cancelled arm panics (Cancel) and unwinds: EventSender::drop
SendCheck(m) ==
  /\ pc[m] = "cq.send.check"
  /\ Goto(m, IF cancelled[m] THEN "cq.done.push" ELSE "cq.send.yield")
  /\ UNCH_Q /\ UNCH_O /\ UNCH_A /\ UNCH_G
\* yield_with(): a cancel that arrived after the check makes it return at once without publishing
\* the event (yield_back ignores the cancel): the bottom half then runs outside any poll
SendYield(m) ==
  /\ pc[m] = "cq.send.yield"
  /\ pc[K[m]] = "idle"              \* (a second yield while the kernel side of the first is still at work is not modelled)
  /\ IF cancelled[m]
       THEN Goto(m, "cqa.bottom") /\ UNCHANGED kon
       ELSE /\ pc' = [pc EXCEPT ![m] = "switched", ![K[m]] = "cqsub.push"]
            /\ kon' = [kon EXCEPT ![m] = host[m]]
  /\ sent' = [sent EXCEPT ![m] = @ + 1]
  /\ UNCH_Q /\ UNCH_O /\ UNCHANGED <<cancelled, host, armDone, joined>> /\ UNCH_G
\* kernel side (on whichever thread ran the arm: its worker, or the poller when nested)
\* from the push on the suspended arm sits inside the event and whoever pops it may resume it
SubPush(k) ==
  /\ k \in Kernels /\ pc[k] = "cqsub.push"
  /\ LET m == ArmOf(k) IN
       /\ evq' = Append(evq, <<"Normal", m, sent[m]>>)
       /\ pc' = [pc EXCEPT ![k] = "cqsub.take", ![m] = "in_event"]
       /\ host' = [host EXCEPT ![m] = "evq"]
  /\ UNCHANGED <<cnt, toWake, token, sent, cancelled, kon, armDone, joined>> /\ UNCH_O /\ UNCH_G
SubTake(k) ==
  /\ k \in Kernels /\ pc[k] = "cqsub.take"
  /\ LET m == ArmOf(k) IN
       IF kon[m] = Owner
         THEN \* the arm was nested on the poller: this runs on the poller's own thread, which then goes on
              /\ toWake' = FALSE /\ token' = (token \/ toWake) /\ UNCHANGED parked
              /\ pc' = [pc EXCEPT ![k] = "idle", ![Owner] = "poll.ret"]
         ELSE WakePoller(k, "idle")
  /\ kLeftEarly' = (kLeftEarly \/ stage = "left")    \* touches the EventSender / Cqueue after the owner has left the scope
  /\ UNCHANGED <<evq, cnt, polls, stage, cur, got, topRuns, botRuns, consumed, leftEarly>> /\ UNCH_A
\* the bottom half has run (nested on the poller unless the event was never published)
\* internal: back in send() after the resume.  Repaired code: wait until the kernel side of this yield
\* has made its last use of the EventSender (point cq.send.spin_kernel inside the wait loop)
SendResumed(m) ==
  /\ pc[m] = "send.resumed"
  /\ Goto(m, IF FixK /\ pc[K[m]] # "idle" THEN "cq.send.spin_kernel" ELSE "cqa.bottom")
  /\ UNCH_Q /\ UNCH_O /\ UNCH_A /\ UNCH_G
SpinKernel(m) ==
  /\ pc[m] = "cq.send.spin_kernel"
  /\ Goto(m, IF pc[K[m]] # "idle" THEN "cq.send.spin_kernel" ELSE "cqa.bottom")
  /\ UNCH_Q /\ UNCH_O /\ UNCH_A /\ UNCH_G
ArmBottom(m) ==
  /\ pc[m] = "cqa.bottom"
  /\ botRuns' = [botRuns EXCEPT ![m] = @ + 1]
  /\ Goto(m, IF sent[m] < NEvents[m] THEN "cqa.top" ELSE "cq.done.push")
  /\ UNCH_Q /\ UNCH_O /\ UNCH_A /\ UNCHANGED <<got, topRuns, consumed, leftEarly, kLeftEarly>>
\* EventSender::drop
DonePush(m) ==
  /\ pc[m] = "cq.done.push"
  /\ evq' = Append(evq, <<"Done", m, 0>>) /\ Goto(m, "cq.done.dec")
  /\ UNCHANGED <<cnt, toWake, token>> /\ UNCH_O /\ UNCH_A /\ UNCH_G
DoneDec(m) ==
  /\ pc[m] = "cq.done.dec"
  /\ cnt' = cnt - 1 /\ Goto(m, "cq.done.take")
  /\ UNCHANGED <<evq, toWake, token>> /\ UNCH_O /\ UNCH_A /\ UNCH_G
DoneTake(m) ==
  /\ pc[m] = "cq.done.take"
  /\ leftEarly' = (leftEarly \/ stage = "left")          \* touches the Cqueue after the owner has left the scope
  /\ toWake' = FALSE
  /\ IF toWake
       THEN \* a waker was registered: w.unpark() follows (a point of its own, in the arm's context)
            /\ Goto(m, "blk.unpark") /\ UNCHANGED <<armDone, host>>
       ELSE IF host[m] = Owner
              THEN /\ pc' = [pc EXCEPT ![m] = "finished", ![Owner] = "poll.ret"]
                   /\ armDone' = [armDone EXCEPT ![m] = TRUE] /\ host' = [host EXCEPT ![m] = "gone"]
              ELSE Goto(m, "arm.exit") /\ UNCHANGED <<armDone, host>>
  /\ UNCHANGED <<evq, cnt, token, polls, stage, parked, cur, sent, cancelled, kon, joined, got, topRuns, botRuns, consumed, kLeftEarly>>
\* Blocker::unpark() of the poller by an arm that is ending
ArmUnpark(m) ==
  /\ pc[m] = "blk.unpark"
  /\ LET next == IF host[m] = Owner THEN "finished" ELSE "arm.exit" IN
       IF pc[Owner] = "parked" /\ parked
         THEN parked' = FALSE /\ UNCHANGED token /\ pc' = [pc EXCEPT ![m] = next, ![Owner] = "blk.park.ret"]
         ELSE /\ token' = TRUE /\ UNCHANGED parked
              /\ pc' = IF host[m] = Owner THEN [pc EXCEPT ![m] = next, ![Owner] = "poll.ret"] ELSE [pc EXCEPT ![m] = next]
  /\ armDone' = [armDone EXCEPT ![m] = (host[m] = Owner)]
  /\ host' = [host EXCEPT ![m] = IF host[m] = Owner THEN "gone" ELSE host[m]]
  /\ UNCHANGED <<evq, cnt, toWake, polls, stage, cur, sent, cancelled, kon, joined>> /\ UNCH_G
\* internal: the coroutine's epilogue on its own worker: now join() can return
ArmExit(m) ==
  /\ pc[m] = "arm.exit"
  /\ armDone' = [armDone EXCEPT ![m] = TRUE] /\ Goto(m, "finished")
  /\ host' = [host EXCEPT ![m] = "gone"]
  /\ UNCH_Q /\ UNCH_O /\ UNCHANGED <<sent, cancelled, kon, joined>> /\ UNCH_G

(* ------------------------------- owner / poller ------------------------------- *)
\* the owner's closure decides to poll again or to leave the scope
OwnerPoll ==
  /\ pc[Owner] = "cqo.poll"
  /\ IF stage = "closure" /\ polls >= NPoll
       THEN stage' = "drop" /\ Goto(Owner, "cq.drop.cancel")
       ELSE UNCHANGED stage /\ Goto(Owner, "cq.poll.pop")
  /\ UNCH_Q /\ UNCH_A /\ UNCHANGED <<polls, parked, cur>> /\ UNCH_G
\* run_ev!: a popped event in hand
Handle(ev, viaReg) ==
  IF ev[1] = "Done" THEN Goto(Owner, "cq.check_panic") ELSE Goto(Owner, "cq.bottom")
PollPop ==
  /\ pc[Owner] = "cq.poll.pop"
  /\ IF evq # <<>>
       THEN evq' = Tail(evq) /\ cur' = Head(evq) /\ Handle(Head(evq), FALSE)
       ELSE UNCHANGED <<evq, cur>> /\ Goto(Owner, "cq.poll.load_cnt")
  /\ UNCHANGED <<cnt, toWake, token, polls, stage, parked>> /\ UNCH_A /\ UNCH_G
PollLoadCnt ==
  /\ pc[Owner] = "cq.poll.load_cnt"
  /\ IF cnt = 0
       THEN IF Fix8 THEN Goto(Owner, "cq.poll.lastpop") ELSE Goto(Owner, "poll.finished")
       ELSE Goto(Owner, "cq.poll.reg")
  /\ UNCH_Q /\ UNCH_O /\ UNCH_A /\ UNCH_G
\* repaired code only: every arm has ended, so every Done event has been pushed: pop once more
PollLastPop ==
  /\ pc[Owner] = "cq.poll.lastpop"
  /\ IF evq # <<>>
       THEN evq' = Tail(evq) /\ cur' = Head(evq) /\ Handle(Head(evq), FALSE)
       ELSE UNCHANGED <<evq, cur>> /\ Goto(Owner, "poll.finished")
  /\ UNCHANGED <<cnt, toWake, token, polls, stage, parked>> /\ UNCH_A /\ UNCH_G
PollReg ==
  /\ pc[Owner] = "cq.poll.reg"
  /\ toWake' = TRUE /\ token' = FALSE /\ Goto(Owner, "cq.poll.repop")
  /\ UNCHANGED <<evq, cnt>> /\ UNCH_O /\ UNCH_A /\ UNCH_G
PollRepop ==
  /\ pc[Owner] = "cq.poll.repop"
  /\ IF evq # <<>>
       THEN evq' = Tail(evq) /\ cur' = Head(evq) /\ Goto(Owner, "cq.poll.unreg")
       ELSE UNCHANGED <<evq, cur>> /\ Goto(Owner, "blk.park")
  /\ UNCHANGED <<cnt, toWake, token, polls, stage, parked>> /\ UNCH_A /\ UNCH_G
PollUnreg ==
  /\ pc[Owner] = "cq.poll.unreg"
  /\ toWake' = FALSE /\ Handle(cur, TRUE)
  /\ UNCHANGED <<evq, cnt, token>> /\ UNCH_O /\ UNCH_A /\ UNCH_G
ParkEnter ==
  /\ pc[Owner] = "blk.park"
  /\ IF token THEN token' = FALSE /\ Goto(Owner, "blk.park.ret") /\ UNCHANGED parked
              ELSE parked' = TRUE /\ Goto(Owner, "parked") /\ UNCHANGED token
  /\ UNCHANGED <<evq, cnt, toWake, polls, stage, cur>> /\ UNCH_A /\ UNCH_G
ParkReturn ==
  /\ pc[Owner] = "blk.park.ret"
  /\ token' = FALSE /\ Goto(Owner, "cq.poll.pop")
  /\ UNCHANGED <<evq, cnt, toWake>> /\ UNCH_O /\ UNCH_A /\ UNCH_G
\* continue_bottom(): the arm inside the event is resumed *on the poller's stack*
Bottom ==
  /\ pc[Owner] = "cq.bottom"
  /\ LET m == cur[2] IN
       /\ host' = [host EXCEPT ![m] = Owner]
       /\ pc' = [pc EXCEPT ![Owner] = "hosting", ![m] = "send.resumed"]
       /\ consumed' = consumed \cup {<<m, cur[3]>>}
  /\ UNCH_Q /\ UNCH_O /\ UNCHANGED <<sent, cancelled, kon, armDone, joined, got, topRuns, botRuns, leftEarly, kLeftEarly>>
\* internal: the nested arm has yielded or finished: poll returns Ok(ev)
PollRet ==
  /\ pc[Owner] = "poll.ret"
  /\ cur' = NoEv
  /\ IF stage = "drop"      \* Cqueue::drop just polls again
       THEN Goto(Owner, "cq.poll.pop") /\ UNCHANGED <<got, polls>>
       ELSE Goto(Owner, "cqo.poll") /\ got' = Append(got, cur[2]) /\ polls' = polls + 1
  /\ UNCH_Q /\ UNCH_A /\ UNCHANGED <<stage, parked, topRuns, botRuns, consumed, leftEarly, kLeftEarly>>
\* check_panic(id): join the arm (blocks until its coroutine has really finished), then poll goes on
\* (the hook cq.check_panic sits in front of the join: passing it starts the wait - found by code -> spec trace
\* validation, the first version of this action modelled the hook as the *end* of the join)
CheckPanic ==
  /\ pc[Owner] = "cq.check_panic"
  /\ Goto(Owner, "join_wait")
  /\ UNCH_Q /\ UNCHANGED <<polls, stage, parked, sent, cancelled, host, kon, armDone, joined, cur>> /\ UNCH_G
\* internal: the joined arm has finished
CheckPanicJoined ==
  /\ pc[Owner] = "join_wait"
  /\ armDone[cur[2]]
  /\ joined' = [joined EXCEPT ![cur[2]] = TRUE] /\ cur' = NoEv /\ Goto(Owner, "cq.poll.pop")
  /\ UNCH_Q /\ UNCHANGED <<polls, stage, parked, sent, cancelled, host, kon, armDone>> /\ UNCH_G
\* internal: poll returned Err(Finished)
PollFinished ==
  /\ pc[Owner] = "poll.finished"
  /\ IF stage = "drop" THEN stage' = "left" /\ Goto(Owner, "done") /\ UNCHANGED polls
                       ELSE UNCHANGED stage /\ polls' = polls + 1 /\ Goto(Owner, "cqo.poll")
  /\ UNCH_Q /\ UNCH_A /\ UNCHANGED <<parked, cur>> /\ UNCH_G
\* Cqueue::drop: cancel every select coroutine that is not done, then poll until Finished
DropCancel ==
  /\ pc[Owner] = "cq.drop.cancel"
  /\ cancelled' = [m \in Arms |-> cancelled[m] \/ ~armDone[m]]
  /\ Goto(Owner, "cq.poll.pop")
  /\ UNCH_Q /\ UNCH_O /\ UNCHANGED <<sent, host, kon, armDone, joined>> /\ UNCH_G

AStep(m) == ArmTop(m) \/ SendCheck(m) \/ SendYield(m) \/ SpinKernel(m) \/ ArmBottom(m)
            \/ DonePush(m) \/ DoneDec(m) \/ DoneTake(m) \/ ArmUnpark(m)
OStep == OwnerPoll \/ PollPop \/ PollLoadCnt \/ PollLastPop \/ PollReg \/ PollRepop \/ PollUnreg \/ ParkEnter
         \/ ParkReturn \/ Bottom \/ CheckPanic \/ DropCancel
Step(a) == IF a = Owner THEN OStep ELSE IF a \in Kernels THEN (SubPush(a) \/ SubTake(a)) ELSE AStep(a)
Internal(a) == IF a = Owner THEN (PollRet \/ PollFinished \/ CheckPanicJoined) ELSE IF a \in Kernels THEN FALSE ELSE (ArmExit(a) \/ SendResumed(a))
InternalPcs == {"poll.ret", "poll.finished", "arm.exit", "send.resumed"}
Obs(a) == -1
Cancel(a) == FALSE /\ UNCHANGED vars

AllOver == pc[Owner] = "done" /\ \A m \in Arms : pc[m] = "finished" /\ pc[K[m]] = "idle"
Stutter == AllOver /\ UNCHANGED vars
Next == (\E a \in Actors : Step(a) \/ Internal(a)) \/ Stutter
Spec == Init /\ [][Next]_vars
-----------------------------------------------------------------------------
\* every event is consumed at most once, and its bottom half runs at that moment
EventOnce == \A m \in Arms : botRuns[m] <= topRuns[m] /\ botRuns[m] <= NEvents[m] /\ topRuns[m] <= NEvents[m]
\* the scope is not left while a select coroutine is still running / still touches the Cqueue (C14, C16)
NoArmRunningAtReturn == (stage = "left" => \A m \in Arms : armDone[m]) /\ ~leftEarly
\* ... nor while the kernel side of some arm's yield is still at work on the EventSender / Cqueue
NoKernelAtReturn == (stage = "left" => \A m \in Arms : pc[K[m]] = "idle") /\ ~kLeftEarly
\* poll reports Finished only when every select coroutine has ended *and been joined*
FinishedOnlyWhenAllEnded == pc[Owner] = "poll.finished" => \A m \in Arms : pc[m] \in {"finished", "arm.exit", "cq.done.take"} /\ cnt = 0
FinishedMeansJoined == pc[Owner] = "poll.finished" => \A m \in Arms : joined[m]
\* what a poll returns is the token of an arm whose top and bottom half have both run
SelectReturnsRunArm == \A i \in DOMAIN got : topRuns[got[i]] >= 1 /\ botRuns[got[i]] >= 1
=============================================================================
