\* F1: poisoned lock, try_read + write, code as written: NothingBad violated in 8 steps
SPECIFICATION Spec
CONSTANTS
  Actors = {"a1","a2"}
  Prog <- P1
  InitPoison = TRUE
  Fix1 = FALSE
  Fix2 = FALSE
INVARIANTS RWExclusion NothingBad GuardsBalance
CHECK_DEADLOCK TRUE
