------------------------------- MODULE SyncFlag -------------------------------
(* DRAFT (round 0).  src/sync/sync_flag.rs: cnt (fired = isize::MAX, modelled as a large BIG),
   to_wake queue; wait / wait_timeout / fire; the error path `is_unparked ? fire : set_release..`
   is folded into "a timed-out waiter leaves a stale entry" because re-firing is idempotent. *)
EXTENDS Integers, Sequences, FiniteSets, TLC
CONSTANTS Waiters, Timed, Firers, BIG
VARIABLES cnt, toWake, token, pc, result, everFired
vars == <<cnt, toWake, token, pc, result, everFired>>
Actors == Waiters \cup Firers
Init == /\ cnt = 0 /\ toWake = <<>> /\ token = [w \in Waiters |-> FALSE]
        /\ pc = [a \in Actors |-> IF a \in Firers THEN "fire.store" ELSE "wait.is_fired"]
        /\ result = [w \in Waiters |-> "none"] /\ everFired = FALSE
Goto(a, l) == pc' = [pc EXCEPT ![a] = l]
IsFired(a) == /\ pc[a] = "wait.is_fired"
              /\ IF cnt > 0 THEN result' = [result EXCEPT ![a] = "true"] /\ Goto(a, "done")
                            ELSE Goto(a, "wait.push") /\ UNCHANGED result
              /\ UNCHANGED <<cnt, toWake, token, everFired>>
Push(a) == /\ pc[a] = "wait.push" /\ toWake' = Append(toWake, a) /\ Goto(a, "wait.dec")
           /\ UNCHANGED <<cnt, token, result, everFired>>
Dec(a) == /\ pc[a] = "wait.dec" /\ cnt' = cnt - 1
          /\ Goto(a, IF cnt > 0 THEN "wake_all:wait.park" ELSE "wait.park")
          /\ UNCHANGED <<toWake, token, result, everFired>>
WakeAll(a) == /\ \E nxt \in {"wait.park", "done"} :
                   /\ pc[a] = "wake_all:" \o nxt
                   /\ IF toWake = <<>> THEN Goto(a, nxt) /\ UNCHANGED <<toWake, token>>
                      ELSE toWake' = Tail(toWake) /\ token' = [token EXCEPT ![Head(toWake)] = TRUE] /\ UNCHANGED pc
              /\ UNCHANGED <<cnt, result, everFired>>
ParkOk(a) == /\ pc[a] = "wait.park" /\ token[a] /\ token' = [token EXCEPT ![a] = FALSE]
             /\ result' = [result EXCEPT ![a] = "true"] /\ Goto(a, "done")
             /\ UNCHANGED <<cnt, toWake, everFired>>
ParkTimeout(a) == /\ pc[a] = "wait.park" /\ a \in Timed /\ token' = [token EXCEPT ![a] = FALSE]
                  /\ result' = [result EXCEPT ![a] = "false"] /\ Goto(a, "done")
                  /\ UNCHANGED <<cnt, toWake, everFired>>
FireStore(a) == /\ pc[a] = "fire.store" /\ cnt' = BIG /\ everFired' = TRUE /\ Goto(a, "wake_all:done")
                /\ UNCHANGED <<toWake, token, result>>
AllOver == \A a \in Actors : pc[a] = "done"
Next == \/ \E a \in Waiters : IsFired(a) \/ Push(a) \/ Dec(a) \/ ParkOk(a) \/ ParkTimeout(a)
        \/ \E a \in Firers : FireStore(a)
        \/ \E a \in Actors : WakeAll(a)
        \/ (AllOver /\ UNCHANGED vars)
Spec == Init /\ [][Next]_vars
Latch == everFired => cnt > 0                                   \* never reads un-fired again
\* once fired, nobody stays asleep: a parked waiter without a token has a waker in flight
FiredWakesAll == (everFired /\ \E w \in Waiters : pc[w] = "wait.park" /\ ~token[w]) =>
                    \E a \in Actors : pc[a] \in {"wake_all:done", "wake_all:wait.park", "wait.dec", "wait.push"}
\* a wait that returns false was a timed one
FalseOnlyOnTimeout == \A w \in Waiters : result[w] = "false" => w \in Timed
=============================================================================
