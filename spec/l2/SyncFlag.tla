------------------------------- MODULE SyncFlag -------------------------------
(* Literal model of src/sync/sync_flag.rs (wait / wait_timeout / fire) over the SyncBlocker
   hand-shake.  Same conventions as Semaphore.tla: pc[a] = name of the verification point the actor
   is stopped at; park() is the AbsBlocker with real suspension; timed waits expire through Tick
   (virtual time jumps to the earliest pending deadline; the woken coroutine runs on the timer
   thread); Victims can be cancelled.  `cnt` is fired when positive (fire() stores isize::MAX,
   modelled as BIG); waits decrement it.
   wakeup_all() is `while let Some(w) = to_wake.pop() { w.unpark(); if w.take_release() { fire() } }`:
   the pops have no point of their own - the first happens right after the point flag.wakeup, the
   later ones right after sb.take_release.                                                   *)
EXTENDS Integers, FiniteSets, Sequences, TLC
CONSTANTS Actors, Victims, Prog, Dur, BIG,
          GiveUpPath      \* "as_written" | "undo_count"  (mutant: a giving-up waiter does cnt += 1)
VARIABLES cnt, toWake, token, unparked, release, pc, ip, w, retTo,
          cancelled, parked, res, deadline, now, timerHost,
          everFired, falseRet      \* ghost: fire() has stored; a wait returned false
vars == <<cnt, toWake, token, unparked, release, pc, ip, w, retTo, cancelled, parked, res,
          deadline, now, timerHost, everFired, falseRet>>
MaxOps == 3
Blockers == Actors \X (1..MaxOps)
Me(a) == <<a, ip[a]>>
NoB == <<"none", 0>>
Op(a) == Prog[a][ip[a]]
FirstPc(op) == IF op = "fire" THEN "flag.fire.store" ELSE "flag.wait.load"
StartPc(a) == IF Len(Prog[a]) = 0 THEN "done" ELSE FirstPc(Prog[a][1])
Init ==
  /\ cnt = 0 /\ toWake = <<>>
  /\ token = [b \in Blockers |-> FALSE] /\ unparked = [b \in Blockers |-> FALSE]
  /\ release = [b \in Blockers |-> FALSE]
  /\ ip = [a \in Actors |-> 1] /\ pc = [a \in Actors |-> StartPc(a)]
  /\ w = [a \in Actors |-> NoB] /\ retTo = [a \in Actors |-> "next"]
  /\ cancelled = [a \in Actors |-> FALSE] /\ parked = [a \in Actors |-> FALSE]
  /\ res = [a \in Actors |-> "none"] /\ deadline = [a \in Actors |-> 0] /\ now = 0
  /\ timerHost = "none" /\ everFired = FALSE /\ falseRet = FALSE
Goto(a, l) == pc' = [pc EXCEPT ![a] = l]
UNCH_B == UNCHANGED <<token, unparked, release>>
UNCH_S == UNCHANGED <<cnt, toWake>>
UNCH_T == UNCHANGED <<deadline, now, timerHost>>
UNCH_G == UNCHANGED <<everFired, falseRet>>
LeaveTimer(a) == timerHost' = IF timerHost = a THEN "none" ELSE timerHost

WaitLoad(a) ==
  /\ pc[a] = "flag.wait.load"
  /\ Goto(a, IF cnt > 0 THEN "next" ELSE "flag.wait.push")
  /\ retTo' = [retTo EXCEPT ![a] = "next"]
  /\ UNCHANGED <<ip, w, cancelled, parked, res>> /\ UNCH_B /\ UNCH_S /\ UNCH_T /\ UNCH_G
WaitPush(a) ==
  /\ pc[a] = "flag.wait.push"
  /\ toWake' = Append(toWake, Me(a)) /\ Goto(a, "flag.wait.dec")
  /\ UNCHANGED <<cnt, ip, w, retTo, cancelled, parked, res>> /\ UNCH_B /\ UNCH_T /\ UNCH_G
WaitDec(a) ==
  /\ pc[a] = "flag.wait.dec"
  /\ cnt' = cnt - 1
  /\ IF cnt > 0 THEN Goto(a, "flag.wakeup") /\ retTo' = [retTo EXCEPT ![a] = "sb.park"]
                ELSE Goto(a, "sb.park") /\ UNCHANGED retTo
  /\ UNCHANGED <<toWake, ip, w, cancelled, parked, res>> /\ UNCH_B /\ UNCH_T /\ UNCH_G
FireStore(a) ==
  /\ pc[a] = "flag.fire.store"
  /\ cnt' = BIG /\ everFired' = TRUE /\ Goto(a, "flag.wakeup")
  /\ UNCHANGED <<toWake, ip, w, retTo, cancelled, parked, res, falseRet>> /\ UNCH_B /\ UNCH_T
\* pop the next waiter or return from wakeup_all
PopOrReturn(a, from) ==
  IF toWake = <<>>
    THEN /\ Goto(a, retTo[a]) /\ UNCHANGED <<toWake, w>>
    ELSE /\ w' = [w EXCEPT ![a] = Head(toWake)] /\ toWake' = Tail(toWake) /\ Goto(a, "sb.unpark")
Wakeup(a) ==
  /\ pc[a] = "flag.wakeup"
  /\ PopOrReturn(a, "flag.wakeup")
  /\ UNCHANGED <<cnt, ip, retTo, cancelled, parked, res>> /\ UNCH_B /\ UNCH_T /\ UNCH_G
WakeUnpark(a) ==
  /\ pc[a] = "sb.unpark"
  /\ LET b == w[a]  t == b[1] IN
       IF pc[t] = "parked" /\ parked[t] /\ Me(t) = b
         THEN /\ parked' = [parked EXCEPT ![t] = FALSE] /\ res' = [res EXCEPT ![t] = "Ok"]
              /\ pc' = [pc EXCEPT ![a] = "sb.set_unparked", ![t] = "sb.park.ret"]
              /\ UNCHANGED token
         ELSE /\ token' = [token EXCEPT ![b] = TRUE] /\ Goto(a, "sb.set_unparked")
              /\ UNCHANGED <<parked, res>>
  /\ UNCHANGED <<unparked, release, ip, w, retTo, cancelled>> /\ UNCH_S /\ UNCH_T /\ UNCH_G
WakeSetUnparked(a) ==
  /\ pc[a] = "sb.set_unparked"
  /\ unparked' = [unparked EXCEPT ![w[a]] = TRUE] /\ Goto(a, "sb.take_release")
  /\ UNCHANGED <<token, release, ip, w, retTo, cancelled, parked, res>> /\ UNCH_S /\ UNCH_T /\ UNCH_G
TakeRelease(a) ==
  /\ pc[a] = "sb.take_release"
  /\ LET mine == retTo[a] = "g_recheck"
         b == IF mine THEN Me(a) ELSE w[a] IN
       /\ release' = [release EXCEPT ![b] = FALSE]
       /\ IF mine
            THEN /\ UNCHANGED <<toWake, w>>
                 /\ IF release[b] THEN Goto(a, "flag.fire.store") /\ retTo' = [retTo EXCEPT ![a] = "giveup"]
                                  ELSE Goto(a, "giveup") /\ UNCHANGED retTo
            ELSE /\ UNCHANGED retTo
                 /\ IF release[b] THEN Goto(a, "flag.fire.store") /\ UNCHANGED <<toWake, w>>
                                  ELSE PopOrReturn(a, "sb.take_release")
  /\ UNCHANGED <<cnt, token, unparked, ip, cancelled, parked, res>> /\ UNCH_T /\ UNCH_G
ParkEnter(a) ==
  /\ pc[a] = "sb.park"
  /\ IF token[Me(a)]
       THEN /\ token' = [token EXCEPT ![Me(a)] = FALSE] /\ res' = [res EXCEPT ![a] = "Ok"]
            /\ Goto(a, "sb.park.ret") /\ UNCHANGED <<parked, deadline, timerHost>>
       ELSE IF cancelled[a]
         THEN /\ res' = [res EXCEPT ![a] = "Canceled"] /\ Goto(a, "sb.park.ret")
              /\ UNCHANGED <<token, parked, deadline, timerHost>>
         ELSE /\ parked' = [parked EXCEPT ![a] = TRUE] /\ Goto(a, "parked")
              /\ deadline' = [deadline EXCEPT ![a] = IF Op(a) = "twait" THEN now + Dur[a] ELSE 0]
              /\ LeaveTimer(a) /\ UNCHANGED <<token, res>>
  /\ UNCHANGED <<unparked, release, ip, w, retTo, cancelled, now>> /\ UNCH_S /\ UNCH_G
ParkReturn(a) ==
  /\ pc[a] = "sb.park.ret"
  /\ IF res[a] = "Ok"
       THEN /\ Goto(a, "next") /\ UNCHANGED <<token, retTo, cnt>>
       ELSE /\ token' = [token EXCEPT ![Me(a)] = FALSE]
            /\ retTo' = [retTo EXCEPT ![a] = "giveup"]
            /\ IF GiveUpPath = "as_written" THEN Goto(a, "sb.is_unparked") /\ UNCHANGED cnt
               ELSE Goto(a, "giveup") /\ cnt' = IF unparked[Me(a)] THEN cnt ELSE (IF cnt = BIG THEN -BIG ELSE cnt + 1)
  /\ UNCHANGED <<toWake, unparked, release, ip, w, cancelled, parked, res>> /\ UNCH_T /\ UNCH_G
IsUnparked(a) ==
  /\ pc[a] = "sb.is_unparked"
  /\ IF retTo[a] # "g_second"
       THEN IF unparked[Me(a)] THEN Goto(a, "flag.fire.store") /\ retTo' = [retTo EXCEPT ![a] = "giveup"]
                               ELSE Goto(a, "sb.set_release") /\ UNCHANGED retTo
       ELSE IF unparked[Me(a)] THEN Goto(a, "sb.take_release") /\ retTo' = [retTo EXCEPT ![a] = "g_recheck"]
                               ELSE Goto(a, "giveup") /\ UNCHANGED retTo
  /\ UNCHANGED <<ip, w, cancelled, parked, res>> /\ UNCH_B /\ UNCH_S /\ UNCH_T /\ UNCH_G
SetRelease(a) ==
  /\ pc[a] = "sb.set_release"
  /\ release' = [release EXCEPT ![Me(a)] = TRUE] /\ Goto(a, "sb.is_unparked")
  /\ retTo' = [retTo EXCEPT ![a] = "g_second"]
  /\ UNCHANGED <<token, unparked, ip, w, cancelled, parked, res>> /\ UNCH_S /\ UNCH_T /\ UNCH_G
GiveUp(a) ==
  /\ pc[a] = "giveup"
  /\ Goto(a, IF res[a] = "Canceled" THEN "dead" ELSE "next")
  /\ retTo' = [retTo EXCEPT ![a] = "next"]
  /\ falseRet' = (falseRet \/ res[a] = "Timeout")
  /\ IF res[a] = "Canceled" THEN LeaveTimer(a) ELSE UNCHANGED timerHost
  /\ UNCHANGED <<ip, w, cancelled, parked, res, deadline, now, everFired>> /\ UNCH_B /\ UNCH_S
NextOp(a) ==
  /\ pc[a] = "next"
  /\ IF ip[a] < Len(Prog[a])
       THEN ip' = [ip EXCEPT ![a] = ip[a] + 1] /\ Goto(a, FirstPc(Prog[a][ip[a] + 1])) /\ UNCHANGED timerHost
       ELSE UNCHANGED ip /\ Goto(a, "done") /\ LeaveTimer(a)
  /\ res' = [res EXCEPT ![a] = "none"] /\ retTo' = [retTo EXCEPT ![a] = "next"]
  /\ w' = [w EXCEPT ![a] = NoB]
  /\ UNCHANGED <<cancelled, parked, deadline, now>> /\ UNCH_B /\ UNCH_S /\ UNCH_G
TimedParked == {a \in Actors : pc[a] = "parked" /\ parked[a] /\ deadline[a] > 0}
Tick ==
  /\ TimedParked # {} /\ timerHost = "none"
  /\ LET t == CHOOSE t \in {deadline[a] : a \in TimedParked} : \A a \in TimedParked : t <= deadline[a]
         due == {a \in TimedParked : deadline[a] <= t} IN
       /\ now' = t /\ timerHost' = CHOOSE a \in due : TRUE
       /\ parked' = [a \in Actors |-> IF a \in due THEN FALSE ELSE parked[a]]
       /\ res' = [a \in Actors |-> IF a \in due THEN "Timeout" ELSE res[a]]
       /\ pc' = [a \in Actors |-> IF a \in due THEN "sb.park.ret" ELSE pc[a]]
  /\ UNCHANGED <<ip, w, retTo, cancelled, deadline>> /\ UNCH_B /\ UNCH_S /\ UNCH_G
Cancel(a) ==
  /\ a \in Victims /\ ~cancelled[a] /\ pc[a] \notin {"done", "dead"}
  /\ cancelled' = [cancelled EXCEPT ![a] = TRUE]
  /\ IF pc[a] = "parked" /\ ~token[Me(a)]
       THEN /\ parked' = [parked EXCEPT ![a] = FALSE] /\ res' = [res EXCEPT ![a] = "Canceled"]
            /\ pc' = [pc EXCEPT ![a] = "sb.park.ret"]
       ELSE UNCHANGED <<parked, res, pc>>
  /\ UNCHANGED <<ip, w, retTo>> /\ UNCH_B /\ UNCH_S /\ UNCH_T /\ UNCH_G

Step(a) == \/ WaitLoad(a) \/ WaitPush(a) \/ WaitDec(a) \/ FireStore(a) \/ Wakeup(a) \/ WakeUnpark(a)
           \/ WakeSetUnparked(a) \/ TakeRelease(a) \/ ParkEnter(a) \/ ParkReturn(a) \/ IsUnparked(a) \/ SetRelease(a)
Internal(a) == NextOp(a) \/ GiveUp(a)
\* labels at which an actor performs internal steps (no verification point): under the baton these
\* complete before anybody else moves
InternalPcs == {"next", "giveup"}
Obs(a) == IF pc[a] = "sb.park.ret"
            THEN (CASE res[a] = "Ok" -> 0 [] res[a] = "Timeout" -> 1 [] OTHER -> 2) ELSE -1
Finished(a) == pc[a] \in {"done", "dead"}
\* an untimed wait() on a flag nobody fires blocks for ever by specification
LegitParked(a) == pc[a] = "parked" /\ ~token[Me(a)] /\ deadline[a] = 0 /\ a \notin Victims /\ ~everFired
Terminal == (\A a \in Actors : Finished(a) \/ LegitParked(a)) /\ UNCHANGED vars
Next == (\E a \in Actors : Step(a) \/ Internal(a) \/ Cancel(a)) \/ Tick \/ Terminal
Spec == Init /\ [][Next]_vars
-----------------------------------------------------------------------------
\* one-way latch: once fire() has stored, the flag never reads un-fired again
Latch == everFired => cnt > 0
PendingFire == \E a \in Actors : pc[a] = "flag.fire.store"
\* once fired nobody stays asleep (every current and future wait returns true): a parked waiter
\* without a token implies a waker still at work
FiredWakesAll == (everFired /\ \E a \in Actors : pc[a] = "parked" /\ ~token[Me(a)]) =>
                   \E a \in Actors : pc[a] \in {"flag.wakeup", "sb.unpark", "sb.set_unparked", "sb.take_release",
                                                "flag.fire.store", "flag.wait.dec", "sb.is_unparked", "sb.set_release"}
=============================================================================
