SPECIFICATION Spec
CONSTANTS
  ForwardOnTimeout = TRUE
INVARIANTS ReacquireBeforeReturn NoLostNotify
CHECK_DEADLOCK TRUE
