SPECIFICATION MCSpec
CONSTANTS
  Actors = {"a1", "a2", "a3"}
  Victims = {"a2"}
  Ignore = {"a2"}
  FixIgnore = TRUE
  Prog <- Prog1
  ForwardOnCancel = TRUE
  UnlockGt = 1
INVARIANTS MutualExclusion DataVisible PopNeverEmpty QuiescentFree TryLockSound
VIEW View
CHECK_DEADLOCK TRUE
