SPECIFICATION TVSpec
CONSTANTS
  Actors = {"rx", "s1"}
  Rx = "rx"
  Prog <- Pa
  RxCo = FALSE
  Fix3 = TRUE
CONSTRAINT TVProgress
POSTCONDITION TVAccepted
CHECK_DEADLOCK FALSE
