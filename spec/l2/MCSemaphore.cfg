SPECIFICATION Spec
CONSTANTS
  Actors = {"a1","a2","a3","a4"}
  Prog <- Q2
  InitVal = 0
  TimeoutPath = "as_written"
INVARIANTS NeverOverdrawn QuiescentValue PopNeverEmpty PermitsSuffice
CHECK_DEADLOCK TRUE
