SPECIFICATION MCSpec
CONSTANTS
  Actors = {"a1", "a2", "a3"}
  Victims = {}
  Prog <- P3
  Dur <- D
  ForwardOnGiveUp = FALSE
INVARIANTS ReacquireBeforeReturn NoLostNotify
VIEW View
CHECK_DEADLOCK TRUE
