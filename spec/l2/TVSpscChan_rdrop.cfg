SPECIFICATION TVSpec
CONSTANTS
  Actors = {"rx", "s1"}
  Rx = "rx"
  Prog <- Pd
  RxCo = TRUE
  Fix3 = TRUE
CONSTRAINT TVProgress
POSTCONDITION TVAccepted
CHECK_DEADLOCK FALSE
