----------------------------- MODULE MCSpscChan -----------------------------
(* Model-checking / behaviour-export wrapper of SpscChan.tla (see MCMutex.tla). *)
EXTENDS SpscChan
VARIABLE last
Pa == [a \in Actors |-> CASE a = "rx" -> <<"recv", "try", "recv", "recv">> [] OTHER -> <<"send", "send", "drop">>]
P0 == [a \in Actors |-> CASE a = "rx" -> <<"recv">> [] OTHER -> <<"drop">>]
Pd == [a \in Actors |-> CASE a = "rx" -> <<"try", "rdrop">> [] OTHER -> <<"send", "send", "drop">>]
MCInit == Init /\ last = <<"", "", -1>>
MCNext ==
  \/ \E a \in Actors : Step(a) /\ last' = <<a, pc[a], Obs(a)>>
  \/ \E a \in Actors : Internal(a) /\ last' = <<"~", a, -1>>
  \/ Terminal /\ UNCHANGED last
MCSpec == MCInit /\ [][MCNext]_<<vars, last>>
MCNextU ==
  IF \E a \in Actors : pc[a] \in InternalPcs
    THEN \E a \in Actors : Internal(a) /\ last' = <<"~", a, -1>>
    ELSE \/ \E a \in Actors : Step(a) /\ last' = <<a, pc[a], Obs(a)>>
         \/ Terminal /\ UNCHANGED last
MCSpecU == MCInit /\ [][MCNextU]_<<vars, last>>
View == vars
=============================================================================
