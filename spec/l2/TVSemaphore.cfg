SPECIFICATION TVSpec
CONSTANTS
  Actors = {"a1", "a2", "a3", "a4"}
  Victims = {}
  Prog <- P4
  Dur <- D
  InitVal = 0
  TimeoutPath = "as_written"
CONSTRAINT TVProgress
POSTCONDITION TVAccepted
CHECK_DEADLOCK FALSE
