\* code as written (Fix3 = FALSE): TLC reports the F3 deadlock
SPECIFICATION Spec
CONSTANTS
  NMsg = 2
  Fix3 = FALSE
INVARIANTS DrainThenDisconnected InOrder SlotImpliesSuspended
CHECK_DEADLOCK TRUE
