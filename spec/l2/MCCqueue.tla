------------------------------ MODULE MCCqueue ------------------------------
(* Model-checking / behaviour-export wrapper of Cqueue.tla (see MCMutex.tla). *)
EXTENDS Cqueue
VARIABLE last
KK == [m \in Arms |-> CASE m = "m1" -> "k1" [] m = "m2" -> "k2" [] OTHER -> "k3"]
CONSTANT UrgentKernel
N1 == [m \in Arms |-> 1]
N2 == [m \in Arms |-> IF m = "m1" THEN 2 ELSE 1]
MCInit == Init /\ last = <<"", "", -1>>
MCNext ==
  \/ \E a \in Actors : Step(a) /\ last' = <<a, pc[a], Obs(a)>>
  \/ \E a \in Actors : Internal(a) /\ last' = <<"~", a, -1>>
  \/ Stutter /\ UNCHANGED last
MCSpec == MCInit /\ [][MCNext]_<<vars, last>>
\* (the kernel side of a yield is urgent as well in the exported behaviours: it normally completes within
\* nanoseconds; the schedules in which it lingers are the subject of the dedicated F19 unit)
MCNextU ==
  IF \E a \in Actors : pc[a] \in InternalPcs \/ (a = Owner /\ pc[a] = "join_wait" /\ armDone[cur[2]])
    THEN \E a \in Actors : Internal(a) /\ last' = <<"~", a, -1>>
    ELSE IF UrgentKernel /\ \E k \in Kernels : pc[k] # "idle"
    THEN \E k \in Kernels : Step(k) /\ last' = <<k, pc[k], Obs(k)>>
    ELSE \/ \E a \in Actors : Step(a) /\ last' = <<a, pc[a], Obs(a)>>
         \/ Stutter /\ UNCHANGED last
MCSpecU == MCInit /\ [][MCNextU]_<<vars, last>>
View == vars
=============================================================================
