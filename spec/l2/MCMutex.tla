------------------------------ MODULE MCMutex ------------------------------
(* Model-checking / behaviour-export wrapper of Mutex.tla: adds `last`, the label of the step
   just taken (<<actor, site, expected hook argument>>), hidden from the fingerprint by VIEW in
   the exhaustive configs and kept in the graph dumps that feed the replay. *)
EXTENDS Mutex
VARIABLE last

ProgAll == [a \in Actors |-> IF a = "a3" THEN <<"try", "lock">> ELSE <<"lock">>]
Prog2   == [a \in Actors |-> <<"lock", "lock">>]
Prog1 == [a \in Actors |-> <<"lock">>]
ProgMix == [a \in Actors |-> IF a = "a1" THEN <<"lock", "lock">> ELSE IF a = "a2" THEN <<"lock">> ELSE <<"try", "lock">>]
ProgTry == [a \in Actors |-> IF a = "a1" THEN <<"lock", "try">> ELSE IF a = "a2" THEN <<"lock">> ELSE <<"try", "lock">>]

MCInit == Init /\ last = <<"", "", -1>>
MCNext ==
  \/ \E a \in Actors : Step(a) /\ last' = <<a, pc[a], Obs(a)>>
  \/ \E a \in Actors : Internal(a) /\ last' = <<"~", a, -1>>
  \/ \E a \in Actors : Cancel(a) /\ last' = <<"!cancel", a, -1>>
  \/ Stutter /\ UNCHANGED last
MCSpec == MCInit /\ [][MCNext]_<<vars, last>>
\* behaviours realizable under the baton: internal steps are urgent (they complete before anybody else
\* moves).  Used for behaviour export only; the exhaustive check explores MCSpec, a superset.
MCNextU ==
  IF \E a \in Actors : pc[a] \in InternalPcs
    THEN \E a \in Actors : Internal(a) /\ last' = <<"~", a, -1>>
    ELSE \/ \E a \in Actors : Step(a) /\ last' = <<a, pc[a], Obs(a)>>
         \/ \E a \in Actors : Cancel(a) /\ last' = <<"!cancel", a, -1>>
         \/ Stutter /\ UNCHANGED last
MCSpecU == MCInit /\ [][MCNextU]_<<vars, last>>
View == vars
=============================================================================
