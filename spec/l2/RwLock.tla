------------------------------- MODULE RwLock -------------------------------
(* Literal model of src/sync/rwlock.rs: the global lock (cnt + FIFO of SyncBlockers, the same
   hand-shake as Mutex), the reader count `r` protected by the internal mutex `rlock`, and the poison
   flag.  pc[a] = name of the verification point the actor is stopped at; labels without a dot are
   internal.  `rlock` is abstract: an owner plus a FIFO of blocked lockers (its own protocol is
   Mutex.tla); an actor that finds it taken blocks *inside* the step that passed the point and
   continues when the lock is handed to it.

   Operations (Prog[a] is a sequence): "read", "write", "try_read", "try_write" - each followed by
   the critical section (points rw.rcs / rw.wcs, placed by the harness) and the guard drop - and
   "wpanic": write(), then panic inside the critical section (poisons the lock).
   Guards that come back inside a Poisoned error are used like any other, as the property says.

   Two defects of the pinned tree are switchable so that TLC shows them (Fix = FALSE) and checks
   the repaired code (Fix = TRUE):
     Fix1: try_read on a poisoned lock returned the guard via `?` *before* `*r += 1`
     Fix2: a *lost CAS* in try_lock on a poisoned lock was reported as Poisoned, which every
           caller treats as "acquired"                                                    *)
EXTENDS Integers, FiniteSets, Sequences, TLC

CONSTANTS Actors, Victims, Prog, InitPoison, Fix1, Fix2

VARIABLES cnt, toWake, token, unparked, release,     \* global lock
          rl, rlq, r, poison,                        \* rlock owner, rlock waiters, reader count
          pc, ip, w, retTo, cont, cancelled, parked, res,
          holds, bad
vars == <<cnt, toWake, token, unparked, release, rl, rlq, r, poison, pc, ip, w, retTo, cont,
          cancelled, parked, res, holds, bad>>

MaxOps == 3
Blockers == Actors \X (1..MaxOps)
Me(a) == <<a, ip[a]>>
NoB == <<"none", 0>>
Op(a) == Prog[a][ip[a]]
FirstPc(op) == CASE op = "read" -> "rw.read.rlock" [] op = "try_read" -> "rw.try_read.rlock"
                 [] OTHER -> "rw.try.load"
StartPc(a) == IF Len(Prog[a]) = 0 THEN "done" ELSE FirstPc(Prog[a][1])

Init ==
  /\ cnt = 0 /\ toWake = <<>>
  /\ token = [b \in Blockers |-> FALSE] /\ unparked = [b \in Blockers |-> FALSE]
  /\ release = [b \in Blockers |-> FALSE]
  /\ rl = "free" /\ rlq = <<>> /\ r = 0 /\ poison = InitPoison
  /\ ip = [a \in Actors |-> 1] /\ pc = [a \in Actors |-> StartPc(a)]
  /\ w = [a \in Actors |-> NoB] /\ retTo = [a \in Actors |-> "none"]
  /\ cont = [a \in Actors |-> "none"]      \* where a blocked rlock() continues
  /\ cancelled = [a \in Actors |-> FALSE] /\ parked = [a \in Actors |-> FALSE]
  /\ res = [a \in Actors |-> "none"]
  /\ holds = [a \in Actors |-> "none"]     \* "none" | "read" | "write"  (a guard is alive)
  /\ bad = "ok"

Flag(c, m) == bad' = IF bad = "ok" /\ c THEN m ELSE bad
UNCH_B == UNCHANGED <<token, unparked, release>>
UNCH_G == UNCHANGED <<cnt, toWake>>
UNCH_R == UNCHANGED <<rl, rlq, r>>
IsRead(a) == Op(a) \in {"read", "try_read"}

(* ------------- rlock: abstract mutex with FIFO hand-off ------------- *)
\* actor a (at pc[a]) calls rlock.lock() and continues at `next` once it owns it; pcs' is built
\* from the function `base` (other updates of pc in the same step)
RlAcquire(a, next, base) ==
  IF rl = "free"
    THEN /\ rl' = a /\ rlq' = rlq /\ pc' = [base EXCEPT ![a] = next] /\ cont' = cont
    ELSE /\ rl' = rl /\ rlq' = Append(rlq, a) /\ pc' = [base EXCEPT ![a] = "rlock.blocked"]
         /\ cont' = [cont EXCEPT ![a] = next]
\* owner a releases rlock and moves to `next`; the first blocked locker (if any) gets it
RlRelease(a, next, base) ==
  IF rlq = <<>>
    THEN /\ rl' = "free" /\ rlq' = rlq /\ pc' = [base EXCEPT ![a] = next] /\ cont' = cont
    ELSE LET h == Head(rlq) IN
         /\ rl' = h /\ rlq' = Tail(rlq)
         /\ pc' = [base EXCEPT ![a] = next, ![h] = cont[h]]
         /\ cont' = [cont EXCEPT ![h] = "none"]

(* ------------- the global lock: lock / try_lock / unlock ------------- *)
\* where to go once the global lock is (believed to be) held
Acquired(a) == CASE Op(a) = "read" -> "read.inc" [] Op(a) = "try_read" -> "try_read.guard"
                 [] OTHER -> "write.guard"
WouldBlock(a) == CASE Op(a) \in {"read", "write", "wpanic"} -> "rw.lock.push"
                   [] Op(a) = "try_read" -> "try_read.fail"
                   [] OTHER -> "next"

TryLoad(a) ==
  /\ pc[a] = "rw.try.load"
  /\ pc' = [pc EXCEPT ![a] = IF cnt = 0 THEN "rw.try.cas" ELSE WouldBlock(a)]
  /\ UNCHANGED <<ip, w, retTo, cont, cancelled, parked, res, holds, bad, poison>> /\ UNCH_B /\ UNCH_G /\ UNCH_R
TryCas(a) ==
  /\ pc[a] = "rw.try.cas"
  /\ IF cnt = 0 THEN cnt' = 1 /\ pc' = [pc EXCEPT ![a] = Acquired(a)]
     ELSE /\ UNCHANGED cnt
          /\ pc' = [pc EXCEPT ![a] = IF poison /\ ~Fix2 THEN Acquired(a) ELSE WouldBlock(a)]
  /\ UNCHANGED <<toWake, ip, w, retTo, cont, cancelled, parked, res, holds, bad, poison>> /\ UNCH_B /\ UNCH_R
LockPush(a) ==
  /\ pc[a] = "rw.lock.push"
  /\ toWake' = Append(toWake, Me(a)) /\ pc' = [pc EXCEPT ![a] = "rw.lock.inc"]
  /\ UNCHANGED <<cnt, ip, w, retTo, cont, cancelled, parked, res, holds, bad, poison>> /\ UNCH_B /\ UNCH_R
LockInc(a) ==
  /\ pc[a] = "rw.lock.inc"
  /\ cnt' = cnt + 1
  /\ IF cnt = 0 THEN pc' = [pc EXCEPT ![a] = "rw.pop"] /\ retTo' = [retTo EXCEPT ![a] = "sb.park"]
                ELSE pc' = [pc EXCEPT ![a] = "sb.park"] /\ UNCHANGED retTo
  /\ UNCHANGED <<toWake, ip, w, cont, cancelled, parked, res, holds, bad, poison>> /\ UNCH_B /\ UNCH_R
Pop(a) ==
  /\ pc[a] = "rw.pop"
  /\ toWake # <<>>
  /\ w' = [w EXCEPT ![a] = Head(toWake)] /\ toWake' = Tail(toWake) /\ pc' = [pc EXCEPT ![a] = "sb.unpark"]
  /\ UNCHANGED <<cnt, ip, retTo, cont, cancelled, parked, res, holds, bad, poison>> /\ UNCH_B /\ UNCH_R
WakeUnpark(a) ==
  /\ pc[a] = "sb.unpark"
  /\ LET b == w[a]  t == b[1] IN
       IF pc[t] = "parked" /\ parked[t] /\ Me(t) = b
         THEN /\ parked' = [parked EXCEPT ![t] = FALSE] /\ res' = [res EXCEPT ![t] = "Ok"]
              /\ pc' = [pc EXCEPT ![a] = "sb.set_unparked", ![t] = "sb.park.ret"]
              /\ UNCHANGED token
         ELSE /\ token' = [token EXCEPT ![b] = TRUE] /\ pc' = [pc EXCEPT ![a] = "sb.set_unparked"]
              /\ UNCHANGED <<parked, res>>
  /\ UNCHANGED <<unparked, release, ip, w, retTo, cont, cancelled, holds, bad, poison>> /\ UNCH_G /\ UNCH_R
WakeSetUnparked(a) ==
  /\ pc[a] = "sb.set_unparked"
  /\ unparked' = [unparked EXCEPT ![w[a]] = TRUE] /\ pc' = [pc EXCEPT ![a] = "sb.take_release"]
  /\ UNCHANGED <<token, release, ip, w, retTo, cont, cancelled, parked, res, holds, bad, poison>> /\ UNCH_G /\ UNCH_R
\* take_release by the waker (on w[a]) or by the cancelled waiter (retTo = "c_recheck")
TakeRelease(a) ==
  /\ pc[a] = "sb.take_release"
  /\ LET mine == retTo[a] = "c_recheck"
         b == IF mine THEN Me(a) ELSE w[a] IN
       /\ release' = [release EXCEPT ![b] = FALSE]
       /\ IF release[b]
            THEN /\ pc' = [pc EXCEPT ![a] = "rw.unlock.dec"]
                 /\ retTo' = IF mine THEN [retTo EXCEPT ![a] = "canceled"] ELSE retTo
            ELSE /\ pc' = [pc EXCEPT ![a] = IF mine THEN "canceled" ELSE retTo[a]] /\ UNCHANGED retTo
  /\ UNCHANGED <<token, unparked, ip, w, cont, cancelled, parked, res, holds, bad, poison>> /\ UNCH_G /\ UNCH_R
\* unlock(): fetch_sub; retTo says where the caller continues.  A read guard's drop still holds
\* rlock here and releases it afterwards ("runlock.done").
UnlockDec(a) ==
  /\ pc[a] = "rw.unlock.dec"
  /\ cnt' = cnt - 1 /\ Flag(cnt = 0, "global count underflow in unlock")
  /\ pc' = [pc EXCEPT ![a] = IF cnt > 1 THEN "rw.pop" ELSE retTo[a]]
  /\ UNCHANGED <<toWake, ip, w, retTo, cont, cancelled, parked, res, holds, poison>> /\ UNCH_B /\ UNCH_R
ParkEnter(a) ==
  /\ pc[a] = "sb.park"
  /\ IF token[Me(a)]
       THEN /\ token' = [token EXCEPT ![Me(a)] = FALSE] /\ res' = [res EXCEPT ![a] = "Ok"]
            /\ pc' = [pc EXCEPT ![a] = "sb.park.ret"] /\ UNCHANGED parked
       ELSE IF cancelled[a]
         THEN /\ res' = [res EXCEPT ![a] = "Canceled"] /\ pc' = [pc EXCEPT ![a] = "sb.park.ret"]
              /\ UNCHANGED <<token, parked>>
         ELSE /\ parked' = [parked EXCEPT ![a] = TRUE] /\ pc' = [pc EXCEPT ![a] = "parked"]
              /\ UNCHANGED <<token, res>>
  /\ UNCHANGED <<unparked, release, ip, w, retTo, cont, cancelled, holds, bad, poison>> /\ UNCH_G /\ UNCH_R
ParkReturn(a) ==
  /\ pc[a] = "sb.park.ret"
  /\ IF res[a] = "Ok"
       THEN pc' = [pc EXCEPT ![a] = Acquired(a)] /\ UNCHANGED token
       ELSE /\ token' = [token EXCEPT ![Me(a)] = FALSE]
            /\ pc' = [pc EXCEPT ![a] = "sb.is_unparked"]
  /\ UNCHANGED <<unparked, release, ip, w, retTo, cont, cancelled, parked, res, holds, bad, poison>> /\ UNCH_G /\ UNCH_R
IsUnparked(a) ==
  /\ pc[a] = "sb.is_unparked"
  /\ IF retTo[a] # "c_second"
       THEN IF unparked[Me(a)]
              THEN pc' = [pc EXCEPT ![a] = "rw.unlock.dec"] /\ retTo' = [retTo EXCEPT ![a] = "canceled"]
              ELSE pc' = [pc EXCEPT ![a] = "sb.set_release"] /\ UNCHANGED retTo
       ELSE IF unparked[Me(a)]
              THEN pc' = [pc EXCEPT ![a] = "sb.take_release"] /\ retTo' = [retTo EXCEPT ![a] = "c_recheck"]
              ELSE pc' = [pc EXCEPT ![a] = "canceled"] /\ UNCHANGED retTo
  /\ UNCHANGED <<ip, w, cont, cancelled, parked, res, holds, bad, poison>> /\ UNCH_B /\ UNCH_G /\ UNCH_R
SetRelease(a) ==
  /\ pc[a] = "sb.set_release"
  /\ release' = [release EXCEPT ![Me(a)] = TRUE] /\ pc' = [pc EXCEPT ![a] = "sb.is_unparked"]
  /\ retTo' = [retTo EXCEPT ![a] = "c_second"]
  /\ UNCHANGED <<token, unparked, ip, w, cont, cancelled, parked, res, holds, bad, poison>> /\ UNCH_G /\ UNCH_R
\* lock() returned Err(Canceled): write() panics; read() first releases rlock (internal, no point)
Canceled(a) ==
  /\ pc[a] = "canceled"
  /\ IF Op(a) = "read" THEN RlRelease(a, "dead", pc) /\ UNCHANGED r
                       ELSE pc' = [pc EXCEPT ![a] = "dead"] /\ UNCH_R /\ UNCHANGED cont
  /\ UNCHANGED <<ip, w, retTo, cancelled, parked, res, holds, bad, poison>> /\ UNCH_B /\ UNCH_G

(* ------------- read / try_read ------------- *)
ReadRlock(a) ==
  /\ pc[a] = "rw.read.rlock"
  /\ RlAcquire(a, "read.check", pc)
  /\ UNCHANGED <<r, ip, w, retTo, cancelled, parked, res, holds, bad, poison>> /\ UNCH_B /\ UNCH_G
\* internal: `if *r == 0 { self.lock() }`
ReadCheck(a) ==
  /\ pc[a] = "read.check"
  /\ pc' = [pc EXCEPT ![a] = IF r = 0 THEN "rw.try.load" ELSE "read.inc"]
  /\ UNCHANGED <<ip, w, retTo, cont, cancelled, parked, res, holds, bad, poison>> /\ UNCH_B /\ UNCH_G /\ UNCH_R
\* internal: `*r += 1`, guard constructed (Ok or inside Poisoned), rlock released
ReadInc(a) ==
  /\ pc[a] = "read.inc"
  /\ r' = r + 1 /\ holds' = [holds EXCEPT ![a] = "read"]
  /\ RlRelease(a, "rw.rcs", pc)
  /\ UNCHANGED <<ip, w, retTo, cancelled, parked, res, bad, poison>> /\ UNCH_B /\ UNCH_G
TryReadRlock(a) ==
  /\ pc[a] = "rw.try_read.rlock"
  /\ IF rl = "free" THEN rl' = a /\ pc' = [pc EXCEPT ![a] = "try_read.check"]
                    ELSE UNCHANGED rl /\ pc' = [pc EXCEPT ![a] = "next"]
  /\ UNCHANGED <<rlq, r, ip, w, retTo, cont, cancelled, parked, res, holds, bad, poison>> /\ UNCH_B /\ UNCH_G
TryReadCheck(a) ==
  /\ pc[a] = "try_read.check"
  /\ pc' = [pc EXCEPT ![a] = IF r = 0 THEN "rw.try.load" ELSE "try_read.guard"]
  /\ UNCHANGED <<ip, w, retTo, cont, cancelled, parked, res, holds, bad, poison>> /\ UNCH_B /\ UNCH_G /\ UNCH_R
TryReadFail(a) ==
  /\ pc[a] = "try_read.fail"
  /\ RlRelease(a, "next", pc)
  /\ UNCHANGED <<r, ip, w, retTo, cancelled, parked, res, holds, bad, poison>> /\ UNCH_B /\ UNCH_G
\* internal: `let g = RwLockReadGuard::new(self)?; *r += 1;` (as written) - the `?` leaves before the
\* increment when the lock is poisoned
TryReadGuard(a) ==
  /\ pc[a] = "try_read.guard"
  /\ r' = IF poison /\ ~Fix1 THEN r ELSE r + 1
  /\ holds' = [holds EXCEPT ![a] = "read"]
  /\ RlRelease(a, "rw.rcs", pc)
  /\ UNCHANGED <<ip, w, retTo, cancelled, parked, res, bad, poison>> /\ UNCH_B /\ UNCH_G
\* the critical section of a reader ends: guard drop = read_unlock()
LeaveRcs(a) ==
  /\ pc[a] = "rw.rcs"
  /\ pc' = [pc EXCEPT ![a] = "rw.read_unlock.rlock"]
  /\ UNCHANGED <<ip, w, retTo, cont, cancelled, parked, res, holds, bad, poison>> /\ UNCH_B /\ UNCH_G /\ UNCH_R
ReadUnlockRlock(a) ==
  /\ pc[a] = "rw.read_unlock.rlock"
  /\ RlAcquire(a, "runlock.dec", pc)
  /\ UNCHANGED <<r, ip, w, retTo, cancelled, parked, res, holds, bad, poison>> /\ UNCH_B /\ UNCH_G
\* internal: `*r -= 1; if *r == 0 { self.unlock() }`
RunlockDec(a) ==
  /\ pc[a] = "runlock.dec"
  /\ r' = r - 1 /\ Flag(r = 0, "reader count underflow (attempt to subtract with overflow)")
  /\ holds' = [holds EXCEPT ![a] = "none"]
  /\ IF r = 1 THEN pc' = [pc EXCEPT ![a] = "rw.unlock.dec"] /\ retTo' = [retTo EXCEPT ![a] = "runlock.done"]
              ELSE pc' = [pc EXCEPT ![a] = "runlock.done"] /\ UNCHANGED retTo
  /\ UNCHANGED <<rl, rlq, ip, w, cont, cancelled, parked, res, poison>> /\ UNCH_B /\ UNCH_G
RunlockDone(a) ==
  /\ pc[a] = "runlock.done"
  /\ RlRelease(a, "next", pc)
  /\ UNCHANGED <<r, ip, w, retTo, cancelled, parked, res, holds, bad, poison>> /\ UNCH_B /\ UNCH_G

(* ------------- write / try_write / wpanic ------------- *)
WriteGuard(a) ==
  /\ pc[a] = "write.guard"
  /\ holds' = [holds EXCEPT ![a] = "write"] /\ pc' = [pc EXCEPT ![a] = "rw.wcs"]
  /\ UNCHANGED <<ip, w, retTo, cont, cancelled, parked, res, bad, poison>> /\ UNCH_B /\ UNCH_G /\ UNCH_R
\* the writer leaves its critical section (normally or by a panic): guard drop = unlock()
LeaveWcs(a) ==
  /\ pc[a] = "rw.wcs"
  /\ poison' = (poison \/ Op(a) = "wpanic")
  /\ holds' = [holds EXCEPT ![a] = "none"]
  /\ pc' = [pc EXCEPT ![a] = "rw.unlock.dec"]
  /\ retTo' = [retTo EXCEPT ![a] = IF Op(a) = "wpanic" THEN "dead" ELSE "next"]
  /\ UNCHANGED <<ip, w, cont, cancelled, parked, res, bad>> /\ UNCH_B /\ UNCH_G /\ UNCH_R

NextOp(a) ==
  /\ pc[a] = "next"
  /\ IF ip[a] < Len(Prog[a])
       THEN ip' = [ip EXCEPT ![a] = ip[a] + 1] /\ pc' = [pc EXCEPT ![a] = FirstPc(Prog[a][ip[a] + 1])]
       ELSE UNCHANGED ip /\ pc' = [pc EXCEPT ![a] = "done"]
  /\ retTo' = [retTo EXCEPT ![a] = "none"] /\ w' = [w EXCEPT ![a] = NoB] /\ res' = [res EXCEPT ![a] = "none"]
  /\ UNCHANGED <<cont, cancelled, parked, holds, bad, poison>> /\ UNCH_B /\ UNCH_G /\ UNCH_R

Cancel(a) ==
  /\ a \in Victims /\ ~cancelled[a] /\ pc[a] \notin {"done", "dead"}
  /\ cancelled' = [cancelled EXCEPT ![a] = TRUE]
  /\ IF pc[a] = "parked" /\ ~token[Me(a)]
       THEN /\ parked' = [parked EXCEPT ![a] = FALSE] /\ res' = [res EXCEPT ![a] = "Canceled"]
            /\ pc' = [pc EXCEPT ![a] = "sb.park.ret"]
       ELSE UNCHANGED <<parked, res, pc>>
  /\ UNCHANGED <<ip, w, retTo, cont, holds, bad, poison>> /\ UNCH_B /\ UNCH_G /\ UNCH_R

Step(a) ==
  \/ TryLoad(a) \/ TryCas(a) \/ LockPush(a) \/ LockInc(a) \/ Pop(a) \/ WakeUnpark(a) \/ WakeSetUnparked(a)
  \/ TakeRelease(a) \/ UnlockDec(a) \/ ParkEnter(a) \/ ParkReturn(a) \/ IsUnparked(a) \/ SetRelease(a)
  \/ ReadRlock(a) \/ TryReadRlock(a) \/ LeaveRcs(a) \/ ReadUnlockRlock(a) \/ LeaveWcs(a)
Internal(a) ==
  \/ ReadCheck(a) \/ ReadInc(a) \/ TryReadCheck(a) \/ TryReadFail(a) \/ TryReadGuard(a) \/ RunlockDec(a)
  \/ RunlockDone(a) \/ WriteGuard(a) \/ Canceled(a) \/ NextOp(a)
\* labels at which an actor performs internal steps (no verification point): under the baton these
\* complete before anybody else moves
InternalPcs == {"read.check", "read.inc", "try_read.check", "try_read.fail", "try_read.guard", "runlock.dec", "runlock.done", "write.guard", "canceled", "next"}
Obs(a) == IF pc[a] = "sb.park.ret" THEN (IF res[a] = "Ok" THEN 0 ELSE 2) ELSE -1

AllOver == \A a \in Actors : pc[a] \in {"done", "dead"}
Stutter == AllOver /\ UNCHANGED vars
Next == (\E a \in Actors : Step(a) \/ Internal(a) \/ Cancel(a)) \/ Stutter
Spec == Init /\ [][Next]_vars
-----------------------------------------------------------------------------
Writers == {a \in Actors : pc[a] = "rw.wcs"}
Readers == {a \in Actors : pc[a] = "rw.rcs"}
RWExclusion   == Cardinality(Writers) <= 1 /\ ~(Writers # {} /\ Readers # {})
NothingBad    == bad = "ok"
PopNeverEmpty == \A a \in Actors : pc[a] = "rw.pop" => toWake # <<>>
\* once all guards are dropped the lock is free again (stale blockers of cancelled waiters may
\* remain queued, counted in cnt, exactly as for Mutex)
GuardsBalance == AllOver => (cnt = Len(toWake) /\ r = 0 /\ rl = "free")
=============================================================================
