------------------------------- MODULE RwLock -------------------------------
(* DRAFT (round 0).  Literal model of src/sync/rwlock.rs (no cancellation here, so the
   SyncBlocker hand-shake degenerates to a token).  Models, as written:
     - try_lock(): load, then CAS; a *lost CAS* on a poisoned lock returns Poisoned
     - lock(): maps Poisoned to Err(Timeout); read()/write()/try_write() only test for
       Canceled / WouldBlock, i.e. treat it as acquired
     - try_read(): `RwLockReadGuard::new(self)?` returns the guard inside the error
       *before* `*r += 1`
   Fix1/Fix2 switch the candidate repairs on. *)
EXTENDS Integers, FiniteSets, Sequences, TLC

CONSTANTS Actors, Prog,         \* Prog[a] \in {"read","write","try_read","try_write"}
          InitPoison,           \* BOOLEAN
          Fix1,                 \* try_read increments before constructing the guard
          Fix2                  \* lost CAS => WouldBlock

VARIABLES cnt, toWake, token, rl, r, poison, pc, holds, bad
vars == <<cnt, toWake, token, rl, r, poison, pc, holds, bad>>

Init ==
  /\ cnt = 0 /\ toWake = <<>> /\ token = [a \in Actors |-> FALSE]
  /\ rl = "free" /\ r = 0 /\ poison = InitPoison
  /\ pc = [a \in Actors |-> Prog[a] \o ".start"]
  /\ holds = [a \in Actors |-> "none"]          \* "none" | "read" | "write"
  /\ bad = "ok"

Goto(a, l) == pc' = [pc EXCEPT ![a] = l]
Flag(c, m) == bad' = IF bad = "ok" /\ c THEN m ELSE bad
IsReadPath(a) == Prog[a] \in {"read", "try_read"}
Blocking(a) == Prog[a] \in {"read", "write"}

(* ---------------- the global lock: RwLock::lock / try_lock / unlock ---------------- *)
\* after the global lock is (believed to be) held, continue here
AfterGlobal(a) == IF IsReadPath(a) THEN (IF Prog[a] = "read" THEN "read.inc" ELSE "try_read.new_guard")
                                   ELSE "write.new_guard"
\* WouldBlock from try_lock
AfterWouldBlock(a) == CASE Prog[a] = "read"      -> "g.push"
                        [] Prog[a] = "write"     -> "g.push"
                        [] Prog[a] = "try_read"  -> "try_read.fail_unlock_rlock"
                        [] Prog[a] = "try_write" -> "done"

GTryLoad(a) ==
  /\ pc[a] = "g.try_load"
  /\ Goto(a, IF cnt = 0 THEN "g.try_cas" ELSE AfterWouldBlock(a))
  /\ UNCHANGED <<cnt, toWake, token, rl, r, poison, holds, bad>>
GTryCas(a) ==
  /\ pc[a] = "g.try_cas"
  /\ IF cnt = 0 THEN cnt' = 1 /\ Goto(a, AfterGlobal(a))
     ELSE /\ UNCHANGED cnt
          /\ IF poison /\ ~Fix2 THEN Goto(a, AfterGlobal(a))      \* "Poisoned" == proceeds as owner
                                ELSE Goto(a, AfterWouldBlock(a))
  /\ UNCHANGED <<toWake, token, rl, r, poison, holds, bad>>
GPush(a) ==
  /\ pc[a] = "g.push" /\ toWake' = Append(toWake, a) /\ Goto(a, "g.inc")
  /\ UNCHANGED <<cnt, token, rl, r, poison, holds, bad>>
GInc(a) ==
  /\ pc[a] = "g.inc" /\ cnt' = cnt + 1
  /\ Goto(a, IF cnt = 0 THEN "g.selfpop" ELSE "g.park")
  /\ UNCHANGED <<toWake, token, rl, r, poison, holds, bad>>
GSelfPop(a) ==
  /\ pc[a] = "g.selfpop"
  /\ IF toWake # <<>> THEN token' = [token EXCEPT ![Head(toWake)] = TRUE] /\ toWake' = Tail(toWake)
                      ELSE UNCHANGED <<token, toWake>>
  /\ Flag(toWake = <<>>, "got null blocker!")
  /\ Goto(a, "g.park")
  /\ UNCHANGED <<cnt, rl, r, poison, holds>>
GPark(a) ==
  /\ pc[a] = "g.park" /\ token[a] /\ token' = [token EXCEPT ![a] = FALSE]
  /\ Goto(a, AfterGlobal(a))
  /\ UNCHANGED <<cnt, toWake, rl, r, poison, holds, bad>>
\* unlock(): fetch_sub, then pop+unpark one waiter if there was one
GUnlockDec(a, next) ==
  /\ cnt' = cnt - 1
  /\ Flag(cnt = 0, "cnt underflow in unlock")
  /\ Goto(a, IF cnt > 1 THEN "gu.pop:" \o next ELSE next)
GUnlockPop(a) ==
  /\ \E next \in {"done", "runlock.unlock_rlock"} :
       /\ pc[a] = "gu.pop:" \o next
       /\ IF toWake # <<>> THEN token' = [token EXCEPT ![Head(toWake)] = TRUE] /\ toWake' = Tail(toWake)
                           ELSE UNCHANGED <<token, toWake>>
       /\ Flag(toWake = <<>>, "got null blocker!")
       /\ Goto(a, next)
  /\ UNCHANGED <<cnt, rl, r, poison, holds>>

(* ---------------- read / try_read ---------------- *)
ReadStart(a) ==
  /\ pc[a] = "read.start" /\ rl = "free" /\ rl' = a              \* rlock.lock()
  /\ Goto(a, IF r = 0 THEN "g.try_load" ELSE "read.inc")
  /\ UNCHANGED <<cnt, toWake, token, r, poison, holds, bad>>
ReadInc(a) ==
  /\ pc[a] = "read.inc" /\ r' = r + 1 /\ holds' = [holds EXCEPT ![a] = "read"]
  /\ rl' = "free" /\ Goto(a, "holding")                          \* guard returned (Ok or Err(Poisoned(g)))
  /\ UNCHANGED <<cnt, toWake, token, poison, bad>>
TryReadStart(a) ==
  /\ pc[a] = "try_read.start"
  /\ IF rl = "free" THEN rl' = a /\ Goto(a, IF r = 0 THEN "g.try_load" ELSE "try_read.new_guard")
                    ELSE UNCHANGED rl /\ Goto(a, "done")
  /\ UNCHANGED <<cnt, toWake, token, r, poison, holds, bad>>
TryReadFail(a) ==
  /\ pc[a] = "try_read.fail_unlock_rlock" /\ rl' = "free" /\ Goto(a, "done")
  /\ UNCHANGED <<cnt, toWake, token, r, poison, holds, bad>>
TryReadNewGuard(a) ==     \* let g = RwLockReadGuard::new(self)?;  *r += 1;
  /\ pc[a] = "try_read.new_guard"
  /\ r' = IF poison /\ ~Fix1 THEN r ELSE r + 1
  /\ holds' = [holds EXCEPT ![a] = "read"] /\ rl' = "free" /\ Goto(a, "holding")
  /\ UNCHANGED <<cnt, toWake, token, poison, bad>>
\* drop of a read guard
RUnlockStart(a) ==
  /\ pc[a] = "holding" /\ holds[a] = "read" /\ rl = "free" /\ rl' = a
  /\ holds' = [holds EXCEPT ![a] = "none"] /\ Goto(a, "runlock.dec")
  /\ UNCHANGED <<cnt, toWake, token, r, poison, bad>>
RUnlockDec(a) ==
  /\ pc[a] = "runlock.dec" /\ r' = r - 1
  /\ IF r = 1 THEN GUnlockDec(a, "runlock.unlock_rlock") /\ UNCHANGED <<toWake, token>>
              ELSE /\ Goto(a, "runlock.unlock_rlock") /\ UNCHANGED <<cnt, toWake, token>>
                   /\ Flag(r = 0, "reader count underflow (attempt to subtract with overflow)")
  /\ UNCHANGED <<rl, poison, holds>>
RUnlockRl(a) ==
  /\ pc[a] = "runlock.unlock_rlock" /\ rl' = "free" /\ Goto(a, "done")
  /\ UNCHANGED <<cnt, toWake, token, r, poison, holds, bad>>

(* ---------------- write / try_write ---------------- *)
WriteStart(a) ==
  /\ pc[a] \in {"write.start", "try_write.start"} /\ Goto(a, "g.try_load")
  /\ UNCHANGED <<cnt, toWake, token, rl, r, poison, holds, bad>>
WriteNewGuard(a) ==
  /\ pc[a] = "write.new_guard" /\ holds' = [holds EXCEPT ![a] = "write"] /\ Goto(a, "holding")
  /\ UNCHANGED <<cnt, toWake, token, rl, r, poison, bad>>
WUnlock(a) ==
  /\ pc[a] = "holding" /\ holds[a] = "write" /\ holds' = [holds EXCEPT ![a] = "none"]
  /\ GUnlockDec(a, "done")
  /\ UNCHANGED <<toWake, token, rl, r, poison>>

AllOver == \A a \in Actors : pc[a] = "done"
Stutter == AllOver /\ UNCHANGED vars
Next ==
  \/ \E a \in Actors :
       GTryLoad(a) \/ GTryCas(a) \/ GPush(a) \/ GInc(a) \/ GSelfPop(a) \/ GPark(a) \/ GUnlockPop(a)
       \/ ReadStart(a) \/ ReadInc(a) \/ TryReadStart(a) \/ TryReadFail(a) \/ TryReadNewGuard(a)
       \/ RUnlockStart(a) \/ RUnlockDec(a) \/ RUnlockRl(a)
       \/ WriteStart(a) \/ WriteNewGuard(a) \/ WUnlock(a)
  \/ Stutter
Spec == Init /\ [][Next]_vars

Writers == {a \in Actors : holds[a] = "write"}
Readers == {a \in Actors : holds[a] = "read"}
RWExclusion   == Cardinality(Writers) <= 1 /\ ~(Writers # {} /\ Readers # {})
NothingBad    == bad = "ok"
GuardsBalance == AllOver => (cnt = 0 /\ r = 0)
=============================================================================
