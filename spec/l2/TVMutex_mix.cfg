SPECIFICATION TVSpec
CONSTANTS
  Actors = {"a1", "a2", "a3"}
  Victims = {}
  Ignore = {}
  FixIgnore = FALSE
  Prog <- ProgMix
  ForwardOnCancel = TRUE
  UnlockGt = 1
CONSTRAINT TVProgress
POSTCONDITION TVAccepted
CHECK_DEADLOCK FALSE
