
SPECIFICATION Spec
CONSTANTS
  Children = {"k1","k2"}
  Fix7 = TRUE
INVARIANTS FrameOutlivesChildren
CHECK_DEADLOCK TRUE
