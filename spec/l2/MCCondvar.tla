------------------------------ MODULE MCCondvar ------------------------------
(* Model-checking / behaviour-export wrapper of Condvar.tla (see MCMutex.tla). *)
EXTENDS Condvar
VARIABLE last
\* waiter + timed bystander + notifier (notify_one): the timed-out waiter must pass the notification on
P3 == [a \in Actors |-> CASE a = "a1" -> <<"wait">> [] a = "a2" -> <<"twait">> [] OTHER -> <<"notify_one">>]
\* a cancelled waiter must pass it on
P3c == [a \in Actors |-> CASE a = "a1" -> <<"wait">> [] a = "a2" -> <<"wait">> [] OTHER -> <<"notify_one">>]
\* notify_all wakes everybody
P3a == [a \in Actors |-> CASE a = "a1" -> <<"wait">> [] a = "a2" -> <<"wait">> [] OTHER -> <<"notify_one", "notify_all">>]
D == [a \in Actors |-> 1]
MCInit == Init /\ last = <<"", "", -1>>
MCNext ==
  \/ \E a \in Actors : Step(a) /\ last' = <<a, pc[a], Obs(a)>>
  \/ \E a \in Actors : Internal(a) /\ last' = <<"~", a, -1>>
  \/ \E a \in Actors : Cancel(a) /\ last' = <<"!cancel", a, -1>>
  \/ Tick /\ last' = <<"!tick", "", -1>>
  \/ Terminal /\ UNCHANGED last
MCSpec == MCInit /\ [][MCNext]_<<allvars, last>>
MCNextU ==
  IF \E a \in Actors : pc[a] \in InternalPcs
    THEN \E a \in Actors : Internal(a) /\ last' = <<"~", a, -1>>
    ELSE \/ \E a \in Actors : Step(a) /\ last' = <<a, pc[a], Obs(a)>>
         \/ \E a \in Actors : Cancel(a) /\ last' = <<"!cancel", a, -1>>
         \/ Tick /\ last' = <<"!tick", "", -1>>
         \/ Terminal /\ UNCHANGED last
MCSpecU == MCInit /\ [][MCNextU]_<<allvars, last>>
View == allvars
=============================================================================
