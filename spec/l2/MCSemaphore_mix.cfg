SPECIFICATION MCSpec
CONSTANTS
  Actors = {"a1", "a2", "a3"}
  Victims = {}
  Prog <- P3m
  Dur <- D
  InitVal = 1
  TimeoutPath = "as_written"
INVARIANTS NeverOverdrawn QuiescentValue PopNeverEmpty
VIEW View
CHECK_DEADLOCK TRUE
