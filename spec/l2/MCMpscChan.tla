----------------------------- MODULE MCMpscChan -----------------------------
(* Model-checking / behaviour-export wrapper of MpscChan.tla (see MCMutex.tla). *)
EXTENDS MpscChan
VARIABLE last
\* two senders x two messages, receiver takes them with blocking recv, then sees Disconnected
Pa == [a \in Actors |-> CASE a = "rx" -> <<"recv", "recv", "try", "recv">> [] a = "s1" -> <<"send", "send", "drop">> [] OTHER -> <<"send", "drop">>]
\* timed receive against a late sender and the last drop
Pt == [a \in Actors |-> CASE a = "rx" -> <<"trecv", "trecv", "recv">> [] a = "s1" -> <<"send", "drop">> [] OTHER -> <<"clone", "drop", "send", "drop">>]
\* receiver goes away while senders send
Pd == [a \in Actors |-> CASE a = "rx" -> <<"try", "rdrop">> [] a = "s1" -> <<"send", "send", "drop">> [] OTHER -> <<"send", "drop">>]
\* receiver cancelled while it waits
Pc == [a \in Actors |-> CASE a = "rx" -> <<"recv", "recv">> [] a = "s1" -> <<"send", "drop">> [] OTHER -> <<"send", "drop">>]
MCInit == Init /\ last = <<"", "", -1>>
MCNext ==
  \/ \E a \in Actors : Step(a) /\ last' = <<a, pc[a], Obs(a)>>
  \/ \E a \in Actors : Internal(a) /\ last' = <<"~", a, -1>>
  \/ \E a \in Actors : Cancel(a) /\ last' = <<"!cancel", a, -1>>
  \/ Tick /\ last' = <<"!tick", "", -1>>
  \/ Terminal /\ UNCHANGED last
MCSpec == MCInit /\ [][MCNext]_<<vars, last>>
MCNextU ==
  IF \E a \in Actors : pc[a] \in InternalPcs
    THEN \E a \in Actors : Internal(a) /\ last' = <<"~", a, -1>>
    ELSE \/ \E a \in Actors : Step(a) /\ last' = <<a, pc[a], Obs(a)>>
         \/ \E a \in Actors : Cancel(a) /\ last' = <<"!cancel", a, -1>>
         \/ Tick /\ last' = <<"!tick", "", -1>>
         \/ Terminal /\ UNCHANGED last
MCSpecU == MCInit /\ [][MCNextU]_<<vars, last>>
View == vars
=============================================================================
