SPECIFICATION MCSpec
CONSTANTS
  Actors = {"r1", "r2", "s1", "s2"}
  Receivers = {"r1", "r2"}
  Prog <- Pa
  Dur <- D
  FixM = TRUE
INVARIANTS DeliveredOnce NoInvented PerSenderOrder DrainThenDisconnected NothingLost
VIEW View
CHECK_DEADLOCK TRUE
