----------------------------- MODULE MCMpmcChan -----------------------------
(* Model-checking / behaviour-export wrapper of MpmcChan.tla (see MCMutex.tla). *)
EXTENDS MpmcChan
VARIABLE last
\* two receivers, two senders
Pa == [a \in Actors |-> CASE a = "r1" -> <<"recv", "try", "recv">> [] a = "r2" -> <<"recv", "recv">>
                          [] a = "s1" -> <<"send", "send", "drop">> [] OTHER -> <<"send", "drop">>]
\* timed receive, clone, receiver drop
Pt == [a \in Actors |-> CASE a = "r1" -> <<"trecv", "recv">> [] a = "r2" -> <<"try", "rdrop">>
                          [] a = "s1" -> <<"send", "drop">> [] OTHER -> <<"clone", "drop", "send", "drop">>]
\* the minimal programs of the two defects
Pf4 == [a \in Actors |-> CASE a = "r1" -> <<"recv">> [] a = "r2" -> <<"try">> [] OTHER -> <<"send", "drop">>]
Pf4b == [a \in Actors |-> CASE a = "r1" -> <<"try">> [] OTHER -> <<"send", "drop">>]
D == [a \in Actors |-> 1]
MCInit == Init /\ last = <<"", "", -1>>
MCNext ==
  \/ \E a \in Actors : Step(a) /\ last' = <<a, pc[a], Obs(a)>>
  \/ \E a \in Actors : Internal(a) /\ last' = <<"~", a, -1>>
  \/ Tick /\ last' = <<"!tick", "", -1>>
  \/ Terminal /\ UNCHANGED last
MCSpec == MCInit /\ [][MCNext]_<<vars, last>>
MCNextU ==
  IF \E a \in Actors : pc[a] \in InternalPcs
    THEN \E a \in Actors : Internal(a) /\ last' = <<"~", a, -1>>
    ELSE \/ \E a \in Actors : Step(a) /\ last' = <<a, pc[a], Obs(a)>>
         \/ Tick /\ last' = <<"!tick", "", -1>>
         \/ Terminal /\ UNCHANGED last
MCSpecU == MCInit /\ [][MCNextU]_<<vars, last>>
View == vars
=============================================================================
