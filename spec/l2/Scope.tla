-------------------------------- MODULE Scope --------------------------------
(* DRAFT (round 0).  coroutine::scope with a coroutine owner that may be cancelled.
   Models literally: Scope::drop_all pops a dtor *before* running it; JoinState::join ->
   JoinHandle::join -> Join::wait (load, register, re-load, park ONCE, no loop);
   Park for a cancelled coroutine short-circuits (yield_with) and check_cancel() panics only
   if the thread is not already panicking; join() of an unfinished child yields Err(Cancel),
   re-raised only if not panicking.   Fix7 = candidate repair: JoinState::join disables cancel
   and waits in a loop until the child is done. *)
EXTENDS Naturals, FiniteSets, Sequences, TLC
CONSTANTS Children, Fix7
VARIABLES done,          \* child -> BOOLEAN  (Join.state == false)
          toWake,        \* child -> BOOLEAN  (owner's blocker registered in that Join)
          token,         \* owner's current blocker token (fresh per wait; modelled as one flag)
          parked, wokenByCancel,
          cancelBit, disabled, panicking, frameAlive,
          dtors,         \* sequence of children still to be joined by drop_all
          cur,           \* child being joined
          pcO, pcC, pcX  \* owner, children, canceller
vars == <<done, toWake, token, parked, wokenByCancel, cancelBit, disabled, panicking,
          frameAlive, dtors, cur, pcO, pcC, pcX>>
SeqOf(S) == CHOOSE s \in [1..Cardinality(S) -> S] : \A i, j \in DOMAIN s : i # j => s[i] # s[j]
Init ==
  /\ done = [c \in Children |-> FALSE] /\ toWake = [c \in Children |-> FALSE]
  /\ token = FALSE /\ parked = FALSE /\ wokenByCancel = FALSE
  /\ cancelBit = FALSE /\ disabled = 0 /\ panicking = FALSE /\ frameAlive = TRUE
  /\ dtors = SeqOf(Children) /\ cur = "none"
  /\ pcO = "drop_all.next" /\ pcC = [c \in Children |-> "run"] /\ pcX = "cancel.set_bit"
IsCanceled == cancelBit /\ disabled = 0

(* children: run, then Join::trigger = store state; take to_wake; unpark *)
CRun(c)  == /\ pcC[c] = "run" /\ pcC' = [pcC EXCEPT ![c] = "trigger.store"]
            /\ UNCHANGED <<done, toWake, token, parked, wokenByCancel, cancelBit, disabled, panicking, frameAlive, dtors, cur, pcO, pcX>>
CStore(c) == /\ pcC[c] = "trigger.store" /\ done' = [done EXCEPT ![c] = TRUE]
             /\ pcC' = [pcC EXCEPT ![c] = "trigger.take"]
             /\ UNCHANGED <<toWake, token, parked, wokenByCancel, cancelBit, disabled, panicking, frameAlive, dtors, cur, pcO, pcX>>
CTake(c) == /\ pcC[c] = "trigger.take" /\ pcC' = [pcC EXCEPT ![c] = "finished"]
            /\ IF toWake[c] THEN toWake' = [toWake EXCEPT ![c] = FALSE] /\ token' = TRUE
                            ELSE UNCHANGED <<toWake, token>>
            /\ UNCHANGED <<done, parked, wokenByCancel, cancelBit, disabled, panicking, frameAlive, dtors, cur, pcO, pcX>>
(* canceller *)
XSetBit == /\ pcX = "cancel.set_bit" /\ cancelBit' = TRUE /\ pcX' = "cancel.wake"
           /\ UNCHANGED <<done, toWake, token, parked, wokenByCancel, disabled, panicking, frameAlive, dtors, cur, pcO, pcC>>
XWake == /\ pcX = "cancel.wake" /\ pcX' = "done"
         /\ wokenByCancel' = (IF parked THEN TRUE ELSE wokenByCancel)
         /\ UNCHANGED <<done, toWake, token, parked, cancelBit, disabled, panicking, frameAlive, dtors, cur, pcO, pcC>>

(* owner *)
UNCH_CX == UNCHANGED <<pcC, pcX>>
ONext ==     \* drop_all: take the next dtor out of the chain, then run it
  /\ pcO = "drop_all.next"
  /\ IF dtors = <<>>
       THEN /\ frameAlive' = FALSE /\ pcO' = "left" /\ UNCHANGED <<dtors, cur, disabled>>
       ELSE /\ cur' = Head(dtors) /\ dtors' = Tail(dtors) /\ pcO' = "join.load1"
            /\ disabled' = (IF Fix7 THEN disabled + 1 ELSE disabled) /\ UNCHANGED frameAlive
  /\ UNCHANGED <<done, toWake, token, parked, wokenByCancel, cancelBit, panicking>> /\ UNCH_CX
OLoad1 ==
  /\ pcO = "join.load1" /\ pcO' = IF done[cur] THEN "join.take_packet" ELSE "join.reg"
  /\ UNCHANGED <<done, toWake, token, parked, wokenByCancel, cancelBit, disabled, panicking, frameAlive, dtors, cur>> /\ UNCH_CX
OReg ==      \* fresh Blocker, to_wake.store
  /\ pcO = "join.reg" /\ toWake' = [toWake EXCEPT ![cur] = TRUE] /\ token' = FALSE /\ pcO' = "join.load2"
  /\ UNCHANGED <<done, parked, wokenByCancel, cancelBit, disabled, panicking, frameAlive, dtors, cur>> /\ UNCH_CX
OLoad2 ==
  /\ pcO = "join.load2"
  /\ IF done[cur] THEN toWake' = [toWake EXCEPT ![cur] = FALSE] /\ pcO' = "join.take_packet"
                  ELSE UNCHANGED toWake /\ pcO' = "join.park"
  /\ UNCHANGED <<done, token, parked, wokenByCancel, cancelBit, disabled, panicking, frameAlive, dtors, cur>> /\ UNCH_CX
OParkEnter ==
  /\ pcO = "join.park" /\ ~parked
  /\ IF token THEN token' = FALSE /\ pcO' = "join.yield_back" /\ UNCHANGED parked
     ELSE IF IsCanceled THEN pcO' = "join.yield_back" /\ UNCHANGED <<token, parked>>   \* short-circuit
     ELSE parked' = TRUE /\ UNCHANGED <<token, pcO>>
  /\ UNCHANGED <<done, toWake, wokenByCancel, cancelBit, disabled, panicking, frameAlive, dtors, cur>> /\ UNCH_CX
OParkWake ==
  /\ pcO = "join.park" /\ parked /\ (token \/ wokenByCancel)
  /\ parked' = FALSE /\ token' = FALSE /\ wokenByCancel' = FALSE /\ pcO' = "join.yield_back"
  /\ UNCHANGED <<done, toWake, cancelBit, disabled, panicking, frameAlive, dtors, cur>> /\ UNCH_CX
OYieldBack ==  \* check_cancel(): panic unless already unwinding
  /\ pcO = "join.yield_back"
  /\ IF IsCanceled /\ ~panicking
       THEN panicking' = TRUE /\ pcO' = "drop_all.next"            \* unwinding reaches Scope::drop
       ELSE /\ UNCHANGED panicking
            /\ pcO' = IF Fix7 THEN "join.load1" ELSE "join.take_packet"   \* the repair loops
  /\ UNCHANGED <<done, toWake, token, parked, wokenByCancel, cancelBit, disabled, frameAlive, dtors, cur>> /\ UNCH_CX
OTakePacket == \* join(): packet or Err(Cancel); re-raised only if not panicking
  /\ pcO = "join.take_packet"
  /\ disabled' = (IF Fix7 THEN disabled - 1 ELSE disabled)
  /\ IF ~done[cur] /\ ~panicking THEN panicking' = TRUE ELSE UNCHANGED panicking
  /\ pcO' = "drop_all.next"
  /\ UNCHANGED <<done, toWake, token, parked, wokenByCancel, cancelBit, frameAlive, dtors, cur>> /\ UNCH_CX

AllOver == pcO = "left" /\ pcX = "done" /\ \A c \in Children : pcC[c] = "finished"
Stutter == AllOver /\ UNCHANGED vars
Next == \/ \E c \in Children : CRun(c) \/ CStore(c) \/ CTake(c)
        \/ XSetBit \/ XWake \/ ONext \/ OLoad1 \/ OReg \/ OLoad2 \/ OParkEnter \/ OParkWake
        \/ OYieldBack \/ OTakePacket \/ Stutter
Spec == Init /\ [][Next]_vars
FrameOutlivesChildren == ~frameAlive => \A c \in Children : done[c]
=============================================================================
