------------------------------- MODULE Condvar -------------------------------
(* Literal model of src/sync/condvar.rs (wait_impl / notify_one / notify_all) with the standard
   client: a counter `ready` protected by the user mutex; a waiter does
        lock; while ready = 0 { wait or wait_timeout }; ready -= 1; unlock
   (a timed waiter gives up after its first timeout), a notifier does
        lock; ready += 1; unlock; notify_one | notify_all.
   pc[a] = name of the verification point the actor is stopped at (cv.* inside condvar.rs, sb.* inside
   SyncBlocker, cvc.* placed by the harness in the client); labels without a dot are internal.
   The user mutex is abstract here (its protocol is Mutex.tla, C05): an owner plus a FIFO of
   blocked lockers; a locker that finds it taken blocks inside the step and continues when the lock
   is handed to it.  park() is the AbsBlocker with real suspension, Tick and Cancel as in
   Semaphore.tla.  wait_impl re-locks the mutex with cancel disabled and forwards a notification
   that raced with its own timeout / cancel (is_unparked / set_release / take_release).

   ForwardOnGiveUp = FALSE is the mutant "a waiter that gives up keeps the notification".      *)
EXTENDS Integers, FiniteSets, Sequences, TLC
CONSTANTS Actors, Victims, Prog, Dur, ForwardOnGiveUp

VARIABLES toWake, token, unparked, release,        \* the condvar's queue and the blockers
          mu, muq, cont, ready,                    \* user mutex (owner, waiters, continuation), predicate
          pc, ip, w, retTo, cancelled, parked, res, deadline, now, timerHost,
          gaveUp, notifies, served
vars == <<toWake, token, unparked, release, mu, muq, cont, ready, pc, ip, w, retTo, cancelled, parked, res,
          deadline, now, timerHost, gaveUp, notifies, served>>

MaxOps == 2
Blockers == Actors \X (1..MaxOps) \X (1..3)       \* a fresh SyncBlocker per wait_impl call (round)
NoB == <<"none", 0, 0>>
Op(a) == Prog[a][ip[a]]
StartPc(a) == IF Len(Prog[a]) = 0 THEN "done" ELSE "cvc.lock"

VARIABLE round
allvars == <<vars, round>>
Me(a) == <<a, ip[a], round[a]>>

Init ==
  /\ toWake = <<>>
  /\ token = [b \in Blockers |-> FALSE] /\ unparked = [b \in Blockers |-> FALSE]
  /\ release = [b \in Blockers |-> FALSE]
  /\ mu = "free" /\ muq = <<>> /\ cont = [a \in Actors |-> "none"] /\ ready = 0
  /\ ip = [a \in Actors |-> 1] /\ pc = [a \in Actors |-> StartPc(a)]
  /\ w = [a \in Actors |-> NoB] /\ retTo = [a \in Actors |-> "none"]
  /\ cancelled = [a \in Actors |-> FALSE] /\ parked = [a \in Actors |-> FALSE]
  /\ res = [a \in Actors |-> "none"] /\ deadline = [a \in Actors |-> 0] /\ now = 0 /\ timerHost = "none"
  /\ gaveUp = [a \in Actors |-> FALSE]
  /\ notifies = 0 /\ served = 0          \* ghost: notifications issued / waiters that consumed `ready`
  /\ round = [a \in Actors |-> 1]

UNCH_B == UNCHANGED <<token, unparked, release>>
UNCH_M == UNCHANGED <<mu, muq, cont>>
UNCH_T == UNCHANGED <<deadline, now, timerHost>>
UNCH_G == UNCHANGED <<gaveUp, notifies, served>>
LeaveTimer(a) == timerHost' = IF timerHost = a THEN "none" ELSE timerHost
IsWaiter(a) == Op(a) \in {"wait", "twait"}

\* abstract mutex with FIFO hand-off; `base` carries the other pc updates of the step
MuAcquire(a, next, base) ==
  IF mu = "free"
    THEN mu' = a /\ muq' = muq /\ pc' = [base EXCEPT ![a] = next] /\ cont' = cont
    ELSE mu' = mu /\ muq' = Append(muq, a) /\ pc' = [base EXCEPT ![a] = "mu.blocked"]
         /\ cont' = [cont EXCEPT ![a] = next]
MuRelease(a, next, base) ==
  IF muq = <<>>
    THEN mu' = "free" /\ muq' = muq /\ pc' = [base EXCEPT ![a] = next] /\ cont' = cont
    ELSE LET h == Head(muq) IN
         mu' = h /\ muq' = Tail(muq) /\ pc' = [base EXCEPT ![a] = next, ![h] = cont[h]]
         /\ cont' = [cont EXCEPT ![h] = "none"]

(* ------------------------------- client ------------------------------- *)
\* lock() of the client; a cancelled coroutine that would have to block unwinds instead
ClientLock(a) ==
  /\ pc[a] = "cvc.lock"
  /\ IF cancelled[a] /\ mu # "free"
       THEN pc' = [pc EXCEPT ![a] = "dead"] /\ UNCH_M
       ELSE MuAcquire(a, "cvc.crit", pc)
  /\ UNCHANGED <<toWake, ready, ip, w, retTo, cancelled, parked, res, round>> /\ UNCH_B /\ UNCH_T /\ UNCH_G
\* inside the critical section: waiters test the predicate, notifiers set it and unlock
ClientCrit(a) ==
  /\ pc[a] = "cvc.crit"
  /\ IF IsWaiter(a)
       THEN IF ready > 0 \/ gaveUp[a]
              THEN /\ ready' = IF ready > 0 THEN ready - 1 ELSE ready
                   /\ served' = IF ready > 0 THEN served + 1 ELSE served
                   /\ MuRelease(a, "next", pc) /\ UNCHANGED <<notifies, gaveUp>>
              ELSE /\ pc' = [pc EXCEPT ![a] = "cv.wait.push"] /\ UNCH_M /\ UNCHANGED <<ready, gaveUp, notifies, served>>
       ELSE /\ ready' = ready + 1 /\ MuRelease(a, "cvc.notify", pc) /\ UNCH_G
  /\ UNCHANGED <<toWake, ip, w, retTo, cancelled, parked, res, round>> /\ UNCH_B /\ UNCH_T
ClientNotify(a) ==
  /\ pc[a] = "cvc.notify"
  /\ pc' = [pc EXCEPT ![a] = IF Op(a) = "notify_all" THEN "cv.notify_all" ELSE "cv.notify.pop"]
  /\ retTo' = [retTo EXCEPT ![a] = "next"] /\ notifies' = notifies + 1
  /\ UNCHANGED <<toWake, ready, ip, w, cancelled, parked, res, round, gaveUp, served>> /\ UNCH_B /\ UNCH_M /\ UNCH_T

(* ------------------------------- wait_impl ------------------------------- *)
WaitPush(a) ==
  /\ pc[a] = "cv.wait.push"
  /\ toWake' = Append(toWake, Me(a)) /\ pc' = [pc EXCEPT ![a] = "cv.wait.unlock"]
  /\ UNCHANGED <<ready, ip, w, retTo, cancelled, parked, res, round>> /\ UNCH_B /\ UNCH_M /\ UNCH_T /\ UNCH_G
WaitUnlock(a) ==
  /\ pc[a] = "cv.wait.unlock"
  /\ MuRelease(a, "sb.park", pc)
  /\ UNCHANGED <<toWake, ready, ip, w, retTo, cancelled, parked, res, round>> /\ UNCH_B /\ UNCH_T /\ UNCH_G
ParkEnter(a) ==
  /\ pc[a] = "sb.park"
  /\ IF token[Me(a)]
       THEN /\ token' = [token EXCEPT ![Me(a)] = FALSE] /\ res' = [res EXCEPT ![a] = "Ok"]
            /\ pc' = [pc EXCEPT ![a] = "sb.park.ret"] /\ UNCHANGED <<parked, deadline, timerHost>>
       ELSE IF cancelled[a]
         THEN /\ res' = [res EXCEPT ![a] = "Canceled"] /\ pc' = [pc EXCEPT ![a] = "sb.park.ret"]
              /\ UNCHANGED <<token, parked, deadline, timerHost>>
         ELSE /\ parked' = [parked EXCEPT ![a] = TRUE] /\ pc' = [pc EXCEPT ![a] = "parked"]
              /\ deadline' = [deadline EXCEPT ![a] = IF Op(a) = "twait" THEN now + Dur[a] ELSE 0]
              /\ LeaveTimer(a) /\ UNCHANGED <<token, res>>
  /\ UNCHANGED <<toWake, unparked, release, ready, ip, w, retTo, cancelled, now, round>> /\ UNCH_M /\ UNCH_G
ParkReturn(a) ==
  /\ pc[a] = "sb.park.ret"
  /\ token' = IF res[a] = "Ok" THEN token ELSE [token EXCEPT ![Me(a)] = FALSE]
  /\ pc' = [pc EXCEPT ![a] = "cv.wait.relock"]
  /\ UNCHANGED <<toWake, unparked, release, ready, ip, w, retTo, cancelled, parked, res, round>> /\ UNCH_M /\ UNCH_T /\ UNCH_G
\* re-acquire the mutex (cancel disabled), then - if the park failed - hand the notification on
WaitRelock(a) ==
  /\ pc[a] = "cv.wait.relock"
  /\ MuAcquire(a, IF res[a] = "Ok" THEN "wait.ret" ELSE (IF ForwardOnGiveUp THEN "sb.is_unparked" ELSE "wait.ret"), pc)
  /\ UNCHANGED <<toWake, ready, ip, w, retTo, cancelled, parked, res, round>> /\ UNCH_B /\ UNCH_T /\ UNCH_G
IsUnparked(a) ==
  /\ pc[a] = "sb.is_unparked"
  /\ IF retTo[a] # "g_second"
       THEN IF unparked[Me(a)] THEN pc' = [pc EXCEPT ![a] = "cv.notify.pop"] /\ retTo' = [retTo EXCEPT ![a] = "wait.ret"]
                               ELSE pc' = [pc EXCEPT ![a] = "sb.set_release"] /\ UNCHANGED retTo
       ELSE IF unparked[Me(a)] THEN pc' = [pc EXCEPT ![a] = "sb.take_release"] /\ retTo' = [retTo EXCEPT ![a] = "g_recheck"]
                               ELSE pc' = [pc EXCEPT ![a] = "wait.ret"] /\ UNCHANGED retTo
  /\ UNCHANGED <<toWake, ready, ip, w, cancelled, parked, res, round>> /\ UNCH_B /\ UNCH_M /\ UNCH_T /\ UNCH_G
SetRelease(a) ==
  /\ pc[a] = "sb.set_release"
  /\ release' = [release EXCEPT ![Me(a)] = TRUE] /\ pc' = [pc EXCEPT ![a] = "sb.is_unparked"]
  /\ retTo' = [retTo EXCEPT ![a] = "g_second"]
  /\ UNCHANGED <<toWake, token, unparked, ready, ip, w, cancelled, parked, res, round>> /\ UNCH_M /\ UNCH_T /\ UNCH_G
\* internal: wait_impl returns; wait()/wait_timeout() look at the result
WaitRet(a) ==
  /\ pc[a] = "wait.ret"
  /\ IF res[a] = "Canceled"
       THEN /\ MuRelease(a, "dead", pc) /\ LeaveTimer(a)          \* forget guard, unlock_mutex, cancel panic
            /\ UNCHANGED <<gaveUp, round, deadline, now>>
       ELSE /\ pc' = [pc EXCEPT ![a] = "cvc.crit"] /\ UNCH_M /\ UNCH_T
            /\ gaveUp' = [gaveUp EXCEPT ![a] = (res[a] = "Timeout")]
            /\ round' = [round EXCEPT ![a] = IF round[a] < 3 THEN round[a] + 1 ELSE round[a]]
  /\ retTo' = [retTo EXCEPT ![a] = "none"]
  /\ UNCHANGED <<toWake, ready, ip, w, cancelled, parked, res, notifies, served>> /\ UNCH_B

(* ------------------------------- notify ------------------------------- *)
NotifyPop(a) ==
  /\ pc[a] = "cv.notify.pop"
  /\ IF toWake = <<>>
       THEN pc' = [pc EXCEPT ![a] = retTo[a]] /\ UNCHANGED <<toWake, w>>
       ELSE w' = [w EXCEPT ![a] = Head(toWake)] /\ toWake' = Tail(toWake) /\ pc' = [pc EXCEPT ![a] = "sb.unpark"]
  /\ UNCHANGED <<ready, ip, retTo, cancelled, parked, res, round>> /\ UNCH_B /\ UNCH_M /\ UNCH_T /\ UNCH_G
\* notify_all: `while let Some(w) = to_wake.pop() { w.unpark() }` - first pop right after the point
NotifyAllStart(a) ==
  /\ pc[a] = "cv.notify_all"
  /\ retTo' = [retTo EXCEPT ![a] = "all"]
  /\ IF toWake = <<>>
       THEN pc' = [pc EXCEPT ![a] = "next"] /\ UNCHANGED <<toWake, w>>
       ELSE w' = [w EXCEPT ![a] = Head(toWake)] /\ toWake' = Tail(toWake) /\ pc' = [pc EXCEPT ![a] = "sb.unpark"]
  /\ UNCHANGED <<ready, ip, cancelled, parked, res, round>> /\ UNCH_B /\ UNCH_M /\ UNCH_T /\ UNCH_G
WakeUnpark(a) ==
  /\ pc[a] = "sb.unpark"
  /\ LET b == w[a]  t == b[1] IN
       IF pc[t] = "parked" /\ parked[t] /\ Me(t) = b
         THEN /\ parked' = [parked EXCEPT ![t] = FALSE] /\ res' = [res EXCEPT ![t] = "Ok"]
              /\ pc' = [pc EXCEPT ![a] = "sb.set_unparked", ![t] = "sb.park.ret"] /\ UNCHANGED token
         ELSE /\ token' = [token EXCEPT ![b] = TRUE] /\ pc' = [pc EXCEPT ![a] = "sb.set_unparked"]
              /\ UNCHANGED <<parked, res>>
  /\ UNCHANGED <<toWake, unparked, release, ready, ip, w, retTo, cancelled, round>> /\ UNCH_M /\ UNCH_T /\ UNCH_G
\* set_unparked; in notify_all the next pop follows at once (no take_release, no point)
WakeSetUnparked(a) ==
  /\ pc[a] = "sb.set_unparked"
  /\ unparked' = [unparked EXCEPT ![w[a]] = TRUE]
  /\ IF retTo[a] = "all"
       THEN IF toWake = <<>>
              THEN pc' = [pc EXCEPT ![a] = "next"] /\ UNCHANGED <<toWake, w>>
              ELSE w' = [w EXCEPT ![a] = Head(toWake)] /\ toWake' = Tail(toWake) /\ pc' = [pc EXCEPT ![a] = "sb.unpark"]
       ELSE pc' = [pc EXCEPT ![a] = "sb.take_release"] /\ UNCHANGED <<toWake, w>>
  /\ UNCHANGED <<token, release, ready, ip, retTo, cancelled, parked, res, round>> /\ UNCH_M /\ UNCH_T /\ UNCH_G
\* take_release by the notifier (on w[a]; TRUE => notify_one again) or by the giving-up waiter
TakeRelease(a) ==
  /\ pc[a] = "sb.take_release"
  /\ LET mine == retTo[a] = "g_recheck"
         b == IF mine THEN Me(a) ELSE w[a] IN
       /\ release' = [release EXCEPT ![b] = FALSE]
       /\ IF release[b]
            THEN /\ pc' = [pc EXCEPT ![a] = "cv.notify.pop"]
                 /\ retTo' = IF mine THEN [retTo EXCEPT ![a] = "wait.ret"] ELSE retTo
            ELSE /\ pc' = [pc EXCEPT ![a] = IF mine THEN "wait.ret" ELSE retTo[a]] /\ UNCHANGED retTo
  /\ UNCHANGED <<toWake, token, unparked, ready, ip, w, cancelled, parked, res, round>> /\ UNCH_M /\ UNCH_T /\ UNCH_G

NextOp(a) ==
  /\ pc[a] = "next"
  /\ IF ip[a] < Len(Prog[a])
       THEN ip' = [ip EXCEPT ![a] = ip[a] + 1] /\ pc' = [pc EXCEPT ![a] = "cvc.lock"] /\ UNCHANGED timerHost
       ELSE UNCHANGED ip /\ pc' = [pc EXCEPT ![a] = "done"] /\ LeaveTimer(a)
  /\ w' = [w EXCEPT ![a] = NoB] /\ retTo' = [retTo EXCEPT ![a] = "none"] /\ res' = [res EXCEPT ![a] = "none"]
  /\ gaveUp' = [gaveUp EXCEPT ![a] = FALSE] /\ round' = [round EXCEPT ![a] = 1]
  /\ UNCHANGED <<toWake, ready, cancelled, parked, deadline, now, notifies, served>> /\ UNCH_B /\ UNCH_M

TimedParked == {a \in Actors : pc[a] = "parked" /\ parked[a] /\ deadline[a] > 0}
Tick ==
  /\ TimedParked # {} /\ timerHost = "none"
  /\ LET t == CHOOSE t \in {deadline[a] : a \in TimedParked} : \A a \in TimedParked : t <= deadline[a]
         v == CHOOSE a \in TimedParked : deadline[a] = t IN
       /\ now' = t /\ timerHost' = v
       /\ parked' = [parked EXCEPT ![v] = FALSE] /\ res' = [res EXCEPT ![v] = "Timeout"]
       /\ pc' = [pc EXCEPT ![v] = "sb.park.ret"]
  /\ UNCHANGED <<toWake, ready, ip, w, retTo, cancelled, deadline, round>> /\ UNCH_B /\ UNCH_M /\ UNCH_G
Cancel(a) ==
  /\ a \in Victims /\ ~cancelled[a] /\ pc[a] \notin {"done", "dead"}
  /\ cancelled' = [cancelled EXCEPT ![a] = TRUE]
  /\ IF pc[a] = "parked" /\ ~token[Me(a)]
       THEN /\ parked' = [parked EXCEPT ![a] = FALSE] /\ res' = [res EXCEPT ![a] = "Canceled"]
            /\ pc' = [pc EXCEPT ![a] = "sb.park.ret"] /\ UNCH_M
       ELSE IF pc[a] = "mu.blocked" /\ cont[a] = "cvc.crit"
         THEN \* blocked in the client's own lock(): the waiter gives up its place and unwinds
              /\ muq' = SelectSeq(muq, LAMBDA x : x # a) /\ pc' = [pc EXCEPT ![a] = "dead"]
              /\ cont' = [cont EXCEPT ![a] = "none"] /\ UNCHANGED <<mu, parked, res>>
         ELSE UNCHANGED <<parked, res, pc>> /\ UNCH_M      \* (the re-lock inside wait runs with cancel disabled)
  /\ UNCHANGED <<toWake, ready, ip, w, retTo, round>> /\ UNCH_B /\ UNCH_T /\ UNCH_G

Step(a) == \/ ClientLock(a) \/ ClientCrit(a) \/ ClientNotify(a) \/ WaitPush(a) \/ WaitUnlock(a) \/ ParkEnter(a)
           \/ ParkReturn(a) \/ WaitRelock(a) \/ IsUnparked(a) \/ SetRelease(a) \/ NotifyPop(a) \/ NotifyAllStart(a)
           \/ WakeUnpark(a) \/ WakeSetUnparked(a) \/ TakeRelease(a)
Internal(a) == WaitRet(a) \/ NextOp(a)
InternalPcs == {"wait.ret", "next"}
Obs(a) == IF pc[a] = "sb.park.ret"
            THEN (CASE res[a] = "Ok" -> 0 [] res[a] = "Timeout" -> 1 [] OTHER -> 2) ELSE -1

Finished(a) == pc[a] \in {"done", "dead"}
\* a waiter for whom no notification will ever come blocks for ever by specification
Notifiers == {a \in Actors : \E i \in ip[a]..Len(Prog[a]) : Prog[a][i] \in {"notify_one", "notify_all"} /\ ~Finished(a)}
LegitParked(a) == pc[a] = "parked" /\ ~token[Me(a)] /\ deadline[a] = 0 /\ a \notin Victims /\ ready = 0 /\ Notifiers = {}
Terminal == (\A a \in Actors : Finished(a) \/ LegitParked(a)) /\ UNCHANGED allvars
Next == (\E a \in Actors : Step(a) \/ Internal(a) \/ Cancel(a)) \/ Tick \/ Terminal
Spec == Init /\ [][Next]_allvars
-----------------------------------------------------------------------------
\* wait always re-acquires the mutex before returning: whoever is in the client's critical section owns it
ReacquireBeforeReturn == \A a \in Actors : pc[a] \in {"cvc.crit", "wait.ret", "sb.is_unparked", "sb.set_release"} => mu = a
\* no lost notification: it is never the case that the predicate is set, nobody is on the way to look
\* at it, and a waiter sleeps without a token
Quiet(a) == Finished(a) \/ (pc[a] = "parked" /\ ~token[Me(a)])
NoLostNotify == ~(/\ \A a \in Actors : Quiet(a)
                  /\ ready > 0
                  /\ \E a \in Actors : pc[a] = "parked" /\ deadline[a] = 0)
=============================================================================
