-------------------------------- MODULE Condvar --------------------------------
(* DRAFT (round 0).  src/sync/condvar.rs wait_impl / notify_one over the SyncBlocker
   hand-shake; the associated Mutex is abstracted to its checked contract (C05).
   Client used to make "a notify_one issued while somebody waits wakes somebody" checkable
   as deadlock-freedom:
     B  classic waiter:   lock; while items = 0 { wait }; items -= 1; unlock
     A  timed bystander:  lock; if items = 0 { wait_timeout }; unlock; if it was woken by a
                          notification (not timed out) it passes it on with notify_one
     N  notifier:         lock; items += 1; unlock; notify_one
   If A is chosen by N's notify_one while it is timing out, the notification must reach B. *)
EXTENDS Naturals, Sequences, FiniteSets, TLC
CONSTANTS ForwardOnTimeout    \* TRUE = as written
VARIABLES owner, items, toWake, token, unparked, release, pc, w, retTo, timedOut
vars == <<owner, items, toWake, token, unparked, release, pc, w, retTo, timedOut>>
Actors == {"A", "B", "N"}
Init == /\ owner = "free" /\ items = 0 /\ toWake = <<>>
        /\ token = [a \in {"A","B"} |-> FALSE] /\ unparked = [a \in {"A","B"} |-> FALSE]
        /\ release = [a \in {"A","B"} |-> FALSE]
        /\ pc = [a \in Actors |-> "lock"] /\ w = [a \in Actors |-> "none"]
        /\ retTo = [a \in Actors |-> "done"] /\ timedOut = FALSE
Goto(a, l) == pc' = [pc EXCEPT ![a] = l]
UNCH_B == UNCHANGED <<token, unparked, release>>
Lock(a) ==
  /\ pc[a] = "lock" /\ owner = "free" /\ owner' = a
  /\ Goto(a, IF a = "N" THEN "n.produce" ELSE "check")
  /\ UNCHANGED <<items, toWake, w, retTo, timedOut>> /\ UNCH_B
Produce == /\ pc["N"] = "n.produce" /\ items' = items + 1 /\ owner' = "free" /\ Goto("N", "notify.pop")
           /\ retTo' = [retTo EXCEPT !["N"] = "done"]
           /\ UNCHANGED <<toWake, w, timedOut>> /\ UNCH_B
Check(a) ==
  /\ pc[a] = "check" /\ a \in {"A", "B"}
  /\ IF items = 0 THEN Goto(a, "cv.push") /\ UNCHANGED <<items, owner>>
     ELSE IF a = "B" THEN items' = items - 1 /\ owner' = "free" /\ Goto(a, "done")
                     ELSE owner' = "free" /\ Goto(a, "done") /\ UNCHANGED items
  /\ UNCHANGED <<toWake, w, retTo, timedOut>> /\ UNCH_B
CvPush(a) == /\ pc[a] = "cv.push" /\ toWake' = Append(toWake, a) /\ Goto(a, "cv.unlock")
             /\ token' = [token EXCEPT ![a] = FALSE] /\ unparked' = [unparked EXCEPT ![a] = FALSE]
             /\ release' = [release EXCEPT ![a] = FALSE]          \* fresh SyncBlocker per wait
             /\ UNCHANGED <<owner, items, w, retTo, timedOut>>
CvUnlock(a) == /\ pc[a] = "cv.unlock" /\ owner' = "free" /\ Goto(a, "cv.park")
               /\ UNCHANGED <<items, toWake, w, retTo, timedOut>> /\ UNCH_B
CvParkOk(a) == /\ pc[a] = "cv.park" /\ token[a] /\ token' = [token EXCEPT ![a] = FALSE]
               /\ Goto(a, "cv.relock_ok")
               /\ UNCHANGED <<owner, items, toWake, unparked, release, w, retTo, timedOut>>
CvParkTimeout == /\ pc["A"] = "cv.park" /\ token' = [token EXCEPT !["A"] = FALSE] /\ timedOut' = TRUE
                 /\ Goto("A", "cv.relock_err")
                 /\ UNCHANGED <<owner, items, toWake, unparked, release, w, retTo>>
Relock(a) ==
  /\ pc[a] \in {"cv.relock_ok", "cv.relock_err"} /\ owner = "free" /\ owner' = a
  /\ Goto(a, IF pc[a] = "cv.relock_ok" THEN (IF a = "B" THEN "check" ELSE "a.woken")
             ELSE (IF ForwardOnTimeout THEN "cv.e_isunparked" ELSE "a.giveup"))
  /\ UNCHANGED <<items, toWake, w, retTo, timedOut>> /\ UNCH_B
(* error path of wait_impl, executed while holding the re-acquired mutex *)
EIsUnparked == /\ pc["A"] = "cv.e_isunparked"
               /\ IF unparked["A"] THEN Goto("A", "notify.pop") /\ retTo' = [retTo EXCEPT !["A"] = "a.giveup"]
                                   ELSE Goto("A", "cv.e_setrel") /\ UNCHANGED retTo
               /\ UNCHANGED <<owner, items, toWake, w, timedOut>> /\ UNCH_B
ESetRel == /\ pc["A"] = "cv.e_setrel" /\ release' = [release EXCEPT !["A"] = TRUE] /\ Goto("A", "cv.e_recheck")
           /\ UNCHANGED <<owner, items, toWake, token, unparked, w, retTo, timedOut>>
ERecheck == /\ pc["A"] = "cv.e_recheck" /\ Goto("A", IF unparked["A"] THEN "cv.e_takerel" ELSE "a.giveup")
            /\ UNCHANGED <<owner, items, toWake, w, retTo, timedOut>> /\ UNCH_B
ETakeRel == /\ pc["A"] = "cv.e_takerel" /\ release' = [release EXCEPT !["A"] = FALSE]
            /\ IF release["A"] THEN Goto("A", "notify.pop") /\ retTo' = [retTo EXCEPT !["A"] = "a.giveup"]
                               ELSE Goto("A", "a.giveup") /\ UNCHANGED retTo
            /\ UNCHANGED <<owner, items, toWake, token, unparked, w, timedOut>>
AGiveUp == /\ pc["A"] = "a.giveup" /\ owner' = "free" /\ Goto("A", "done")
           /\ UNCHANGED <<items, toWake, w, retTo, timedOut>> /\ UNCH_B
AWoken == \* good citizen: woken by a notification it does not use -> pass it on
  /\ pc["A"] = "a.woken" /\ owner' = "free" /\ Goto("A", "notify.pop") /\ retTo' = [retTo EXCEPT !["A"] = "done"]
  /\ UNCHANGED <<items, toWake, w, timedOut>> /\ UNCH_B
(* notify_one, by anybody *)
NPop(a) == /\ pc[a] = "notify.pop"
           /\ IF toWake = <<>> THEN Goto(a, retTo[a]) /\ UNCHANGED <<toWake, w>>
                               ELSE w' = [w EXCEPT ![a] = Head(toWake)] /\ toWake' = Tail(toWake) /\ Goto(a, "notify.unpark")
           /\ UNCHANGED <<owner, items, retTo, timedOut>> /\ UNCH_B
NUnpark(a) == /\ pc[a] = "notify.unpark" /\ token' = [token EXCEPT ![w[a]] = TRUE] /\ Goto(a, "notify.set_unparked")
              /\ UNCHANGED <<owner, items, toWake, unparked, release, w, retTo, timedOut>>
NSetUnparked(a) == /\ pc[a] = "notify.set_unparked" /\ unparked' = [unparked EXCEPT ![w[a]] = TRUE]
                   /\ Goto(a, "notify.takerel")
                   /\ UNCHANGED <<owner, items, toWake, token, release, w, retTo, timedOut>>
NTakeRel(a) == /\ pc[a] = "notify.takerel" /\ release' = [release EXCEPT ![w[a]] = FALSE]
               /\ Goto(a, IF release[w[a]] THEN "notify.pop" ELSE retTo[a])
               /\ UNCHANGED <<owner, items, toWake, token, unparked, w, retTo, timedOut>>
AllOver == \A a \in Actors : pc[a] = "done"
Stutter == AllOver /\ UNCHANGED vars
Next == \/ \E a \in Actors : Lock(a) \/ Check(a) \/ CvPush(a) \/ CvUnlock(a) \/ CvParkOk(a) \/ Relock(a)
                             \/ NPop(a) \/ NUnpark(a) \/ NSetUnparked(a) \/ NTakeRel(a)
        \/ Produce \/ CvParkTimeout \/ EIsUnparked \/ ESetRel \/ ERecheck \/ ETakeRel \/ AGiveUp \/ AWoken
        \/ Stutter
Spec == Init /\ [][Next]_vars
\* wait always re-acquires the mutex before returning
ReacquireBeforeReturn == \A a \in {"A", "B"} : pc[a] \in {"check", "a.woken", "cv.e_isunparked", "cv.e_setrel", "cv.e_recheck", "cv.e_takerel", "a.giveup"} => owner = a
\* state-based witness of "no lost notification": B never sleeps on an item nobody will announce
NoLostNotify == ~(pc["B"] = "cv.park" /\ ~token["B"] /\ items > 0 /\ owner = "free"
                  /\ pc["N"] = "done" /\ pc["A"] = "done")
=============================================================================
