---------------------------- MODULE MCSemaphore ----------------------------
(* Model-checking / behaviour-export wrapper of Semaphore.tla (see MCMutex.tla). *)
EXTENDS Semaphore
VARIABLE last

\* a1 times out or gets the permit, a2 waits for ever or gets it, a3 posts once, a4 posts once
P4 == [a \in Actors |-> CASE a = "a1" -> <<"twait">> [] a = "a2" -> <<"twait">> [] a = "a3" -> <<"post">> [] OTHER -> <<"post", "try">>]
\* cancel of a waiter racing with post; try_wait racing with wait
P3c == [a \in Actors |-> CASE a = "a1" -> <<"wait">> [] a = "a2" -> <<"wait", "post">> [] OTHER -> <<"post", "try">>]
\* threads and coroutines, initial value 1
P3m == [a \in Actors |-> CASE a = "a1" -> <<"wait", "post">> [] a = "a2" -> <<"wait", "post">> [] OTHER -> <<"try", "wait", "post">>]
P3t == [a \in Actors |-> CASE a = "a1" -> <<"twait">> [] a = "a2" -> <<"twait", "try">> [] OTHER -> <<"post">>]
D == [a \in Actors |-> CASE a = "a1" -> 1 [] a = "a2" -> 2 [] OTHER -> 3]

MCInit == Init /\ last = <<"", "", -1>>
MCNext ==
  \/ \E a \in Actors : Step(a) /\ last' = <<a, pc[a], Obs(a)>>
  \/ \E a \in Actors : Internal(a) /\ last' = <<"~", a, -1>>
  \/ \E a \in Actors : Cancel(a) /\ last' = <<"!cancel", a, -1>>
  \/ Tick /\ last' = <<"!tick", "", -1>>
  \/ Terminal /\ UNCHANGED last
MCSpec == MCInit /\ [][MCNext]_<<vars, last>>
\* behaviours realizable under the baton: internal steps are urgent (they complete before anybody else
\* moves).  Used for behaviour export only; the exhaustive check explores MCSpec, a superset.
MCNextU ==
  IF \E a \in Actors : pc[a] \in InternalPcs
    THEN \E a \in Actors : Internal(a) /\ last' = <<"~", a, -1>>
    ELSE \/ \E a \in Actors : Step(a) /\ last' = <<a, pc[a], Obs(a)>>
         \/ \E a \in Actors : Cancel(a) /\ last' = <<"!cancel", a, -1>>
         \/ Tick /\ last' = <<"!tick", "", -1>>
         \/ Terminal /\ UNCHANGED last
MCSpecU == MCInit /\ [][MCNextU]_<<vars, last>>
View == vars
=============================================================================
