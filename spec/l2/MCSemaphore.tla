---- MODULE MCSemaphore ----
EXTENDS Semaphore
Q1 == [a \in {"a1","a2","a3"} |-> IF a = "a1" THEN "wait_timeout" ELSE IF a = "a2" THEN "wait" ELSE "post"]
Q2 == [a \in {"a1","a2","a3","a4"} |-> IF a = "a1" THEN "wait_timeout" ELSE IF a = "a2" THEN "wait_timeout" ELSE "post"]
Q3 == [a \in {"a1","a2","a3","a4"} |-> IF a = "a1" THEN "wait_timeout" ELSE IF a = "a2" THEN "try_wait" ELSE IF a = "a3" THEN "wait" ELSE "post"]
====
