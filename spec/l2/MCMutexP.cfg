SPECIFICATION Spec
CONSTANTS
  Actors = {a1, a2, a3}
  Victims = {a2}
  Rounds = 1
  ForwardOnCancel = TRUE
  UnlockGt = 1
INVARIANTS MutualExclusion PopNeverEmpty QuiescentFree
CHECK_DEADLOCK TRUE
