\* F2: poisoned lock, two writers, code as written: RWExclusion violated in 9 steps
SPECIFICATION Spec
CONSTANTS
  Actors = {"a1","a2"}
  Prog <- P2
  InitPoison = TRUE
  Fix1 = FALSE
  Fix2 = FALSE
INVARIANTS RWExclusion NothingBad GuardsBalance
CHECK_DEADLOCK TRUE
