SPECIFICATION MCSpec
CONSTANTS
  Actors = {"a1", "a2"}
  Victims = {}
  Prog <- Pf2
  InitPoison = TRUE
  Fix1 = TRUE
  Fix2 = FALSE
INVARIANTS RWExclusion NothingBad PopNeverEmpty GuardsBalance
VIEW View
CHECK_DEADLOCK TRUE
