SPECIFICATION MCSpec
CONSTANTS
  Arms = {"m1", "m2", "m3"}
  K <- KK
  NEvents <- N1
  NPoll = 1
  FixK = TRUE
  UrgentKernel = TRUE
  Fix8 = TRUE
INVARIANTS EventOnce NoArmRunningAtReturn FinishedOnlyWhenAllEnded FinishedMeansJoined SelectReturnsRunArm
VIEW View
CHECK_DEADLOCK TRUE
