\* pinned tree: a user panic with a cancel pending does not poison (F21)
SPECIFICATION Spec
CONSTANTS
  Actors = {"a1", "a2", "a3"}
  How <- H2
  FixP = FALSE
INVARIANTS PoisonIffPanic ReleasedAnyway
CHECK_DEADLOCK TRUE
