SPECIFICATION MCSpec
CONSTANTS
  Actors = {"rx", "s1"}
  Rx = "rx"
  Prog <- Pd
  RxCo = TRUE
  Fix3 = TRUE
INVARIANTS DeliveredOnce NoInvented FifoOrder DrainThenDisconnected NothingLost
VIEW View
CHECK_DEADLOCK TRUE
