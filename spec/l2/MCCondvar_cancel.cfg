SPECIFICATION MCSpec
CONSTANTS
  Actors = {"a1", "a2", "a3"}
  Victims = {"a1"}
  Prog <- P3c
  Dur <- D
  ForwardOnGiveUp = TRUE
INVARIANTS ReacquireBeforeReturn NoLostNotify
VIEW View
CHECK_DEADLOCK TRUE
