------------------------------- MODULE Mutex -------------------------------
(* DRAFT (round 0).  Literal model of src/sync/mutex.rs lock()/try_lock()/unlock()
   over the SyncBlocker hand-shake (src/sync/blocking.rs:132-177).  The Park/ThreadPark
   underneath is abstracted to its checked contract (AbsBlocker): a binary token;
   park() returns Ok consuming the token, or -- for a cancelled coroutine -- Canceled,
   in which case a token that raced in is *discarded* (the post-resume check_park clears
   it), which is exactly why the code tracks `unparked` separately.
   pc labels = hook site names. *)
EXTENDS Naturals, FiniteSets, Sequences, TLC

CONSTANTS Actors, Victims,      \* Victims \subseteq Actors may be cancelled at any time
          Rounds,               \* lock/unlock rounds per actor
          ForwardOnCancel,      \* TRUE = code as written; FALSE = mutant: cancel path
                                \*        panics without the is_unparked/release hand-shake
          UnlockGt              \* the constant in `fetch_sub(1) > UnlockGt` (1 as written)

VARIABLES cnt, toWake,                      \* the mutex
          token, unparked, release,         \* per blocker (= <<actor, round>>)
          pc, rnd, w, retTo, cancelled

vars == <<cnt, toWake, token, unparked, release, pc, rnd, w, retTo, cancelled>>

Blockers == Actors \X (1..Rounds)
Me(a) == <<a, rnd[a]>>
NoB == <<"none", 0>>

Init ==
  /\ cnt = 0 /\ toWake = <<>>
  /\ token = [b \in Blockers |-> FALSE] /\ unparked = [b \in Blockers |-> FALSE]
  /\ release = [b \in Blockers |-> FALSE]
  /\ pc = [a \in Actors |-> "try.cas"] /\ rnd = [a \in Actors |-> 1]
  /\ w = [a \in Actors |-> NoB] /\ retTo = [a \in Actors |-> "none"]
  /\ cancelled = [a \in Actors |-> FALSE]

Goto(a, l) == pc' = [pc EXCEPT ![a] = l]
UNCH_B == UNCHANGED <<token, unparked, release>>
UNCH_M == UNCHANGED <<cnt, toWake>>
UNCH_L == UNCHANGED <<rnd, w, retTo, cancelled>>

TryCas(a) ==
  /\ pc[a] = "try.cas"
  /\ IF cnt = 0 THEN cnt' = 1 /\ Goto(a, "cs") ELSE UNCHANGED cnt /\ Goto(a, "lock.push")
  /\ UNCHANGED toWake /\ UNCH_B /\ UNCH_L

LockPush(a) ==
  /\ pc[a] = "lock.push"
  /\ toWake' = Append(toWake, Me(a)) /\ Goto(a, "lock.inc")
  /\ UNCHANGED cnt /\ UNCH_B /\ UNCH_L

LockInc(a) ==
  /\ pc[a] = "lock.inc"
  /\ cnt' = cnt + 1
  /\ IF cnt = 0 THEN Goto(a, "unlock.pop") /\ retTo' = [retTo EXCEPT ![a] = "lock.park"]
                ELSE Goto(a, "lock.park") /\ UNCHANGED retTo
  /\ UNCHANGED <<toWake, rnd, w, cancelled>> /\ UNCH_B

(* pop one waiter (used by the self-service path and by unlock) *)
Pop(a) ==
  /\ pc[a] = "unlock.pop"
  /\ toWake # <<>>                       \* `.expect("got null blocker!")`, see PopNeverEmpty
  /\ w' = [w EXCEPT ![a] = Head(toWake)] /\ toWake' = Tail(toWake)
  /\ Goto(a, "wake.unpark")
  /\ UNCHANGED <<cnt, rnd, retTo, cancelled>> /\ UNCH_B

WakeUnpark(a) ==
  /\ pc[a] = "wake.unpark"
  /\ token' = [token EXCEPT ![w[a]] = TRUE] /\ Goto(a, "wake.set_unparked")
  /\ UNCHANGED <<unparked, release>> /\ UNCH_M /\ UNCH_L

WakeSetUnparked(a) ==
  /\ pc[a] = "wake.set_unparked"
  /\ unparked' = [unparked EXCEPT ![w[a]] = TRUE] /\ Goto(a, "wake.takerel")
  /\ UNCHANGED <<token, release>> /\ UNCH_M /\ UNCH_L

WakeTakeRel(a) ==
  /\ pc[a] = "wake.takerel"
  /\ release' = [release EXCEPT ![w[a]] = FALSE]
  /\ IF release[w[a]] THEN Goto(a, "unlock.dec") ELSE Goto(a, retTo[a])
  /\ UNCHANGED <<token, unparked>> /\ UNCH_M /\ UNCH_L

UnlockDec(a) ==
  /\ pc[a] = "unlock.dec"
  /\ cnt' = cnt - 1
  /\ IF cnt > UnlockGt THEN Goto(a, "unlock.pop") ELSE Goto(a, retTo[a])
  /\ UNCHANGED toWake /\ UNCH_B /\ UNCH_L

ParkOk(a) ==
  /\ pc[a] = "lock.park" /\ token[Me(a)]
  /\ token' = [token EXCEPT ![Me(a)] = FALSE] /\ Goto(a, "cs")
  /\ UNCHANGED <<unparked, release>> /\ UNCH_M /\ UNCH_L

ParkCanceled(a) ==
  /\ pc[a] = "lock.park" /\ cancelled[a]
  /\ token' = [token EXCEPT ![Me(a)] = FALSE]          \* a racing token is discarded
  /\ Goto(a, IF ForwardOnCancel THEN "lock.c_isunparked" ELSE "dead")
  /\ UNCHANGED <<unparked, release>> /\ UNCH_M /\ UNCH_L

CIsUnparked(a) ==
  /\ pc[a] = "lock.c_isunparked"
  /\ IF unparked[Me(a)]
       THEN Goto(a, "unlock.dec") /\ retTo' = [retTo EXCEPT ![a] = "dead"]
       ELSE Goto(a, "lock.c_setrel") /\ UNCHANGED retTo
  /\ UNCHANGED <<rnd, w, cancelled>> /\ UNCH_B /\ UNCH_M

CSetRel(a) ==
  /\ pc[a] = "lock.c_setrel"
  /\ release' = [release EXCEPT ![Me(a)] = TRUE] /\ Goto(a, "lock.c_recheck")
  /\ UNCHANGED <<token, unparked>> /\ UNCH_M /\ UNCH_L

CRecheck(a) ==
  /\ pc[a] = "lock.c_recheck"
  /\ Goto(a, IF unparked[Me(a)] THEN "lock.c_takerel" ELSE "dead")
  /\ UNCH_B /\ UNCH_M /\ UNCH_L

CTakeRel(a) ==
  /\ pc[a] = "lock.c_takerel"
  /\ release' = [release EXCEPT ![Me(a)] = FALSE]
  /\ IF release[Me(a)]
       THEN Goto(a, "unlock.dec") /\ retTo' = [retTo EXCEPT ![a] = "dead"]
       ELSE Goto(a, "dead") /\ UNCHANGED retTo
  /\ UNCHANGED <<token, unparked, rnd, w, cancelled>> /\ UNCH_M

LeaveCS(a) ==
  /\ pc[a] = "cs"
  /\ Goto(a, "unlock.dec") /\ retTo' = [retTo EXCEPT ![a] = "next"]
  /\ UNCHANGED <<rnd, w, cancelled>> /\ UNCH_B /\ UNCH_M

NextRound(a) ==
  /\ pc[a] = "next"
  /\ IF rnd[a] < Rounds THEN rnd' = [rnd EXCEPT ![a] = rnd[a] + 1] /\ Goto(a, "try.cas")
                        ELSE UNCHANGED rnd /\ Goto(a, "done")
  /\ UNCHANGED <<w, retTo, cancelled>> /\ UNCH_B /\ UNCH_M

Cancel(a) ==
  /\ a \in Victims /\ ~cancelled[a] /\ pc[a] \notin {"done", "dead"}
  /\ cancelled' = [cancelled EXCEPT ![a] = TRUE]
  /\ UNCHANGED <<pc, rnd, w, retTo>> /\ UNCH_B /\ UNCH_M

AllOver == \A a \in Actors : pc[a] \in {"done", "dead"}
Stutter == AllOver /\ UNCHANGED vars

Next ==
  \/ \E a \in Actors :
       TryCas(a) \/ LockPush(a) \/ LockInc(a) \/ Pop(a) \/ WakeUnpark(a) \/ WakeSetUnparked(a)
       \/ WakeTakeRel(a) \/ UnlockDec(a) \/ ParkOk(a) \/ ParkCanceled(a) \/ CIsUnparked(a)
       \/ CSetRel(a) \/ CRecheck(a) \/ CTakeRel(a) \/ LeaveCS(a) \/ NextRound(a) \/ Cancel(a)
  \/ Stutter
Spec == Init /\ [][Next]_vars

-----------------------------------------------------------------------------
MutualExclusion == Cardinality({a \in Actors : pc[a] = "cs"}) <= 1
PopNeverEmpty   == \A a \in Actors : pc[a] = "unlock.pop" => toWake # <<>>
\* when everybody is finished the lock is free and nothing is queued except stale blockers
\* of cancelled waiters that nobody will ever need
QuiescentFree   == AllOver => cnt = Len(toWake)
\* deadlock-freedom (TLC's deadlock check with the Stutter step) is HandOffToLive
=============================================================================
