-------------------------------- MODULE Mutex --------------------------------
(* Literal model of src/sync/mutex.rs lock()/try_lock()/unlock() over the SyncBlocker
   hand-shake (src/sync/blocking.rs).  One action per shared-memory operation; the value of
   pc[a] is the *name of the verification point* (hook site) the actor is stopped at, i.e. the
   operation it performs next.  Labels without a dot are internal (no hook).

   The Park/ThreadPark underneath is abstracted to its contract (AbsBlocker, checked in
   l1/Park.tla): a binary token; park() consumes the token and returns Ok, or - for a cancelled
   coroutine - returns Canceled, in which case a token that raced in is discarded by the
   post-resume check_park (which is why the code tracks `unparked` separately).  A park is two
   actions, ParkEnter (point sb.park) and ParkReturn (point sb.park.ret), with the state
   "parked" in between, so that a replay drives the real code through real suspension.

   Prog[a] is a sequence of "lock" / "try" operations.                                     *)
EXTENDS Integers, FiniteSets, Sequences, TLC

CONSTANTS Actors, Victims,      \* Victims \subseteq Actors may be cancelled at any time
          Ignore,               \* Ignore \subseteq Victims lock with cancel *disabled* (the re-lock inside
                                \* Condvar::wait): the `b_ignore` branches of lock()
          FixIgnore,            \* FALSE = pinned tree; TRUE = repaired b_ignore path (see below)
          Prog,                 \* [Actors -> Seq({"lock","try"})]
          ForwardOnCancel,      \* TRUE = code as written; FALSE = mutant
          UnlockGt              \* the constant in `fetch_sub(1) > UnlockGt` (1 as written)

VARIABLES cnt, toWake,                      \* the mutex
          token, unparked, release,         \* per blocker (= <<actor, op index>>)
          pc, ip, w, retTo, cancelled, parked, res,
          data, seen,                       \* ghost: protected datum, what the holder read
          gen                               \* a fresh SyncBlocker per attempt of a lock() call

vars == <<cnt, toWake, token, unparked, release, pc, ip, w, retTo, cancelled, parked, res, data, seen, gen>>

MaxOps == 3
Blockers == Actors \X (1..MaxOps) \X (1..2)
Me(a) == <<a, ip[a], gen[a]>>
NoB == <<"none", 0, 0>>
Op(a) == Prog[a][ip[a]]
First(a) == IF Len(Prog[a]) = 0 THEN "done" ELSE "mutex.try.cas"

Init ==
  /\ cnt = 0 /\ toWake = <<>>
  /\ token = [b \in Blockers |-> FALSE] /\ unparked = [b \in Blockers |-> FALSE]
  /\ release = [b \in Blockers |-> FALSE]
  /\ ip = [a \in Actors |-> 1]
  /\ pc = [a \in Actors |-> First(a)]
  /\ w = [a \in Actors |-> NoB] /\ retTo = [a \in Actors |-> "none"]
  /\ cancelled = [a \in Actors |-> FALSE]
  /\ parked = [a \in Actors |-> FALSE] /\ res = [a \in Actors |-> "none"]
  /\ data = 0 /\ seen = [a \in Actors |-> 0] /\ gen = [a \in Actors |-> 1]

Goto(a, l) == pc' = [pc EXCEPT ![a] = l]
UNCH_B == UNCHANGED <<token, unparked, release>>
UNCH_M == UNCHANGED <<cnt, toWake>>
UNCH_G == UNCHANGED <<data, seen, gen>>
UNCH_L == UNCHANGED <<ip, w, retTo, cancelled, parked, res>>

\* try_lock(): compare_exchange(0, 1); lock() starts with the same call
TryCas(a) ==
  /\ pc[a] = "mutex.try.cas"
  /\ IF cnt = 0 THEN /\ cnt' = 1 /\ Goto(a, "mutex.cs")
                     /\ seen' = [seen EXCEPT ![a] = data] /\ UNCHANGED data
                ELSE /\ UNCHANGED <<cnt, data, seen>>
                     /\ Goto(a, IF Op(a) = "lock" THEN "mutex.lock.push" ELSE "next")
  /\ UNCHANGED <<toWake, gen>> /\ UNCH_B /\ UNCH_L

LockPush(a) ==
  /\ pc[a] = "mutex.lock.push"
  /\ toWake' = Append(toWake, Me(a)) /\ Goto(a, "mutex.lock.inc")
  /\ UNCHANGED cnt /\ UNCH_B /\ UNCH_L /\ UNCH_G

LockInc(a) ==
  /\ pc[a] = "mutex.lock.inc"
  /\ cnt' = cnt + 1
  /\ IF cnt = 0 THEN Goto(a, "mutex.pop") /\ retTo' = [retTo EXCEPT ![a] = "sb.park"]
                ELSE Goto(a, "sb.park") /\ UNCHANGED retTo
  /\ UNCHANGED <<toWake, ip, w, cancelled, parked, res>> /\ UNCH_B /\ UNCH_G

(* pop one waiter (the self-service path of lock() and unlock()) *)
Pop(a) ==
  /\ pc[a] = "mutex.pop"
  /\ toWake # <<>>                       \* `.expect("got null blocker!")`, see PopNeverEmpty
  /\ w' = [w EXCEPT ![a] = Head(toWake)] /\ toWake' = Tail(toWake)
  /\ Goto(a, "sb.unpark")
  /\ UNCHANGED <<cnt, ip, retTo, cancelled, parked, res>> /\ UNCH_B /\ UNCH_G

\* blocker.unpark(): a target that is really suspended on this blocker is taken out of its slot and
\* resumed at once (it will return Ok); otherwise the token is left for its next park
WakeUnpark(a) ==
  /\ pc[a] = "sb.unpark"
  /\ LET b == w[a]  t == b[1] IN
       IF pc[t] = "parked" /\ parked[t] /\ Me(t) = b
         THEN /\ parked' = [parked EXCEPT ![t] = FALSE] /\ res' = [res EXCEPT ![t] = "Ok"]
              /\ pc' = [pc EXCEPT ![a] = "sb.set_unparked", ![t] = "sb.park.ret"]
              /\ UNCHANGED token
         ELSE /\ token' = [token EXCEPT ![b] = TRUE] /\ Goto(a, "sb.set_unparked")
              /\ UNCHANGED <<parked, res>>
  /\ UNCHANGED <<unparked, release, ip, w, retTo, cancelled>> /\ UNCH_M /\ UNCH_G

WakeSetUnparked(a) ==
  /\ pc[a] = "sb.set_unparked"
  /\ unparked' = [unparked EXCEPT ![w[a]] = TRUE] /\ Goto(a, "sb.take_release")
  /\ UNCHANGED <<token, release>> /\ UNCH_M /\ UNCH_L /\ UNCH_G

\* take_release() is called by the waker (on w[a]) and by the cancelled waiter (on Me(a));
\* retTo[a] = "c_recheck" marks the latter
TakeRelease(a) ==
  /\ pc[a] = "sb.take_release"
  /\ LET b == IF retTo[a] = "c_recheck" THEN Me(a) ELSE w[a] IN
       /\ release' = [release EXCEPT ![b] = FALSE]
       /\ IF retTo[a] = "c_recheck"
            THEN IF a \in Ignore
                   THEN IF release[b] THEN Goto(a, "mutex.cs") /\ UNCHANGED retTo       \* got the flag back: the lock is ours
                        ELSE IF FixIgnore THEN Goto(a, "retry") /\ UNCHANGED retTo      \* the waker unlocks on our behalf
                                          ELSE Goto(a, "sb.park") /\ retTo' = [retTo EXCEPT ![a] = "none"]
                   ELSE IF release[b] THEN Goto(a, "mutex.unlock.dec") /\ retTo' = [retTo EXCEPT ![a] = "dead"]
                                      ELSE Goto(a, "dead") /\ UNCHANGED retTo
            ELSE /\ UNCHANGED retTo
                 /\ IF release[b] THEN Goto(a, "mutex.unlock.dec") ELSE Goto(a, retTo[a])
  /\ seen' = IF retTo[a] = "c_recheck" /\ a \in Ignore /\ release[IF retTo[a] = "c_recheck" THEN Me(a) ELSE w[a]]
             THEN [seen EXCEPT ![a] = data] ELSE seen
  /\ UNCHANGED <<token, unparked, ip, w, cancelled, parked, res, data, gen>> /\ UNCH_M

UnlockDec(a) ==
  /\ pc[a] = "mutex.unlock.dec"
  /\ cnt' = cnt - 1
  /\ IF cnt > UnlockGt THEN Goto(a, "mutex.pop") ELSE Goto(a, retTo[a])
  /\ UNCHANGED toWake /\ UNCH_B /\ UNCH_L /\ UNCH_G

\* the actor passes the point before `blocker.park(None)` and calls it
ParkEnter(a) ==
  /\ pc[a] = "sb.park"
  /\ IF token[Me(a)]
       THEN /\ token' = [token EXCEPT ![Me(a)] = FALSE] /\ res' = [res EXCEPT ![a] = "Ok"]
            /\ Goto(a, "sb.park.ret") /\ UNCHANGED parked
       ELSE IF cancelled[a] /\ a \notin Ignore      \* (with cancel disabled the yield does not short-circuit)
         THEN /\ res' = [res EXCEPT ![a] = "Canceled"] /\ Goto(a, "sb.park.ret") /\ UNCHANGED <<token, parked>>
         ELSE /\ parked' = [parked EXCEPT ![a] = TRUE] /\ Goto(a, "parked") /\ UNCHANGED <<token, res>>
  /\ UNCHANGED <<unparked, release, ip, w, retTo, cancelled>> /\ UNCH_M /\ UNCH_G


ParkReturn(a) ==
  /\ pc[a] = "sb.park.ret"
  /\ IF res[a] = "Ok"
       THEN /\ Goto(a, "mutex.cs") /\ UNCHANGED token
            /\ seen' = [seen EXCEPT ![a] = data]
       ELSE /\ token' = [token EXCEPT ![Me(a)] = FALSE]    \* post-resume check_park discards a racing token
            /\ Goto(a, IF ForwardOnCancel THEN "sb.is_unparked" ELSE "dead")
            /\ UNCHANGED seen
  /\ res' = [res EXCEPT ![a] = "none"]
  /\ UNCHANGED <<unparked, release, ip, w, retTo, cancelled, parked, cnt, toWake, data, gen>>

\* is_unparked() is read twice on the cancel path: first check, then the re-check after set_release.
\* A locker with cancel disabled (Ignore) keeps the lock if it was handed over (`break`), otherwise
\* it goes back to park() (`continue`) - as written with the release flag still set, and even when
\* the waker has already taken that flag and is unlocking on its behalf (defect F16); the repaired
\* code gives up the queue entry exactly like a cancelled waiter and contends again from scratch.
IsUnparked(a) ==
  /\ pc[a] = "sb.is_unparked"
  /\ IF retTo[a] # "c_second"
       THEN IF unparked[Me(a)]
              THEN IF a \in Ignore
                     THEN Goto(a, "mutex.cs") /\ seen' = [seen EXCEPT ![a] = data] /\ UNCHANGED retTo
                     ELSE Goto(a, "mutex.unlock.dec") /\ retTo' = [retTo EXCEPT ![a] = "dead"] /\ UNCHANGED seen
              ELSE Goto(a, "sb.set_release") /\ UNCHANGED <<retTo, seen>>
       ELSE IF unparked[Me(a)]
              THEN Goto(a, "sb.take_release") /\ retTo' = [retTo EXCEPT ![a] = "c_recheck"] /\ UNCHANGED seen
              ELSE /\ UNCHANGED seen
                   /\ IF a \in Ignore
                        THEN IF FixIgnore THEN Goto(a, "retry") /\ UNCHANGED retTo
                                          ELSE Goto(a, "sb.park") /\ retTo' = [retTo EXCEPT ![a] = "none"]
                        ELSE Goto(a, "dead") /\ UNCHANGED retTo
  /\ UNCHANGED <<ip, w, cancelled, parked, res, data, gen>> /\ UNCH_B /\ UNCH_M

SetRelease(a) ==
  /\ pc[a] = "sb.set_release"
  /\ release' = [release EXCEPT ![Me(a)] = TRUE] /\ Goto(a, "sb.is_unparked")
  /\ retTo' = [retTo EXCEPT ![a] = "c_second"]
  /\ UNCHANGED <<token, unparked, ip, w, cancelled, parked, res>> /\ UNCH_M /\ UNCH_G

\* inside the critical section: the holder writes the protected datum and leaves
LeaveCS(a) ==
  /\ pc[a] = "mutex.cs"
  /\ data' = data + 1 /\ UNCHANGED <<seen, gen>>
  /\ Goto(a, "mutex.unlock.dec") /\ retTo' = [retTo EXCEPT ![a] = "next"]
  /\ UNCHANGED <<ip, w, cancelled, parked, res>> /\ UNCH_B /\ UNCH_M

NextOp(a) ==
  /\ pc[a] = "next"
  /\ IF ip[a] < Len(Prog[a]) THEN ip' = [ip EXCEPT ![a] = ip[a] + 1] /\ Goto(a, "mutex.try.cas")
                             ELSE UNCHANGED ip /\ Goto(a, "done")
  /\ gen' = [gen EXCEPT ![a] = 1]
  /\ UNCHANGED <<w, retTo, cancelled, parked, res, data, seen>> /\ UNCH_B /\ UNCH_M

\* repaired b_ignore path only: the queue entry has been given up (its release flag stays set, whoever
\* pops it unlocks on its behalf); contend again from the start of lock() with a fresh blocker
Retry(a) ==
  /\ pc[a] = "retry"
  /\ gen' = [gen EXCEPT ![a] = 2] /\ Goto(a, "mutex.try.cas")
  /\ retTo' = [retTo EXCEPT ![a] = "none"]
  /\ UNCHANGED <<ip, w, cancelled, parked, res, data, seen>> /\ UNCH_B /\ UNCH_M

\* environment: cancel() of a victim coroutine; a parked victim without token is woken with Canceled
Cancel(a) ==
  /\ a \in Victims /\ ~cancelled[a] /\ pc[a] \notin {"done", "dead"}
  /\ cancelled' = [cancelled EXCEPT ![a] = TRUE]
  /\ IF pc[a] = "parked" /\ ~token[Me(a)]
       THEN /\ parked' = [parked EXCEPT ![a] = FALSE] /\ res' = [res EXCEPT ![a] = "Canceled"]
            /\ pc' = [pc EXCEPT ![a] = "sb.park.ret"]
       ELSE UNCHANGED <<parked, res, pc>>
  /\ UNCHANGED <<ip, w, retTo>> /\ UNCH_B /\ UNCH_M /\ UNCH_G

\* the actions of actor `a` that correspond to passing the verification point named pc[a]
Step(a) ==
  \/ TryCas(a) \/ LockPush(a) \/ LockInc(a) \/ Pop(a) \/ WakeUnpark(a) \/ WakeSetUnparked(a)
  \/ TakeRelease(a) \/ UnlockDec(a) \/ ParkEnter(a) \/ ParkReturn(a) \/ IsUnparked(a)
  \/ SetRelease(a) \/ LeaveCS(a)
\* internal steps (no point)
Internal(a) == NextOp(a) \/ Retry(a)
\* expected hook argument at the current point (-1 = not compared)
\* labels at which an actor performs internal steps (no verification point): under the baton these
\* complete before anybody else moves
InternalPcs == {"next", "retry"}
Obs(a) == IF pc[a] = "sb.park.ret" THEN (IF res[a] = "Ok" THEN 0 ELSE 2) ELSE -1

AllOver == \A a \in Actors : pc[a] \in {"done", "dead"}
Stutter == AllOver /\ UNCHANGED vars

Next ==
  \/ \E a \in Actors : Step(a) \/ Internal(a) \/ Cancel(a)
  \/ Stutter
Spec == Init /\ [][Next]_vars

-----------------------------------------------------------------------------
MutualExclusion == Cardinality({a \in Actors : pc[a] = "mutex.cs"}) <= 1
DataVisible     == \A a \in Actors : pc[a] = "mutex.cs" => seen[a] = data
PopNeverEmpty   == \A a \in Actors : pc[a] = "mutex.pop" => toWake # <<>>
\* when everybody is finished the lock is free and nothing is queued except stale blockers
\* of cancelled waiters that nobody will ever need
QuiescentFree   == AllOver => cnt = Len(toWake)
\* cnt counts the holder plus the registered (not yet given-up) waiters
TryLockSound    == \A a \in Actors : (pc[a] = "mutex.cs") => cnt >= 1
\* deadlock-freedom (TLC's deadlock check with the Stutter step) is "no stranded waiter"
=============================================================================
