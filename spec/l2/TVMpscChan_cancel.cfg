SPECIFICATION TVSpec
CONSTANTS
  Actors = {"rx", "s1", "s2"}
  Rx = "rx"
  Victims = {"rx"}
  Prog <- Pc
  Dur = 1
  RepopOnDisc = TRUE
CONSTRAINT TVProgress
POSTCONDITION TVAccepted
CHECK_DEADLOCK FALSE
