SPECIFICATION TVSpec
CONSTANTS
  Actors = {"a1", "a2", "a3"}
  Victims = {"a2"}
  Ignore = {}
  FixIgnore = FALSE
  Prog <- ProgAll
  ForwardOnCancel = TRUE
  UnlockGt = 1
CONSTRAINT TVProgress
POSTCONDITION TVAccepted
CHECK_DEADLOCK FALSE
