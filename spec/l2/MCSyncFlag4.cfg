SPECIFICATION MCSpec
CONSTANTS
  Actors = {"a1", "a2", "a3", "a4"}
  Victims = {"a2"}
  Prog <- F4
  Dur <- D
  BIG = 1000
  GiveUpPath = "as_written"
INVARIANTS Latch FiredWakesAll
VIEW View
CHECK_DEADLOCK TRUE
