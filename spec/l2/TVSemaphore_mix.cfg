SPECIFICATION TVSpec
CONSTANTS
  Actors = {"a1", "a2", "a3"}
  Victims = {}
  Prog <- P3m
  Dur <- D
  InitVal = 1
  TimeoutPath = "as_written"
CONSTRAINT TVProgress
POSTCONDITION TVAccepted
CHECK_DEADLOCK FALSE
