SPECIFICATION TVSpec
CONSTANTS
  Actors = {"rx", "s1", "s2"}
  Rx = "rx"
  Victims = {}
  Prog <- Pt
  Dur = 1
  RepopOnDisc = TRUE
CONSTRAINT TVProgress
POSTCONDITION TVAccepted
CHECK_DEADLOCK FALSE
