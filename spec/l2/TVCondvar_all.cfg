SPECIFICATION TVSpec
CONSTANTS
  Actors = {"a1", "a2", "a3"}
  Victims = {}
  Prog <- P3a
  Dur <- D
  ForwardOnGiveUp = TRUE
CONSTRAINT TVProgress
POSTCONDITION TVAccepted
CHECK_DEADLOCK FALSE
