SPECIFICATION TVSpec
CONSTANTS
  Actors = {"a1", "a2", "a3"}
  Victims = {"a2"}
  Prog <- F3
  Dur <- D
  BIG = 1000
  GiveUpPath = "as_written"
CONSTRAINT TVProgress
POSTCONDITION TVAccepted
CHECK_DEADLOCK FALSE
