SPECIFICATION MCSpec
CONSTANTS
  Actors = {"a1", "a2"}
  Victims = {}
  Prog <- Pf1
  InitPoison = TRUE
  Fix1 = TRUE
  Fix2 = TRUE
INVARIANTS RWExclusion NothingBad PopNeverEmpty GuardsBalance
VIEW View
CHECK_DEADLOCK TRUE
