SPECIFICATION Spec
CONSTANTS
  Actors = {"a1", "a2", "a3"}
  How <- H2
  FixP = TRUE
INVARIANTS PoisonIffPanic ReleasedAnyway
CHECK_DEADLOCK TRUE
