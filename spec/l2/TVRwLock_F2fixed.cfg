SPECIFICATION TVSpec
CONSTANTS
  Actors = {"a1", "a2"}
  Victims = {}
  Prog <- Pf2
  InitPoison = TRUE
  Fix1 = TRUE
  Fix2 = TRUE
CONSTRAINT TVProgress
POSTCONDITION TVAccepted
CHECK_DEADLOCK FALSE
