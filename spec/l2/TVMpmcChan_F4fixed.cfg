SPECIFICATION TVSpec
CONSTANTS
  Actors = {"r1", "r2", "s1"}
  Receivers = {"r1", "r2"}
  Prog <- Pf4
  Dur <- D
  FixM = TRUE
CONSTRAINT TVProgress
POSTCONDITION TVAccepted
CHECK_DEADLOCK FALSE
