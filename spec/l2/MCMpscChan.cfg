SPECIFICATION Spec
CONSTANTS
  Senders = {"s1", "s2"}
  NMsg = 2
  Timed = TRUE
  RegisterFirst = TRUE
  RepopOnDisc = TRUE
INVARIANTS DeliveredOnce PerSenderOrder DrainThenDisconnected
CHECK_DEADLOCK TRUE
