SPECIFICATION TVSpec
CONSTANTS
  Actors = {"a1", "a2", "a3"}
  Victims = {"a2"}
  Prog <- Pc3
  InitPoison = FALSE
  Fix1 = TRUE
  Fix2 = TRUE
CONSTRAINT TVProgress
POSTCONDITION TVAccepted
CHECK_DEADLOCK FALSE
