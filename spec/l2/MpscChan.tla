------------------------------ MODULE MpscChan ------------------------------
(* Literal model of src/sync/mpsc.rs (InnerQueue send / recv / try_recv / recv_timeout, clone and
   drop of Sender, drop of Receiver).  pc[a] = name of the verification point the actor is stopped
   at; labels without a dot are internal.  The queue is the L0 contract (atomic FIFO, C03); the
   receiver's Blocker is the AbsBlocker (C02) with real suspension, Tick and Cancel as in
   Semaphore.tla (plain Blocker: a cancelled coroutine unwinds out of park, nothing is forwarded).

   Prog[a] is a sequence over  sender ops  "send" | "clone" | "drop"
                           and receiver ops "recv" | "try" | "trecv" | "rdrop".
   There is one receiver actor (Rx); every other actor starts with one Sender handle.
   Switch (TRUE = code as written): RepopOnDisc (re-pop after reading channels = 0).          *)
EXTENDS Integers, FiniteSets, Sequences, TLC

CONSTANTS Actors, Rx, Victims, Prog, Dur, RepopOnDisc

VARIABLES queue, toWake, channels, portDropped, token,
          pc, ip, w, stage, mode, nsent, rret,
          cancelled, parked, res, deadline, start, now, timerHost,
          pushed, sentOk, got, dropped, discAt
vars == <<queue, toWake, channels, portDropped, token, pc, ip, w, stage, mode, nsent, rret,
          cancelled, parked, res, deadline, start, now, timerHost, pushed, sentOk, got, dropped, discAt>>

MaxOps == 4
Blockers == {Rx} \X (1..MaxOps) \X (1..3)       \* a fresh Blocker per InnerQueue::recv call
NoB == <<"none", 0, 0>>
Op(a) == Prog[a][ip[a]]
FirstPc(op) == CASE op = "send" -> "chan.send.load_port" [] op = "clone" -> "chan.clone.inc"
                 [] op = "drop" -> "chan.drop.dec" [] op = "recv" -> "chan.recv.reg"
                 [] op = "rdrop" -> "chan.port.store" [] OTHER -> "chan.try.pop"
StartPc(a) == IF Len(Prog[a]) = 0 THEN "done" ELSE FirstPc(Prog[a][1])
Senders == Actors \ {Rx}

Init ==
  /\ queue = <<>> /\ toWake = NoB /\ channels = Cardinality(Senders) /\ portDropped = FALSE
  /\ token = [b \in Blockers |-> FALSE]
  /\ ip = [a \in Actors |-> 1] /\ pc = [a \in Actors |-> StartPc(a)]
  /\ w = [a \in Actors |-> NoB]
  /\ stage = 1          \* which InnerQueue::recv call of the current receiver op (fresh blocker each)
  /\ mode = "plain"     \* which try_recv: "plain" | "first" (re-check after registering) | "after" (after the park)
  /\ nsent = [a \in Actors |-> 0]
  /\ rret = "none"      \* result of the receiver's last operation: "none"|"Ok"|"Empty"|"Disconnected"|"Timeout"
  /\ cancelled = [a \in Actors |-> FALSE] /\ parked = [a \in Actors |-> FALSE]
  /\ res = [a \in Actors |-> "none"] /\ deadline = 0 /\ start = 0 /\ now = 0 /\ timerHost = "none"
  /\ pushed = {} /\ sentOk = {} /\ got = <<>> /\ dropped = {} /\ discAt = <<>>

MeB == <<Rx, ip[Rx], stage>>
Goto(a, l) == pc' = [pc EXCEPT ![a] = l]
UNCH_Q == UNCHANGED <<queue, toWake, channels, portDropped>>
UNCH_T == UNCHANGED <<deadline, start, now, timerHost>>
UNCH_H == UNCHANGED <<pushed, sentOk, got, dropped, discAt>>
UNCH_P == UNCHANGED <<cancelled, parked, res>>
UNCH_R == UNCHANGED <<stage, mode, rret>>
LeaveTimer(a) == timerHost' = IF timerHost = a THEN "none" ELSE timerHost

(* ------------------------------- senders ------------------------------- *)
SendLoadPort(a) ==
  /\ pc[a] = "chan.send.load_port"
  /\ Goto(a, IF portDropped THEN "next" ELSE "chan.send.push")        \* Err(t): the value comes back
  /\ UNCHANGED <<token, ip, w, nsent>> /\ UNCH_Q /\ UNCH_T /\ UNCH_H /\ UNCH_P /\ UNCH_R
SendPush(a) ==
  /\ pc[a] = "chan.send.push"
  /\ LET m == <<a, nsent[a] + 1>> IN queue' = Append(queue, m) /\ pushed' = pushed \cup {m}
  /\ nsent' = [nsent EXCEPT ![a] = @ + 1] /\ Goto(a, "chan.send.take")
  /\ UNCHANGED <<toWake, channels, portDropped, token, ip, w, sentOk, got, dropped, discAt>> /\ UNCH_T /\ UNCH_P /\ UNCH_R
SendTake(a) ==
  /\ pc[a] = "chan.send.take"
  /\ w' = [w EXCEPT ![a] = toWake] /\ toWake' = NoB
  /\ sentOk' = sentOk \cup {<<a, nsent[a]>>}
  /\ Goto(a, IF toWake # NoB THEN "blk.unpark" ELSE "next")
  /\ UNCHANGED <<queue, channels, portDropped, token, ip, nsent, pushed, got, dropped, discAt>> /\ UNCH_T /\ UNCH_P /\ UNCH_R
\* Blocker::unpark(): a receiver really suspended on this blocker is resumed at once, else token
Unpark(a) ==
  /\ pc[a] = "blk.unpark"
  /\ LET b == w[a] IN
       IF pc[Rx] = "parked" /\ parked[Rx] /\ MeB = b
         THEN /\ parked' = [parked EXCEPT ![Rx] = FALSE] /\ res' = [res EXCEPT ![Rx] = "Ok"]
              /\ pc' = [pc EXCEPT ![a] = "next", ![Rx] = "blk.park.ret"] /\ UNCHANGED token
         ELSE /\ token' = [token EXCEPT ![b] = TRUE] /\ Goto(a, "next") /\ UNCHANGED <<parked, res>>
  /\ UNCHANGED <<ip, w, nsent, cancelled>> /\ UNCH_Q /\ UNCH_T /\ UNCH_H /\ UNCH_R
CloneInc(a) ==
  /\ pc[a] = "chan.clone.inc" /\ channels' = channels + 1 /\ Goto(a, "next")
  /\ UNCHANGED <<queue, toWake, portDropped, token, ip, w, nsent>> /\ UNCH_T /\ UNCH_H /\ UNCH_P /\ UNCH_R
\* drop of a Sender: fetch_sub; the last one takes to_wake in the same breath (no point in between)
DropDec(a) ==
  /\ pc[a] = "chan.drop.dec"
  /\ channels' = channels - 1
  /\ IF channels = 1
       THEN /\ w' = [w EXCEPT ![a] = toWake] /\ toWake' = NoB
            /\ Goto(a, IF toWake # NoB THEN "blk.unpark" ELSE "next")
       ELSE /\ UNCHANGED <<w, toWake>> /\ Goto(a, "next")
  /\ UNCHANGED <<queue, portDropped, token, ip, nsent>> /\ UNCH_T /\ UNCH_H /\ UNCH_P /\ UNCH_R

(* ------------------------------- receiver ------------------------------- *)
Deliver(m) == got' = Append(got, m)
RecvReg ==
  /\ pc[Rx] = "chan.recv.reg"
  /\ toWake' = MeB /\ mode' = "first" /\ Goto(Rx, "chan.try.pop")
  /\ UNCHANGED <<queue, channels, portDropped, token, ip, w, stage, nsent, rret>> /\ UNCH_T /\ UNCH_H /\ UNCH_P
\* a value or Disconnected: the re-check path clears to_wake first
AfterResult == IF mode = "first" THEN "chan.recv.clear" ELSE "next"
\* what an Empty result of try_recv means
OnEmpty == CASE mode = "first" -> "blk.park"
             [] mode = "after" -> "recv.loop"
             [] Op(Rx) = "trecv" -> "trecv.begin"       \* the optimistic try_recv of recv_timeout
             [] OTHER -> "next"
TryPop ==
  /\ pc[Rx] = "chan.try.pop"
  /\ IF queue # <<>>
       THEN queue' = Tail(queue) /\ Deliver(Head(queue)) /\ rret' = "Ok" /\ Goto(Rx, AfterResult)
       ELSE UNCHANGED <<queue, got, rret>> /\ Goto(Rx, "chan.try.load_ch")
  /\ UNCHANGED <<toWake, channels, portDropped, token, ip, w, stage, mode, nsent, pushed, sentOk, dropped, discAt>> /\ UNCH_T /\ UNCH_P
TryLoadCh ==
  /\ pc[Rx] = "chan.try.load_ch"
  /\ IF channels > 0
       THEN Goto(Rx, OnEmpty) /\ rret' = "Empty" /\ UNCHANGED discAt
       ELSE IF RepopOnDisc THEN Goto(Rx, "chan.try.repop") /\ UNCHANGED <<rret, discAt>>
            ELSE rret' = "Disconnected" /\ discAt' = queue /\ Goto(Rx, AfterResult)
  /\ UNCHANGED <<token, ip, w, stage, mode, nsent, pushed, sentOk, got, dropped>> /\ UNCH_Q /\ UNCH_T /\ UNCH_P
TryRepop ==
  /\ pc[Rx] = "chan.try.repop"
  /\ IF queue # <<>>
       THEN queue' = Tail(queue) /\ Deliver(Head(queue)) /\ rret' = "Ok" /\ UNCHANGED discAt
       ELSE UNCHANGED <<queue, got>> /\ rret' = "Disconnected" /\ discAt' = queue
  /\ Goto(Rx, AfterResult)
  /\ UNCHANGED <<toWake, channels, portDropped, token, ip, w, stage, mode, nsent, pushed, sentOk, dropped>> /\ UNCH_T /\ UNCH_P
RecvClear ==
  /\ pc[Rx] = "chan.recv.clear"
  /\ toWake' = NoB /\ Goto(Rx, "next")
  /\ UNCHANGED <<queue, channels, portDropped, token, ip, w, nsent>> /\ UNCH_T /\ UNCH_H /\ UNCH_P /\ UNCH_R
\* internal: recv_timeout found Empty: deadline = now + timeout, then InnerQueue::recv(Some(timeout))
TrecvBegin ==
  /\ pc[Rx] = "trecv.begin"
  /\ start' = now /\ stage' = 2 /\ Goto(Rx, "chan.recv.reg")
  /\ UNCHANGED <<token, ip, w, mode, nsent, rret, deadline, now, timerHost>> /\ UNCH_Q /\ UNCH_H /\ UNCH_P
ParkEnter ==
  /\ pc[Rx] = "blk.park"
  /\ IF token[MeB]
       THEN /\ token' = [token EXCEPT ![MeB] = FALSE] /\ res' = [res EXCEPT ![Rx] = "Ok"]
            /\ Goto(Rx, "blk.park.ret") /\ UNCHANGED <<parked, deadline, timerHost>>
       ELSE IF cancelled[Rx]
         THEN /\ res' = [res EXCEPT ![Rx] = "Canceled"] /\ Goto(Rx, "dead")     \* check_cancel panics inside park
              /\ LeaveTimer(Rx) /\ UNCHANGED <<token, parked, deadline>>
         ELSE /\ parked' = [parked EXCEPT ![Rx] = TRUE] /\ Goto(Rx, "parked")
              /\ deadline' = IF Op(Rx) = "trecv" THEN now + Dur ELSE 0
              /\ LeaveTimer(Rx) /\ UNCHANGED <<token, res>>
  /\ UNCHANGED <<ip, w, nsent, cancelled, start, now>> /\ UNCH_Q /\ UNCH_H /\ UNCH_R
\* after the park (whatever it returned): try_recv again
ParkReturn ==
  /\ pc[Rx] = "blk.park.ret"
  /\ token' = [token EXCEPT ![MeB] = FALSE]
  /\ mode' = "after" /\ Goto(Rx, "chan.try.pop")
  /\ UNCHANGED <<ip, w, stage, nsent, rret>> /\ UNCH_Q /\ UNCH_T /\ UNCH_H /\ UNCH_P
\* internal: InnerQueue::recv returned Empty: Receiver::recv loops; recv_max_until checks the deadline
RecvLoop ==
  /\ pc[Rx] = "recv.loop"
  /\ IF Op(Rx) = "trecv" /\ now >= start + Dur
       THEN rret' = "Timeout" /\ Goto(Rx, "next") /\ UNCHANGED stage
       ELSE stage' = (IF stage < 3 THEN stage + 1 ELSE stage) /\ Goto(Rx, "chan.recv.reg") /\ UNCHANGED rret
  /\ UNCHANGED <<token, ip, w, mode, nsent>> /\ UNCH_Q /\ UNCH_T /\ UNCH_H /\ UNCH_P
\* drop of the Receiver: port_dropped, then the queue is drained (values dropped)
PortStore ==
  /\ pc[Rx] = "chan.port.store"
  /\ portDropped' = TRUE /\ Goto(Rx, "port.drain")
  /\ UNCHANGED <<queue, toWake, channels, token, ip, w, nsent>> /\ UNCH_T /\ UNCH_H /\ UNCH_P /\ UNCH_R
PortDrain ==
  /\ pc[Rx] = "port.drain"
  /\ dropped' = dropped \cup {queue[i] : i \in DOMAIN queue} /\ queue' = <<>> /\ Goto(Rx, "next")
  /\ UNCHANGED <<toWake, channels, portDropped, token, ip, w, nsent, pushed, sentOk, got, discAt>> /\ UNCH_T /\ UNCH_P /\ UNCH_R

NextOp(a) ==
  /\ pc[a] = "next"
  /\ IF ip[a] < Len(Prog[a])
       THEN ip' = [ip EXCEPT ![a] = ip[a] + 1] /\ Goto(a, FirstPc(Prog[a][ip[a] + 1])) /\ UNCHANGED timerHost
       ELSE UNCHANGED ip /\ Goto(a, "done") /\ LeaveTimer(a)
  /\ w' = [w EXCEPT ![a] = NoB]
  /\ stage' = (IF a = Rx THEN 1 ELSE stage) /\ mode' = (IF a = Rx THEN "plain" ELSE mode)
  /\ UNCHANGED <<token, nsent, rret, deadline, start, now>> /\ UNCH_Q /\ UNCH_H /\ UNCH_P

Tick ==
  /\ pc[Rx] = "parked" /\ parked[Rx] /\ deadline > 0 /\ timerHost = "none"
  /\ now' = deadline /\ timerHost' = Rx
  /\ parked' = [parked EXCEPT ![Rx] = FALSE] /\ res' = [res EXCEPT ![Rx] = "Timeout"]
  /\ Goto(Rx, "blk.park.ret")
  /\ UNCHANGED <<token, ip, w, nsent, cancelled, deadline, start>> /\ UNCH_Q /\ UNCH_H /\ UNCH_R
Cancel(a) ==
  /\ a \in Victims /\ ~cancelled[a] /\ pc[a] \notin {"done", "dead"}
  /\ cancelled' = [cancelled EXCEPT ![a] = TRUE]
  /\ IF pc[a] = "parked" /\ ~token[MeB]
       THEN /\ parked' = [parked EXCEPT ![a] = FALSE] /\ res' = [res EXCEPT ![a] = "Canceled"]
            /\ pc' = [pc EXCEPT ![a] = "dead"]          \* resumes, check_cancel panics, unwinds
       ELSE UNCHANGED <<parked, res, pc>>
  /\ UNCHANGED <<token, ip, w, nsent>> /\ UNCH_Q /\ UNCH_T /\ UNCH_H /\ UNCH_R

RStep == RecvReg \/ TryPop \/ TryLoadCh \/ TryRepop \/ RecvClear \/ ParkEnter \/ ParkReturn \/ PortStore
Step(a) == \/ SendLoadPort(a) \/ SendPush(a) \/ SendTake(a) \/ Unpark(a) \/ CloneInc(a) \/ DropDec(a)
           \/ (a = Rx /\ RStep)
Internal(a) == NextOp(a) \/ (a = Rx /\ (TrecvBegin \/ RecvLoop \/ PortDrain))
InternalPcs == {"next", "trecv.begin", "recv.loop", "port.drain"}
Obs(a) == -1

Finished(a) == pc[a] \in {"done", "dead"}
\* a recv() with senders alive that never send blocks for ever by specification
LegitParked == pc[Rx] = "parked" /\ ~token[MeB] /\ deadline = 0 /\ channels > 0 /\ Rx \notin Victims
Terminal == (\A a \in Actors : Finished(a) \/ (a = Rx /\ LegitParked)) /\ UNCHANGED vars
Next == (\E a \in Actors : Step(a) \/ Internal(a) \/ Cancel(a)) \/ Tick \/ Terminal
Spec == Init /\ [][Next]_vars
-----------------------------------------------------------------------------
GotSet == {got[i] : i \in DOMAIN got}
DeliveredOnce  == Cardinality(GotSet) = Len(got) /\ GotSet \cap dropped = {}
NoInvented     == GotSet \subseteq pushed
PerSenderOrder == \A i, j \in DOMAIN got : (i < j /\ got[i][1] = got[j][1]) => got[i][2] < got[j][2]
\* Disconnected is reported only after the queue has been drained and every sender is gone
DrainThenDisconnected == (rret = "Disconnected" => (discAt = <<>> /\ channels = 0))
\* at the end every value whose send returned Ok was received or dropped with the port
NothingLost == (\A a \in Actors : Finished(a)) =>
                 (sentOk \subseteq (GotSet \cup dropped \cup {queue[i] : i \in DOMAIN queue}))
\* InnerQueue::drop asserts that no waker is left registered when the channel is freed
NoStaleWaker == (\A a \in Actors : Finished(a)) => toWake = NoB
\* WokenBySend / NoHangAfterLastSender: deadlock-freedom (Terminal is the only legitimate rest)
=============================================================================
