------------------------------ MODULE MpscChan ------------------------------
(* DRAFT (round 0).  src/sync/mpsc.rs InnerQueue: send / recv(dur) / try_recv / drop_chan /
   drop_port, with a thread or coroutine receiver (AbsBlocker token; a timed recv may return
   Timeout at any moment).  The queue is the L0 contract (atomic FIFO). *)
EXTENDS Naturals, Sequences, FiniteSets, TLC
CONSTANTS Senders, NMsg,        \* each sender sends NMsg messages, then drops
          Timed,                \* BOOLEAN: receiver uses recv_timeout (park may time out)
          RegisterFirst,        \* TRUE = as written (store to_wake, then re-check the queue)
          RepopOnDisc           \* TRUE = as written (re-pop after reading channels = 0)
VARIABLES queue, toWake, token, channels, pcS, kS, pcR, got, ret, timeouts
vars == <<queue, toWake, token, channels, pcS, kS, pcR, got, ret, timeouts>>
Init == /\ queue = <<>> /\ toWake = FALSE /\ token = FALSE /\ channels = Cardinality(Senders)
        /\ pcS = [s \in Senders |-> IF NMsg > 0 THEN "send.push" ELSE "drop.dec"] /\ kS = [s \in Senders |-> 0]
        /\ pcR = (IF RegisterFirst THEN "recv.reg" ELSE "recv.pop") /\ got = <<>> /\ ret = "none" /\ timeouts = 0
Total == NMsg * Cardinality(Senders)
GotoS(s, l) == pcS' = [pcS EXCEPT ![s] = l]
SPush(s) == /\ pcS[s] = "send.push" /\ queue' = Append(queue, <<s, kS[s] + 1>>) /\ kS' = [kS EXCEPT ![s] = @ + 1]
            /\ GotoS(s, "send.take") /\ UNCHANGED <<toWake, token, channels, pcR, got, ret, timeouts>>
STake(s) == /\ pcS[s] \in {"send.take", "drop.take"}
            /\ IF toWake THEN toWake' = FALSE /\ token' = TRUE ELSE UNCHANGED <<toWake, token>>
            /\ GotoS(s, IF pcS[s] = "drop.take" THEN "done" ELSE IF kS[s] < NMsg THEN "send.push" ELSE "drop.dec")
            /\ UNCHANGED <<queue, channels, kS, pcR, got, ret, timeouts>>
SDropDec(s) == /\ pcS[s] = "drop.dec" /\ channels' = channels - 1
               /\ GotoS(s, IF channels = 1 THEN "drop.take" ELSE "done")
               /\ UNCHANGED <<queue, toWake, token, kS, pcR, got, ret, timeouts>>
(* receiver: Receiver::recv loops over InnerQueue::recv *)
Finish(r) == ret' = r /\ pcR' = "done"
AfterGot == IF Len(got) + 1 >= Total + 1 THEN "done" ELSE (IF RegisterFirst THEN "recv.reg" ELSE "recv.pop")
RReg == /\ pcR = "recv.reg" /\ toWake' = TRUE /\ token' = FALSE /\ pcR' = "recv.pop"
        /\ UNCHANGED <<queue, channels, pcS, kS, got, ret, timeouts>>
RPop == /\ pcR \in {"recv.pop", "recv.pop_after_park"}
        /\ IF queue # <<>>
             THEN /\ queue' = Tail(queue) /\ got' = Append(got, Head(queue))
                  /\ toWake' = (IF pcR = "recv.pop" THEN FALSE ELSE toWake)      \* to_wake.clear() on the no-park path
                  /\ pcR' = (IF RegisterFirst THEN "recv.reg" ELSE "recv.pop") /\ UNCHANGED ret
             ELSE /\ UNCHANGED <<queue, got, toWake, ret>> /\ pcR' = (IF pcR = "recv.pop" THEN "recv.load_ch" ELSE "recv.load_ch2")
        /\ UNCHANGED <<token, channels, pcS, kS, timeouts>>
RLoadCh == /\ pcR \in {"recv.load_ch", "recv.load_ch2"}
           /\ IF channels > 0
                THEN pcR' = (IF pcR = "recv.load_ch" THEN (IF RegisterFirst THEN "recv.park" ELSE "recv.reg_late")
                                                     ELSE (IF RegisterFirst THEN "recv.reg" ELSE "recv.pop"))   \* Empty -> loop
                     /\ UNCHANGED ret
                ELSE IF RepopOnDisc THEN pcR' = "recv.repop" /\ UNCHANGED ret ELSE Finish("Disconnected")
           /\ UNCHANGED <<queue, toWake, token, channels, pcS, kS, got, timeouts>>
RRepop == /\ pcR = "recv.repop"
          /\ IF queue # <<>> THEN queue' = Tail(queue) /\ got' = Append(got, Head(queue))
                                  /\ pcR' = (IF RegisterFirst THEN "recv.reg" ELSE "recv.pop") /\ UNCHANGED ret
                             ELSE Finish("Disconnected") /\ UNCHANGED <<queue, got>>
          /\ toWake' = FALSE
          /\ UNCHANGED <<token, channels, pcS, kS, timeouts>>
RRegLate == /\ pcR = "recv.reg_late" /\ toWake' = TRUE /\ token' = FALSE /\ pcR' = "recv.park"   \* mutant order
            /\ UNCHANGED <<queue, channels, pcS, kS, got, ret, timeouts>>
RParkOk == /\ pcR = "recv.park" /\ token /\ token' = FALSE /\ pcR' = "recv.pop_after_park"
           /\ UNCHANGED <<queue, toWake, channels, pcS, kS, got, ret, timeouts>>
RParkTimeout == /\ pcR = "recv.park" /\ Timed /\ timeouts < 2 /\ token' = FALSE /\ timeouts' = timeouts + 1
                /\ pcR' = "recv.pop_after_park"
                /\ UNCHANGED <<queue, toWake, channels, pcS, kS, got, ret>>
AllOver == pcR = "done" /\ \A s \in Senders : pcS[s] = "done"
Next == \/ \E s \in Senders : SPush(s) \/ STake(s) \/ SDropDec(s)
        \/ RReg \/ RPop \/ RLoadCh \/ RRepop \/ RRegLate \/ RParkOk \/ RParkTimeout
        \/ (AllOver /\ UNCHANGED vars)
Spec == Init /\ [][Next]_vars
DeliveredOnce == Cardinality({got[i] : i \in DOMAIN got}) = Len(got)
PerSenderOrder == \A i, j \in DOMAIN got : (i < j /\ got[i][1] = got[j][1]) => got[i][2] < got[j][2]
DrainThenDisconnected == ret = "Disconnected" => Len(got) = Total
\* WokenBySend / NoHangAfterLastSender: TLC deadlock check
=============================================================================
