SPECIFICATION MCSpec
CONSTANTS
  Actors = {"a1", "a2", "a3"}
  Victims = {}
  Ignore = {}
  FixIgnore = FALSE
  Prog <- ProgMix
  ForwardOnCancel = TRUE
  UnlockGt = 1
INVARIANTS MutualExclusion DataVisible PopNeverEmpty QuiescentFree TryLockSound
VIEW View
CHECK_DEADLOCK TRUE
