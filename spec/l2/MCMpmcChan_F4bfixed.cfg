SPECIFICATION MCSpec
CONSTANTS
  Actors = {"r1", "s1"}
  Receivers = {"r1"}
  Prog <- Pf4b
  Dur <- D
  FixM = TRUE
INVARIANTS DeliveredOnce NoInvented PerSenderOrder DrainThenDisconnected NothingLost
VIEW View
CHECK_DEADLOCK TRUE
