SPECIFICATION MCSpec
CONSTANTS
  Actors = {"r1", "r2", "s1"}
  Receivers = {"r1", "r2"}
  Prog <- Pf4
  Dur <- D
  FixM = FALSE
INVARIANTS DeliveredOnce NoInvented PerSenderOrder DrainThenDisconnected NothingLost
VIEW View
CHECK_DEADLOCK TRUE
