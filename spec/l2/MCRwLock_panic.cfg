SPECIFICATION MCSpec
CONSTANTS
  Actors = {"a1", "a2", "a3"}
  Victims = {}
  Prog <- Pp3
  InitPoison = FALSE
  Fix1 = TRUE
  Fix2 = TRUE
INVARIANTS RWExclusion NothingBad PopNeverEmpty GuardsBalance
VIEW View
CHECK_DEADLOCK TRUE
