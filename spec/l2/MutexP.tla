------------------------------- MODULE MutexP -------------------------------
(* DRAFT (round 0).  Variant of Mutex.tla used by the coroutine-actor replay prototype: the
   AbsBlocker park is split into ParkEnter (the actor really suspends when there is no token)
   and ParkReturn (the `lock.park.ret` point), so that a replay exercises *real* suspension,
   real unpark -> schedule -> resume on another worker, and a real cancel() of a parked
   waiter; the two-operation expression `is_unparked() && take_release()` is one action
   because one verification point precedes it.
   Literal model of src/sync/mutex.rs lock()/try_lock()/unlock()
   over the SyncBlocker hand-shake (src/sync/blocking.rs:132-177).  The Park/ThreadPark
   underneath is abstracted to its checked contract (AbsBlocker): a binary token;
   park() returns Ok consuming the token, or -- for a cancelled coroutine -- Canceled,
   in which case a token that raced in is *discarded* (the post-resume check_park clears
   it), which is exactly why the code tracks `unparked` separately.
   pc labels = hook site names. *)
EXTENDS Naturals, FiniteSets, Sequences, TLC

CONSTANTS Actors, Victims,      \* Victims \subseteq Actors may be cancelled at any time
          Rounds,               \* lock/unlock rounds per actor
          ForwardOnCancel,      \* TRUE = code as written; FALSE = mutant: cancel path
                                \*        panics without the is_unparked/release hand-shake
          UnlockGt              \* the constant in `fetch_sub(1) > UnlockGt` (1 as written)

VARIABLES cnt, toWake,                      \* the mutex
          token, unparked, release,         \* per blocker (= <<actor, round>>)
          pc, rnd, w, retTo, cancelled, parked, res

vars == <<cnt, toWake, token, unparked, release, pc, rnd, w, retTo, cancelled, parked, res>>

Blockers == Actors \X (1..Rounds)
Me(a) == <<a, rnd[a]>>
NoB == <<"none", 0>>

Init ==
  /\ cnt = 0 /\ toWake = <<>>
  /\ token = [b \in Blockers |-> FALSE] /\ unparked = [b \in Blockers |-> FALSE]
  /\ release = [b \in Blockers |-> FALSE]
  /\ pc = [a \in Actors |-> "try.cas"] /\ rnd = [a \in Actors |-> 1]
  /\ w = [a \in Actors |-> NoB] /\ retTo = [a \in Actors |-> "none"]
  /\ cancelled = [a \in Actors |-> FALSE]
  /\ parked = [a \in Actors |-> FALSE] /\ res = [a \in Actors |-> "none"]

Goto(a, l) == pc' = [pc EXCEPT ![a] = l]
UNCH_B == UNCHANGED <<token, unparked, release>>
UNCH_M == UNCHANGED <<cnt, toWake>>
UNCH_L == UNCHANGED <<rnd, w, retTo, cancelled, parked, res>>

TryCas(a) ==
  /\ pc[a] = "try.cas"
  /\ IF cnt = 0 THEN cnt' = 1 /\ Goto(a, "cs") ELSE UNCHANGED cnt /\ Goto(a, "lock.push")
  /\ UNCHANGED toWake /\ UNCH_B /\ UNCH_L

LockPush(a) ==
  /\ pc[a] = "lock.push"
  /\ toWake' = Append(toWake, Me(a)) /\ Goto(a, "lock.inc")
  /\ UNCHANGED cnt /\ UNCH_B /\ UNCH_L

LockInc(a) ==
  /\ pc[a] = "lock.inc"
  /\ cnt' = cnt + 1
  /\ IF cnt = 0 THEN Goto(a, "unlock.pop") /\ retTo' = [retTo EXCEPT ![a] = "lock.park"]
                ELSE Goto(a, "lock.park") /\ UNCHANGED retTo
  /\ UNCHANGED <<toWake, rnd, w, cancelled, parked, res>> /\ UNCH_B

(* pop one waiter (used by the self-service path and by unlock) *)
Pop(a) ==
  /\ pc[a] = "unlock.pop"
  /\ toWake # <<>>                       \* `.expect("got null blocker!")`, see PopNeverEmpty
  /\ w' = [w EXCEPT ![a] = Head(toWake)] /\ toWake' = Tail(toWake)
  /\ Goto(a, "wake.unpark")
  /\ UNCHANGED <<cnt, rnd, retTo, cancelled, parked, res>> /\ UNCH_B

WakeUnpark(a) ==
  /\ pc[a] = "wake.unpark"
  /\ token' = [token EXCEPT ![w[a]] = TRUE] /\ Goto(a, "wake.set_unparked")
  /\ UNCHANGED <<unparked, release>> /\ UNCH_M /\ UNCH_L

WakeSetUnparked(a) ==
  /\ pc[a] = "wake.set_unparked"
  /\ unparked' = [unparked EXCEPT ![w[a]] = TRUE] /\ Goto(a, "wake.takerel")
  /\ UNCHANGED <<token, release>> /\ UNCH_M /\ UNCH_L

WakeTakeRel(a) ==
  /\ pc[a] = "wake.takerel"
  /\ release' = [release EXCEPT ![w[a]] = FALSE]
  /\ IF release[w[a]] THEN Goto(a, "unlock.dec") ELSE Goto(a, retTo[a])
  /\ UNCHANGED <<token, unparked>> /\ UNCH_M /\ UNCH_L

UnlockDec(a) ==
  /\ pc[a] = "unlock.dec"
  /\ cnt' = cnt - 1
  /\ IF cnt > UnlockGt THEN Goto(a, "unlock.pop") ELSE Goto(a, retTo[a])
  /\ UNCHANGED toWake /\ UNCH_B /\ UNCH_L

\* the actor passes the point before `cur.park(None)` and calls it
ParkEnter(a) ==
  /\ pc[a] = "lock.park"
  /\ IF token[Me(a)]
       THEN /\ token' = [token EXCEPT ![Me(a)] = FALSE] /\ res' = [res EXCEPT ![a] = "Ok"]
            /\ Goto(a, "lock.park.ret") /\ UNCHANGED parked
       ELSE IF cancelled[a]
         THEN /\ res' = [res EXCEPT ![a] = "Canceled"] /\ Goto(a, "lock.park.ret") /\ UNCHANGED <<token, parked>>
         ELSE /\ parked' = [parked EXCEPT ![a] = TRUE] /\ Goto(a, "parked") /\ UNCHANGED <<token, res>>
  /\ UNCHANGED <<unparked, release, rnd, w, retTo, cancelled>> /\ UNCH_M
\* the runtime resumes a parked actor whose token arrived (no verification point: internal)
WakeByToken(a) ==
  /\ pc[a] = "parked" /\ parked[a] /\ token[Me(a)]
  /\ token' = [token EXCEPT ![Me(a)] = FALSE] /\ parked' = [parked EXCEPT ![a] = FALSE]
  /\ res' = [res EXCEPT ![a] = "Ok"] /\ Goto(a, "lock.park.ret")
  /\ UNCHANGED <<unparked, release, rnd, w, retTo, cancelled>> /\ UNCH_M
ParkReturn(a) ==
  /\ pc[a] = "lock.park.ret"
  /\ IF res[a] = "Ok" THEN Goto(a, "cs") /\ UNCHANGED token
     ELSE /\ token' = [token EXCEPT ![Me(a)] = FALSE]         \* post-resume check_park discards a racing token
          /\ Goto(a, IF ForwardOnCancel THEN "lock.c_isunparked" ELSE "dead")
  /\ res' = [res EXCEPT ![a] = "none"]
  /\ UNCHANGED <<unparked, release, rnd, w, retTo, cancelled, parked>> /\ UNCH_M

CIsUnparked(a) ==
  /\ pc[a] = "lock.c_isunparked"
  /\ IF unparked[Me(a)]
       THEN Goto(a, "unlock.dec") /\ retTo' = [retTo EXCEPT ![a] = "dead"]
       ELSE Goto(a, "lock.c_setrel") /\ UNCHANGED retTo
  /\ UNCHANGED <<rnd, w, cancelled, parked, res>> /\ UNCH_B /\ UNCH_M

CSetRel(a) ==
  /\ pc[a] = "lock.c_setrel"
  /\ release' = [release EXCEPT ![Me(a)] = TRUE] /\ Goto(a, "lock.c_recheck")
  /\ UNCHANGED <<token, unparked>> /\ UNCH_M /\ UNCH_L

CRecheck(a) ==      \* if cur.is_unparked() && cur.take_release() { unlock }
  /\ pc[a] = "lock.c_recheck"
  /\ IF unparked[Me(a)]
       THEN /\ release' = [release EXCEPT ![Me(a)] = FALSE]
            /\ IF release[Me(a)] THEN Goto(a, "unlock.dec") /\ retTo' = [retTo EXCEPT ![a] = "dead"]
                                 ELSE Goto(a, "dead") /\ UNCHANGED retTo
       ELSE Goto(a, "dead") /\ UNCHANGED <<release, retTo>>
  /\ UNCHANGED <<token, unparked, rnd, w, cancelled, parked, res>> /\ UNCH_M

LeaveCS(a) ==
  /\ pc[a] = "cs"
  /\ Goto(a, "unlock.dec") /\ retTo' = [retTo EXCEPT ![a] = "next"]
  /\ UNCHANGED <<rnd, w, cancelled, parked, res>> /\ UNCH_B /\ UNCH_M

NextRound(a) ==
  /\ pc[a] = "next"
  /\ IF rnd[a] < Rounds THEN rnd' = [rnd EXCEPT ![a] = rnd[a] + 1] /\ Goto(a, "try.cas")
                        ELSE UNCHANGED rnd /\ Goto(a, "done")
  /\ UNCHANGED <<w, retTo, cancelled, parked, res>> /\ UNCH_B /\ UNCH_M

Cancel(a) ==
  /\ a \in Victims /\ ~cancelled[a] /\ pc[a] \notin {"done", "dead"}
  /\ cancelled' = [cancelled EXCEPT ![a] = TRUE]
  /\ IF pc[a] = "parked" /\ ~token[Me(a)]
       THEN /\ parked' = [parked EXCEPT ![a] = FALSE] /\ res' = [res EXCEPT ![a] = "Canceled"]
            /\ pc' = [pc EXCEPT ![a] = "lock.park.ret"]
       ELSE UNCHANGED <<parked, res, pc>>
  /\ UNCHANGED <<rnd, w, retTo>> /\ UNCH_B /\ UNCH_M

AllOver == \A a \in Actors : pc[a] \in {"done", "dead"}
Stutter == AllOver /\ UNCHANGED vars

Next ==
  \/ \E a \in Actors :
       TryCas(a) \/ LockPush(a) \/ LockInc(a) \/ Pop(a) \/ WakeUnpark(a) \/ WakeSetUnparked(a)
       \/ WakeTakeRel(a) \/ UnlockDec(a) \/ ParkEnter(a) \/ WakeByToken(a) \/ ParkReturn(a) \/ CIsUnparked(a)
       \/ CSetRel(a) \/ CRecheck(a) \/ LeaveCS(a) \/ NextRound(a) \/ Cancel(a)
  \/ Stutter
Spec == Init /\ [][Next]_vars

-----------------------------------------------------------------------------
MutualExclusion == Cardinality({a \in Actors : pc[a] = "cs"}) <= 1
PopNeverEmpty   == \A a \in Actors : pc[a] = "unlock.pop" => toWake # <<>>
\* when everybody is finished the lock is free and nothing is queued except stale blockers
\* of cancelled waiters that nobody will ever need
QuiescentFree   == AllOver => cnt = Len(toWake)
\* deadlock-freedom (TLC's deadlock check with the Stutter step) is HandOffToLive
=============================================================================
