SPECIFICATION TVSpec
CONSTANTS
  Arms = {"m1", "m2"}
  K <- KK
  NEvents <- N2
  NPoll = 3
  FixK = TRUE
  UrgentKernel = TRUE
  Fix8 = TRUE
CONSTRAINT TVProgress
POSTCONDITION TVAccepted
CHECK_DEADLOCK FALSE
