---- MODULE MCPoison ----
EXTENDS Poison
H1 == [a \in {"a1", "a2", "a3", "a4"} |-> IF a = "a1" THEN "cancel" ELSE IF a = "a2" THEN "normal" ELSE IF a = "a3" THEN "panic_before" ELSE "panic"]
H2 == [a \in {"a1", "a2", "a3"} |-> IF a = "a1" THEN "pending_panic" ELSE IF a = "a2" THEN "normal" ELSE "cancel"]
====
