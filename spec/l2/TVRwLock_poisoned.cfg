SPECIFICATION TVSpec
CONSTANTS
  Actors = {"a1", "a2", "a3"}
  Victims = {}
  Prog <- Pq3
  InitPoison = TRUE
  Fix1 = TRUE
  Fix2 = TRUE
CONSTRAINT TVProgress
POSTCONDITION TVAccepted
CHECK_DEADLOCK FALSE
