\* code as written (Fix8 = FALSE): NothingBad / NoArmRunningAtReturn violated (F8)
SPECIFICATION Spec
CONSTANTS
  Arms = {"m1","m2"}
  Fix8 = FALSE
  Fix13 = FALSE
INVARIANTS NothingBad BottomOnce BottomAfterOwnTop SelectReturnsRunArm SelectNeverFinished NoArmRunningAtReturn
CHECK_DEADLOCK TRUE
