SPECIFICATION MCSpec
CONSTANTS
  Actors = {"rx", "s1", "s2"}
  Rx = "rx"
  Victims = {}
  Prog <- Pd
  Dur = 1
  RepopOnDisc = TRUE
INVARIANTS DeliveredOnce NoInvented PerSenderOrder DrainThenDisconnected NothingLost
VIEW View
CHECK_DEADLOCK TRUE
