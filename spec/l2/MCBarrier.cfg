SPECIFICATION Spec
CONSTANTS
  Parties = {"p1", "p2", "p3"}
  N = 3
  Gens = 2
INVARIANTS OneLeader ReleasedIffN AllPass
CHECK_DEADLOCK TRUE
