SPECIFICATION TVSpec
CONSTANTS
  Arms = {"m1", "m2"}
  K <- KK
  NEvents <- N1
  NPoll = 1
  FixK = TRUE
  UrgentKernel = FALSE
  Fix8 = TRUE
CONSTRAINT TVProgress
POSTCONDITION TVAccepted
CHECK_DEADLOCK FALSE
