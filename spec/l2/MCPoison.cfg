SPECIFICATION Spec
CONSTANTS
  Actors = {"a1", "a2", "a3", "a4"}
  How <- H1
INVARIANTS PoisonIffPanic ReleasedAnyway
CHECK_DEADLOCK TRUE
