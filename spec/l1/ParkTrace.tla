----------------------------- MODULE ParkTrace -----------------------------
(* DRAFT trace-validation spec for Park.tla (code -> spec direction).
   Input: NDJSON written by the harness under the baton, one record per verification
   point, in the exact order the points were released:  {"site": <label>, ...}.
   A record with site s is explained by *the* Park action whose pc label is s.  Spec
   actions whose site is not (yet) hooked are composed in as silent steps; acceptance is
   "some behaviour consumes every record", tracked with a TLC register because silent steps
   make the diameter useless. *)
EXTENDS Park, Json, IOUtils, Sequences

Rec == ndJsonDeserialize(IOEnv.TRACE)
VARIABLE l                     \* next record to consume

IsEvent(s) == l <= Len(Rec) /\ Rec[l].site = s /\ l' = l + 1

Hooked ==
  \/ IsEvent("park.check_load")    /\ PCheckLoad
  \/ IsEvent("park.check_swap")    /\ PCheckSwap
  \/ IsEvent("yield.check_cancel") /\ PYield
  \/ IsEvent("sub.store_co")       /\ KStoreCo
  \/ IsEvent("sub.recheck_state")  /\ KRecheckState
  \/ IsEvent("sub.fast_take")      /\ KFastTake
  \/ IsEvent("sub.set_cancel_co")  /\ KSetCancelCo
  \/ IsEvent("unpark.swap")        /\ \E u \in Unparkers : USwap(u)
  \/ IsEvent("unpark.take")        /\ \E u \in Unparkers : UTake(u)

Silent ==      \* actions with no hook in this prototype
  /\ l' = l
  /\ \/ PCheckStore \/ PSpinYield \/ PSpinPass \/ PStoreTimeout \/ PYieldBack \/ PRmHandle
     \/ PReadPara \/ Resume \/ KTakeTimeout \/ KAddTimer \/ KSetHandle \/ KKernelOn
     \/ KRecheckCancel \/ KKernelOff

TraceInit == Init /\ l = 1
TraceNext == Hooked \/ Silent
TraceSpec == TraceInit /\ [][TraceNext]_<<vars, l>>

\* progress register: the longest prefix any behaviour explained
Progress == TLCSet(1, IF TLCGet(1) < l THEN l ELSE TLCGet(1))
TraceConstraint == Progress
TraceAccepted ==
  IF TLCGet(1) = Len(Rec) + 1 THEN TRUE
  ELSE Print(<<"TRACE REJECTED: first unexplained record", TLCGet(1), Rec[TLCGet(1)]>>, FALSE)
=============================================================================
