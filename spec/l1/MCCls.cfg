\* repaired tree (F14 fixed): every swallowed cancellation drops its result
SPECIFICATION Spec
CONSTANTS
  Kinds = {"park", "syncpark", "sleep", "yield", "io", "evsender", "rawio"}
  MaxCalls = 3
  ConsumeInYieldBack = TRUE
INVARIANTS FreshStart FirstCallClean
CHECK_DEADLOCK FALSE
