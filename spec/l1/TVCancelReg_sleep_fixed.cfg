SPECIFICATION TVSpec
CONSTANTS
  Op1 = "sleep"
  FixReg = TRUE
CONSTRAINT TVProgress
POSTCONDITION TVAccepted
CHECK_DEADLOCK FALSE
