SPECIFICATION Spec
CONSTANTS
  Cors = {"c1", "c2", "c3"}
  Workers = {"w1", "w2"}
  Prog <- PG
  StealDuplicates = FALSE
INVARIANTS NoDropNoDup DoneIsNowhere RunOnce SingleResidency
CHECK_DEADLOCK FALSE
