-------------------------------- MODULE Timer --------------------------------
(* DRAFT (round 0).  src/timeout_list.rs: TimeOutList (per-interval FIFO lists, heap of list
   heads, in_use install flag) + TimerThread (remove_list, wakeup slot, park).  The lists are
   the L0 contract of mpsc_list_v1 (atomic push reporting "was empty", pop_if, remove that
   refuses the newest entry).  Time is an adversary: Tick may happen between any two steps. *)
EXTENDS Naturals, FiniteSets, Sequences, TLC
CONSTANTS Adds,         \* set of add_timer calls; each is a record id -> interval via IntervalOf
          IntervalOf,   \* Adds -> interval (> 0)
          Dels,         \* subset of Adds whose handle is later passed to del_timer
          MaxNow,
          AdversarialTime   \* TRUE: Tick between any two steps (NoEarly, never-hang, F6);
                            \* FALSE: computation is instantaneous -- time passes only while the
                            \* timer thread is parked and no add/del call is in flight ("when
                            \* nothing else delays it"), the setting in which Prompt is meant
Intervals == {IntervalOf[a] : a \in Adds}
VARIABLES now, list, inUse, heap, removeList, wakeup, tokenT,
          pcA, tA, isHead,          \* per add call
          pcD,                      \* per del call
          pcT, nowRead, curList, sleepUntil,
          fired, removed
vars == <<now, list, inUse, heap, removeList, wakeup, tokenT, pcA, tA, isHead, pcD,
          pcT, nowRead, curList, sleepUntil, fired, removed>>
NoL == 0
Init ==
  /\ now = 0 /\ list = [i \in Intervals |-> <<>>] /\ inUse = [i \in Intervals |-> 0]
  /\ heap = {} /\ removeList = <<>> /\ wakeup = FALSE /\ tokenT = FALSE
  /\ pcA = [a \in Adds |-> "add.compute_time"] /\ tA = [a \in Adds |-> 0]
  /\ isHead = [a \in Adds |-> FALSE]
  /\ pcD = [a \in Dels |-> "del.wait_handle"]
  /\ pcT = "tt.drain_removes" /\ nowRead = 0 /\ curList = NoL /\ sleepUntil = 0
  /\ fired = <<>> /\ removed = {}
UNCH_T == UNCHANGED <<pcT, nowRead, curList, sleepUntil, fired>>
UNCH_A == UNCHANGED <<pcA, tA, isHead>>
Entry(a) == [id |-> a, time |-> tA[a]]
ACompute(a) ==
  /\ pcA[a] = "add.compute_time" /\ tA' = [tA EXCEPT ![a] = now + IntervalOf[a]]
  /\ pcA' = [pcA EXCEPT ![a] = "add.push"]
  /\ UNCHANGED <<now, list, inUse, heap, removeList, wakeup, tokenT, isHead, pcD, removed>> /\ UNCH_T
APush(a) ==
  /\ pcA[a] = "add.push"
  /\ LET i == IntervalOf[a] IN
       /\ isHead' = [isHead EXCEPT ![a] = (list[i] = <<>>)]
       /\ list' = [list EXCEPT ![i] = Append(@, Entry(a))]
       /\ pcA' = [pcA EXCEPT ![a] = IF list[i] = <<>> THEN "add.install" ELSE "done"]
  /\ UNCHANGED <<now, inUse, heap, removeList, wakeup, tokenT, tA, pcD, removed>> /\ UNCH_T
AInstall(a) ==
  /\ pcA[a] = "add.install"
  /\ LET i == IntervalOf[a] IN
       /\ inUse' = [inUse EXCEPT ![i] = @ + 1]
       /\ pcA' = [pcA EXCEPT ![a] = IF inUse[i] = 0 THEN "add.heap_push" ELSE "add.wake"]
  /\ UNCHANGED <<now, list, heap, removeList, wakeup, tokenT, tA, isHead, pcD, removed>> /\ UNCH_T
AHeapPush(a) ==
  /\ pcA[a] = "add.heap_push" /\ heap' = heap \cup {[l |-> IntervalOf[a], time |-> tA[a]]}
  /\ pcA' = [pcA EXCEPT ![a] = "add.wake"]
  /\ UNCHANGED <<now, list, inUse, removeList, wakeup, tokenT, tA, isHead, pcD, removed>> /\ UNCH_T
AWake(a) ==
  /\ pcA[a] = "add.wake" /\ pcA' = [pcA EXCEPT ![a] = "done"]
  /\ IF wakeup THEN wakeup' = FALSE /\ tokenT' = TRUE ELSE UNCHANGED <<wakeup, tokenT>>
  /\ UNCHANGED <<now, list, inUse, heap, removeList, tA, isHead, pcD, removed>> /\ UNCH_T
(* del_timer(handle): the caller (a resumed coroutine) got its handle back from add_timer *)
DWait(a) == /\ pcD[a] = "del.wait_handle" /\ pcA[a] = "done" /\ pcD' = [pcD EXCEPT ![a] = "del.push"]
            /\ UNCHANGED <<now, list, inUse, heap, removeList, wakeup, tokenT, removed>> /\ UNCH_A /\ UNCH_T
DPush(a) == /\ pcD[a] = "del.push" /\ removeList' = Append(removeList, a) /\ pcD' = [pcD EXCEPT ![a] = "del.wake"]
            /\ UNCHANGED <<now, list, inUse, heap, wakeup, tokenT, removed>> /\ UNCH_A /\ UNCH_T
DWake(a) == /\ pcD[a] = "del.wake" /\ pcD' = [pcD EXCEPT ![a] = "done"]
            /\ IF wakeup THEN wakeup' = FALSE /\ tokenT' = TRUE ELSE UNCHANGED <<wakeup, tokenT>>
            /\ UNCHANGED <<now, list, inUse, heap, removeList, removed>> /\ UNCH_A /\ UNCH_T
(* timer thread *)
UNCH_AD == UNCH_A /\ UNCHANGED pcD
RemoveFrom(sq, a) ==    \* Entry::remove: only if linked and not the newest entry
  LET idx == {k \in DOMAIN sq : sq[k].id = a} IN
  IF idx = {} THEN sq
  ELSE LET k == CHOOSE k \in idx : TRUE IN
       IF k = Len(sq) THEN sq ELSE SubSeq(sq, 1, k - 1) \o SubSeq(sq, k + 1, Len(sq))
TDrain ==
  /\ pcT = "tt.drain_removes"
  /\ IF removeList = <<>> THEN pcT' = "tt.reg_wakeup" /\ UNCHANGED <<removeList, list, removed>>
     ELSE LET a == Head(removeList)  i == IntervalOf[Head(removeList)] IN
          /\ removeList' = Tail(removeList)
          /\ list' = [list EXCEPT ![i] = RemoveFrom(@, a)]
          /\ removed' = IF RemoveFrom(list[i], a) # list[i] THEN removed \cup {a} ELSE removed
          /\ UNCHANGED pcT
  /\ UNCHANGED <<now, inUse, heap, wakeup, tokenT, nowRead, curList, sleepUntil, fired>> /\ UNCH_AD
TReg ==
  /\ pcT = "tt.reg_wakeup" /\ wakeup' = TRUE /\ pcT' = "tt.recheck_removes"
  /\ UNCHANGED <<now, list, inUse, heap, removeList, tokenT, nowRead, curList, sleepUntil, fired, removed>> /\ UNCH_AD
TRecheck ==
  /\ pcT = "tt.recheck_removes" /\ pcT' = "tt.read_now"
  /\ IF removeList # <<>> /\ wakeup THEN wakeup' = FALSE /\ tokenT' = TRUE ELSE UNCHANGED <<wakeup, tokenT>>
  /\ UNCHANGED <<now, list, inUse, heap, removeList, nowRead, curList, sleepUntil, fired, removed>> /\ UNCH_AD
TReadNow ==
  /\ pcT = "tt.read_now" /\ nowRead' = now /\ pcT' = "tt.sched_peek"
  /\ UNCHANGED <<now, list, inUse, heap, removeList, wakeup, tokenT, curList, sleepUntil, fired, removed>> /\ UNCH_AD
MinTime(h) == CHOOSE t \in {e.time : e \in h} : \A e \in h : t <= e.time
TSchedPeek ==      \* under timer_bh.lock(): peek, maybe pop + in_use.store(0)
  /\ pcT = "tt.sched_peek"
  /\ IF heap = {} THEN pcT' = "tt.park" /\ sleepUntil' = 999 /\ UNCHANGED <<heap, inUse, curList>>
     ELSE LET top == CHOOSE e \in heap : e.time = MinTime(heap) IN
          IF top.time > nowRead
            THEN pcT' = "tt.park" /\ sleepUntil' = now + (top.time - nowRead)   \* park_timeout(dt) from *now*
                 /\ UNCHANGED <<heap, inUse, curList>>
            ELSE /\ heap' = heap \ {top} /\ inUse' = [inUse EXCEPT ![top.l] = 0]
                 /\ curList' = top.l /\ pcT' = "tt.pop_timeout" /\ UNCHANGED sleepUntil
  /\ UNCHANGED <<now, list, removeList, wakeup, tokenT, nowRead, fired, removed>> /\ UNCH_AD
TPopTimeout ==     \* pop_if(time <= now) one entry per step; then peek
  /\ pcT = "tt.pop_timeout"
  /\ LET sq == list[curList] IN
     IF sq # <<>> /\ Head(sq).time <= nowRead
       THEN /\ list' = [list EXCEPT ![curList] = Tail(sq)]
            /\ fired' = Append(fired, [id |-> Head(sq).id, at |-> now, due |-> Head(sq).time])
            /\ UNCHANGED pcT
       ELSE /\ pcT' = IF sq # <<>> THEN "tt.reinstall" ELSE "tt.empty_recheck"
            /\ UNCHANGED <<list, fired>>
  /\ UNCHANGED <<now, inUse, heap, removeList, wakeup, tokenT, nowRead, curList, sleepUntil, removed>> /\ UNCH_AD
TReinstall ==      \* Some(time): if in_use.fetch_add(1) == 0 { entry.time = time; push }
  /\ pcT \in {"tt.reinstall", "tt.empty_recheck"}
  /\ LET sq == list[curList] IN
     IF sq = <<>> THEN UNCHANGED <<inUse, heap>>       \* list really empty: nothing to do
     ELSE /\ inUse' = [inUse EXCEPT ![curList] = @ + 1]
          /\ heap' = IF inUse[curList] = 0 THEN heap \cup {[l |-> curList, time |-> Head(sq).time]} ELSE heap
  /\ pcT' = "tt.sched_peek"
  /\ UNCHANGED <<now, list, removeList, wakeup, tokenT, nowRead, curList, sleepUntil, fired, removed>> /\ UNCH_AD
TPark ==           \* thread::park / park_timeout: returns on token or when the time is up
  /\ pcT = "tt.park" /\ (tokenT \/ now >= sleepUntil)
  /\ tokenT' = FALSE /\ pcT' = "tt.drain_removes"
  /\ UNCHANGED <<now, list, inUse, heap, removeList, wakeup, nowRead, curList, sleepUntil, fired, removed>> /\ UNCH_AD
Idle == /\ pcT = "tt.park" /\ ~tokenT /\ now < sleepUntil
        /\ \A a \in Adds : pcA[a] \in {"add.compute_time", "done"}
        /\ \A a \in Dels : pcD[a] \in {"del.wait_handle", "del.push", "done"}
Tick == /\ now < MaxNow /\ now' = now + 1 /\ (AdversarialTime \/ Idle)
        /\ UNCHANGED <<list, inUse, heap, removeList, wakeup, tokenT, pcD, pcT, nowRead, curList, sleepUntil, fired, removed>> /\ UNCH_A
Next == \/ \E a \in Adds : ACompute(a) \/ APush(a) \/ AInstall(a) \/ AHeapPush(a) \/ AWake(a)
        \/ \E a \in Dels : DWait(a) \/ DPush(a) \/ DWake(a)
        \/ TDrain \/ TReg \/ TRecheck \/ TReadNow \/ TSchedPeek \/ TPopTimeout \/ TReinstall \/ TPark
        \/ Tick
Spec == Init /\ [][Next]_vars
-----------------------------------------------------------------------------
Pending == UNION {{list[i][k] : k \in DOMAIN list[i]} : i \in Intervals}
NoEarlyFire == \A k \in DOMAIN fired : fired[k].at >= fired[k].due
FiredOnce   == \A j, k \in DOMAIN fired : j # k => fired[j].id # fired[k].id
FiredXorRemoved == \A k \in DOMAIN fired : fired[k].id \notin removed
InstallerInFlight(i) ==
  \/ \E a \in Adds : IntervalOf[a] = i /\ pcA[a] \in {"add.install", "add.heap_push", "add.wake"}
  \/ (pcT \in {"tt.pop_timeout", "tt.reinstall", "tt.empty_recheck"} /\ curList = i)
\* every non-empty list is represented in the heap, or somebody is about to put it there
\* (never-hang half, must hold under adversarial time)
HeapCoversLists == \A i \in Intervals :
   list[i] # <<>> => (\E e \in heap : e.l = i) \/ InstallerInFlight(i)
\* (promptness half, meant for friendly time: a producer stalled between computing its
\* deadline and pushing can legitimately end up behind a later deadline in the same list)
HeapTimeTight == \A i \in Intervals :
   list[i] # <<>> => (\E e \in heap : e.l = i /\ e.time <= Head(list[i]).time) \/ InstallerInFlight(i)
\* promptness: an idle timer thread never sleeps past the earliest pending deadline unless
\* somebody who will wake it is in flight
WakerInFlight == \/ \E a \in Adds : pcA[a] \in {"add.install", "add.heap_push", "add.wake"}
                 \/ \E a \in Dels : pcD[a] \in {"del.wake"}
Prompt == (pcT = "tt.park" /\ ~tokenT /\ Pending # {}) =>
             (\A e \in Pending : sleepUntil <= e.time \/ sleepUntil <= now) \/ WakerInFlight
\* an idle timer thread can always be reached: if it is (about to be) parked with work that
\* arrived, its wakeup slot is armed or a token is pending
=============================================================================
