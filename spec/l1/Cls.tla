---------------------------------- MODULE Cls ----------------------------------
(* What a pooled stack carries from one occupant to the next.
   The generator's `para` slot (yield_now.rs:72-83) lives in the pooled generator, not in the
   per-spawn CoroutineLocal, so it survives `Done::drop_coroutine` -> pool.put -> pool.get ->
   init_code.  Every blocking facility is an EventSource used through yield_with():
       if cancelled { co_set_para("Canceled"); return source.yield_back() }      (short-circuit)
       co_yield_with(..);  source.yield_back();
   and is resumed by: its event (no para), a timer (para = TimedOut), cancel() (para = Canceled).
   Sources differ in what yield_back and the code after the yield do with `para`:
       kind          yield_back                         after the yield
       "park"        check_cancel(): consume + panic    get_co_para()            (park.rs)
       "syncpark"    nothing (ignore_cancel)            get_co_para()            (SyncBlocker parks)
       "sleep"       check_cancel()                     get_co_para()            (sleep.rs)
       "yield"       check_cancel()                     -                        (yield_now)
       "io"          check_cancel()                     co_io_result()           (socket_read.rs ...)
       "evsender"    nothing                            -                        (cqueue.rs)     <-
       "rawio"       clear_cancel_bit()                 -                        (wait_io.rs)    <-
   An occupant = a short program of such calls; a cancel may arrive before any step.
   ConsumeInYieldBack = TRUE models the candidate repair (those two yield_backs consume). *)
EXTENDS Naturals, Sequences, TLC
CONSTANTS Kinds, MaxCalls, ConsumeInYieldBack
VARIABLES para, cancelBit, pc, calls, occupant, firstResult, panicking
vars == <<para, cancelBit, pc, calls, occupant, firstResult, panicking>>
Init == /\ para = "none" /\ cancelBit = FALSE /\ pc = "idle" /\ calls = 0 /\ occupant = 1
        /\ firstResult = "n/a" /\ panicking = FALSE
PanicConsume == {"park", "sleep", "yield", "io"}
ConsumesAfter == {"park", "syncpark", "sleep", "io"}
HasTimer == {"park", "syncpark", "sleep", "io"}
CancelRegistered == {"park", "syncpark", "sleep", "io", "rawio"}
\* environment: cancel the first occupant at any moment while it is alive
CancelNow == /\ occupant = 1 /\ ~cancelBit /\ pc # "ended" /\ cancelBit' = TRUE
             /\ UNCHANGED <<para, pc, calls, occupant, firstResult, panicking>>
\* yield_back(kind), then the code after the yield; k is the source kind, p the para it sees
After(k, p) ==
  LET afterYB == IF k \in PanicConsume /\ cancelBit THEN "none"
                 ELSE IF ConsumeInYieldBack /\ k \in {"evsender", "rawio"} THEN "none" ELSE p
      dies    == k \in PanicConsume /\ cancelBit /\ ~panicking
      bit     == IF k = "rawio" THEN FALSE ELSE cancelBit
      final   == IF k \in ConsumesAfter /\ ~dies THEN "none" ELSE afterYB
      seen    == IF k \in ConsumesAfter /\ ~dies THEN afterYB ELSE "n/a"
  IN  /\ para' = final /\ cancelBit' = bit
      /\ panicking' = (panicking \/ dies)
      /\ pc' = IF dies THEN "ended" ELSE "idle"
      /\ firstResult' = IF occupant = 2 /\ calls = 0 THEN (IF dies THEN "CANCEL PANIC" ELSE seen) ELSE firstResult
      /\ calls' = calls + 1
Call(k) ==
  /\ pc = "idle" /\ calls < MaxCalls
  /\ \/ (cancelBit /\ After(k, "Canceled"))                                   \* short-circuit
     \/ (~cancelBit /\ After(k, para))                                        \* resumed by its event: para untouched
     \/ (~cancelBit /\ k \in HasTimer /\ After(k, "TimedOut"))                \* resumed by the timer
  /\ UNCHANGED occupant
CancelWhileSuspended(k) ==   \* cancel() takes the suspended coroutine: bit set, para = Canceled
  /\ pc = "idle" /\ calls < MaxCalls /\ occupant = 1 /\ ~cancelBit /\ k \in CancelRegistered
  /\ LET p == IF k = "rawio" THEN para ELSE "Canceled" IN       \* io cancel resumes without setting para
       /\ cancelBit' = (k # "rawio")
       /\ para' = (IF k \in PanicConsume THEN "none" ELSE IF k \in ConsumesAfter THEN "none"
                   ELSE IF ConsumeInYieldBack THEN "none" ELSE p)
       /\ panicking' = (k \in PanicConsume)
       /\ pc' = (IF k \in PanicConsume THEN "ended" ELSE "idle")
  /\ calls' = calls + 1 /\ UNCHANGED <<occupant, firstResult>>
End == /\ pc = "idle" /\ pc' = "ended" /\ UNCHANGED <<para, cancelBit, calls, occupant, firstResult, panicking>>
\* Done::drop_coroutine -> pool.put ; spawn: pool.get, init_code, *fresh* CoroutineLocal (fresh Cancel)
Recycle == /\ pc = "ended" /\ occupant = 1 /\ occupant' = 2 /\ pc' = "idle" /\ calls' = 0
           /\ cancelBit' = FALSE /\ panicking' = FALSE /\ UNCHANGED <<para, firstResult>>
Next == CancelNow \/ (\E k \in Kinds : Call(k) \/ CancelWhileSuspended(k)) \/ End \/ Recycle
        \/ (occupant = 2 /\ pc = "ended" /\ UNCHANGED vars)
Spec == Init /\ [][Next]_vars
\* a fresh coroutine starts clean ...
FreshStart == (occupant = 2 /\ calls = 0) => para = "none"
\* ... so its first blocking call, resumed by its own event, reports nothing stale
FirstCallClean == firstResult \in {"n/a", "none", "TimedOut"}
=============================================================================
