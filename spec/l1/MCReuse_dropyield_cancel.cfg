SPECIFICATION MCSpec
CONSTANTS
  Kind = "dropyield_cancel"
  Fix14 = TRUE
INVARIANTS StartsClean NoGhostResult TrueResult Accounted
VIEW View
CHECK_DEADLOCK TRUE
