SPECIFICATION TVSpec
CONSTANTS
  Op1 = "park"
  FixReg = TRUE
CONSTRAINT TVProgress
POSTCONDITION TVAccepted
CHECK_DEADLOCK FALSE
