SPECIFICATION TVSpec
CONSTANTS
  Kind = "select_cancel"
  Fix14 = TRUE
CONSTRAINT TVProgress
POSTCONDITION TVAccepted
CHECK_DEADLOCK FALSE
