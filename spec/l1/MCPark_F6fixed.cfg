\* repaired tree: the deadline is re-checked once the coroutine is published
SPECIFICATION Spec
CONSTANTS
  Unparkers = {u1, u2}
  Rounds = 2
  Dur <- DurFn
  MaxNow = 2
  WithCancel = TRUE
  CheckCancel = TRUE
  Recheck = TRUE
  Fix6 = TRUE
  FixReg = TRUE
INVARIANTS NoLostTimeout
CHECK_DEADLOCK FALSE
