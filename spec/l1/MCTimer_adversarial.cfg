\* adversarial time (11 M states, about a minute at 12 workers): safety + never-hang
INIT Init
NEXT Next
CONSTANTS
  Adds = {"x", "y", "z"}
  IntervalOf <- I1
  Dels = {"x"}
  MaxNow = 3
  AdversarialTime = TRUE
INVARIANTS NoEarlyFire FiredOnce FiredXorRemoved HeapCoversLists
CHECK_DEADLOCK FALSE
