---- MODULE MCParkTrace ----
EXTENDS ParkTrace
DurFn == <<0>>
TraceInit0 == TLCSet(1, 1) /\ TraceInit
====
