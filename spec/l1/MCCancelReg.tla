---- MODULE MCCancelReg ----
(* model-checking / trace-validation wrapper of CancelReg.tla (the labels live in the spec itself) *)
EXTENDS CancelReg
MCInit == Init
MCNext == Next
MCNextU == NextU
MCSpec == Spec
MCSpecU == SpecU
====
