SPECIFICATION TVSpec
CONSTANTS
  Kind = "normal"
  Fix14 = TRUE
CONSTRAINT TVProgress
POSTCONDITION TVAccepted
CHECK_DEADLOCK FALSE
