SPECIFICATION TVSpec
CONSTANTS
  Kind = "park_cancel"
  Fix14 = TRUE
CONSTRAINT TVProgress
POSTCONDITION TVAccepted
CHECK_DEADLOCK FALSE
