SPECIFICATION MCSpec
CONSTANTS
  Op1 = "park"
  FixReg = FALSE
INVARIANTS TypeOK SlotImpliesSuspended NoLostCancel NoFalseCancel
CHECK_DEADLOCK TRUE
