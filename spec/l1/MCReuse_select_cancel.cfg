SPECIFICATION MCSpec
CONSTANTS
  Kind = "select_cancel"
  Fix14 = TRUE
INVARIANTS StartsClean NoGhostResult TrueResult Accounted
VIEW View
CHECK_DEADLOCK TRUE
