------------------------------- MODULE TVPark -------------------------------
(* Trace validation (code -> spec) for Park.tla: the verification points that the real Park passed in explored
   executions of the harness scenario `park` (kind = handle: the coroutine's own Park over two rounds, a timed
   and an untimed one; two unparkers; a canceller; the runtime's timer thread as passive actor `tm`; the kernel
   side of the yields as `kp`) must be a behaviour of the literal specification.  Every action of Park.tla gets
   the label of the hook that sits in front of it in the code (psub.* for the sub.* steps; the hook
   psub.add_timer precedes `timeout.take()`), actions without a hook are silent and urgent.  Records dropped
   by the pre-processing: scenario points (pk.xxx), cancel.io, the repeated cancel.set_bit of the inline cancel,
   AtomicOption points. *)
EXTENDS Park, Json, IOUtils, Sequences, FiniteSets, TLC, Integers
DurFn == <<1, 0>>
TVRec == ndJsonDeserialize(IOEnv.TRACE)
TVN == Len(TVRec)
VARIABLES last, tvl, init0, spun
tvall == <<state, waitCo, waitKernel, timeoutReg, handle, timers, nextId, now, cancelBit, cancelCo, para, co,
           pcP, phase, round, rets, pcK, kreg, deadline, pcU, pcC, creg, owed, last, spun>>
L(a, s) == last' = <<a, s, -1>>
Silent(a) == last' = <<"~", a, -1>>
HookP == {"park.check_load", "park.check_store", "park.check_swap", "park.store_timeout", "yield.check_cancel", "park.rm_handle"}
KSite == [x \in {"sub.take_timeout", "sub.store_co", "sub.recheck_state", "sub.recheck_timeout", "sub.fast_take",
                 "sub.set_cancel_co", "sub.recheck_cancel", "sub.c_take_slot", "sub.c_take_co"} |->
            CASE x = "sub.take_timeout" -> "psub.add_timer" [] x = "sub.store_co" -> "psub.store_co"
              [] x = "sub.recheck_state" -> "psub.recheck_state" [] x = "sub.recheck_timeout" -> "psub.recheck_timeout"
              [] x = "sub.fast_take" -> "psub.fast_take" [] x = "sub.set_cancel_co" -> "psub.set_cancel_co"
              [] x = "sub.recheck_cancel" -> "psub.recheck_cancel" [] x = "sub.c_take_slot" -> "cancel.take_slot"
              [] OTHER -> "cancel.take_co"]
\* silent steps that are enabled now (they run in the same baton slice as the step before them)
SilentStep ==
  \/ (PYieldBack \/ PReadPara) /\ Silent("p") /\ UNCHANGED spun
  \/ Resume /\ Silent("p") /\ UNCHANGED spun
  \/ (KAddTimer \/ KSetHandle \/ KKernelOn \/ KKernelOff) /\ Silent("kp") /\ UNCHANGED spun
\* the load of wait_kernel sits somewhere between the coroutine's resumption and its next hook: silent, not urgent
LazyStep == pcP = "park.spin_kernel" /\ spun /\ PSpinLoad /\ Silent("p") /\ spun' = (pcP' = "park.spin_yield")
HookStep ==
  \/ (PCheckLoad \/ PCheckStore \/ PCheckSwap \/ PStoreTimeout \/ PYield \/ PRmHandle) /\ pcP \in HookP /\ L("p", pcP) /\ UNCHANGED spun
  \* the hook park.spin_kernel is passed once, in front of the loop; every turn of the loop is a yield_now (its hook: yield.check_cancel)
  \/ pcP = "park.spin_kernel" /\ ~spun /\ Running /\ spun' = TRUE /\ L("p", "park.spin_kernel") /\ UNCHANGED vars
  \/ PSpinYield /\ L("p", "yield.check_cancel") /\ UNCHANGED spun
  \/ (KTakeTimeout \/ KStoreCo \/ KRecheckState \/ KRecheckTimeout \/ KFastTake \/ KSetCancelCo \/ KRecheckCancel \/ KCTakeSlot \/ KCTakeCo)
       /\ pcK \in DOMAIN KSite /\ L("kp", KSite[pcK]) /\ UNCHANGED spun
  \/ \E u \in Unparkers : (USwap(u) \/ UTake(u)) /\ L(u, pcU[u]) /\ UNCHANGED spun
  \/ TFire /\ L("tm", "timer.take") /\ UNCHANGED spun
  \/ Tick /\ last' = <<"!tick", "", -1>> /\ UNCHANGED spun
  \/ (CSetBit \/ CTakeSlot \/ CTakeCo) /\ L("x", pcC) /\ UNCHANGED spun
TVInit == Init /\ last = <<"", "", -1>> /\ spun = FALSE /\ tvl = 1 /\ init0 = tvall /\ TLCSet(1, 1)
TVMatches(lbl) == tvl <= TVN /\ TVRec[tvl].a1 = lbl[1] /\ TVRec[tvl].a2 = lbl[2]
TVNext ==
  \/ /\ tvl <= TVN /\ TVRec[tvl].a1 = "!reset" /\ tvl' = tvl + 1 /\ UNCHANGED init0
     /\ state' = init0[1] /\ waitCo' = init0[2] /\ waitKernel' = init0[3] /\ timeoutReg' = init0[4] /\ handle' = init0[5]
     /\ timers' = init0[6] /\ nextId' = init0[7] /\ now' = init0[8] /\ cancelBit' = init0[9] /\ cancelCo' = init0[10]
     /\ para' = init0[11] /\ co' = init0[12] /\ pcP' = init0[13] /\ phase' = init0[14] /\ round' = init0[15] /\ rets' = init0[16]
     /\ pcK' = init0[17] /\ kreg' = init0[18] /\ deadline' = init0[19] /\ pcU' = init0[20] /\ pcC' = init0[21] /\ creg' = init0[22]
     /\ owed' = init0[23] /\ last' = init0[24] /\ spun' = init0[25]
  \/ /\ tvl <= TVN /\ TVRec[tvl].a1 # "!reset" /\ UNCHANGED init0
     /\ IF ENABLED SilentStep THEN SilentStep /\ tvl' = tvl
        ELSE \/ HookStep /\ TVMatches(last') /\ tvl' = tvl + 1
             \/ LazyStep /\ tvl' = tvl
  \* a Tick of the harness on a stale timer entry has no counterpart in the model
  \/ /\ tvl <= TVN /\ TVRec[tvl].a1 = "!tick" /\ ~ENABLED SilentStep /\ tvl' = tvl + 1 /\ UNCHANGED <<tvall, init0>>
  \* the timer thread takes a stale entry (left in the list by an earlier execution or round: its slot is empty): no-op
  \/ /\ tvl <= TVN /\ TVRec[tvl].a1 = "tm" /\ ~ENABLED SilentStep /\ tvl' = tvl + 1 /\ UNCHANGED <<tvall, init0>>
  \/ /\ tvl = TVN + 1 /\ tvl' = TVN + 2 /\ UNCHANGED <<tvall, init0>>
TVSpec == TVInit /\ [][TVNext]_<<tvall, tvl, init0>>
TVProgress == TLCSet(1, IF TLCGet(1) < tvl THEN tvl ELSE TLCGet(1))
TVAccepted ==
  LET m == TLCGet(1)
      ok == m = TVN + 2
      resets(u) == Cardinality({i \in 1..u : i <= TVN /\ TVRec[i].a1 = "!reset"})
  IN  /\ PrintT(<<"TRACEVAL", "accepted", IF ok THEN resets(TVN) ELSE resets(m) - 1, "rejected", IF ok THEN 0 ELSE 1>>)
      /\ (ok \/ PrintT(<<"TRACEVAL first_rejected", m, IF m <= TVN THEN TVRec[m] ELSE "end">>))
=============================================================================
