SPECIFICATION MCSpec
CONSTANTS
  Kind = "select_cancel"
  Fix14 = FALSE
INVARIANTS StartsClean NoGhostResult TrueResult Accounted
VIEW View
CHECK_DEADLOCK TRUE
