\* repaired tree (F5 fixed): rounded up, at least 1ms
SPECIFICATION MCSpec
CONSTANTS
  Ceil = TRUE
INVARIANTS NeverEarly AlwaysArmed
CHECK_DEADLOCK FALSE
