------------------------------ MODULE GlobalQ ------------------------------
(* C01: the hand-off of a globally scheduled coroutine to a worker (src/scheduler.rs schedule_global*:
   push to the worker's global queue, then write its eventfd; src/io/sys/unix/epoll.rs select(): on the
   wake-up event read (clear) the eventfd, then collect the global queue into the local one; run_queued_tasks:
   when the local queue is empty, collect the global queue once more before stealing / going back to epoll_wait).
   pc values with a dot are hook sites (sched.gpush, sched.gwake by the spawning thread; selw.read, selw.collect
   by the worker); the others are internal.
   ReadThenCollect / RecollectWhenEmpty = TRUE, TRUE is the code as written; a coroutine must never be left in
   the global queue while the worker sleeps with a cleared eventfd (it would never run: C01).
   (The 10 ms poll time-out of epoll_wait and stealing are deliberately absent: the hand-off must not depend on them.) *)
EXTENDS Naturals, FiniteSets, TLC
CONSTANTS Pushers, ReadThenCollect, RecollectWhenEmpty
VARIABLES gq, lq, efd, ran, pcP, pcW
vars == <<gq, lq, efd, ran, pcP, pcW>>
Init == gq = {} /\ lq = {} /\ efd = FALSE /\ ran = {} /\ pcP = [p \in Pushers |-> "sched.gpush"] /\ pcW = "epoll_wait"
PPush(p) == pcP[p] = "sched.gpush" /\ gq' = gq \cup {p} /\ pcP' = [pcP EXCEPT ![p] = "sched.gwake"] /\ UNCHANGED <<lq, efd, ran, pcW>>
PWake(p) == pcP[p] = "sched.gwake" /\ efd' = TRUE /\ pcP' = [pcP EXCEPT ![p] = "done"] /\ UNCHANGED <<gq, lq, ran, pcW>>
\* the worker: epoll_wait returns only when the eventfd is readable
WWake == pcW = "epoll_wait" /\ efd /\ pcW' = (IF ReadThenCollect THEN "selw.read" ELSE "selw.collect") /\ UNCHANGED <<gq, lq, efd, ran, pcP>>
WRead == pcW = "selw.read" /\ efd' = FALSE /\ pcW' = (IF ReadThenCollect THEN "selw.collect" ELSE "run") /\ UNCHANGED <<gq, lq, ran, pcP>>
WCollect == pcW = "selw.collect" /\ lq' = lq \cup gq /\ gq' = {} /\ pcW' = (IF ReadThenCollect THEN "run" ELSE "selw.read") /\ UNCHANGED <<efd, ran, pcP>>
WRun == /\ pcW = "run"
        /\ IF lq # {} THEN \E c \in lq : lq' = lq \ {c} /\ ran' = ran \cup {c} /\ UNCHANGED <<gq, pcW>>
           ELSE IF RecollectWhenEmpty /\ gq # {} THEN lq' = gq /\ gq' = {} /\ UNCHANGED <<ran, pcW>>
           ELSE pcW' = "epoll_wait" /\ UNCHANGED <<gq, lq, ran>>
        /\ UNCHANGED <<efd, pcP>>
Done == (\A p \in Pushers : pcP[p] = "done") /\ ran = Pushers /\ UNCHANGED vars
Next == (\E p \in Pushers : PPush(p) \/ PWake(p)) \/ WWake \/ WRead \/ WCollect \/ WRun \/ Done
Spec == Init /\ [][Next]_vars
\* nothing is stranded: when the worker is about to sleep with nothing signalled, whatever sits in the global queue
\* belongs to a pusher that has yet to write the eventfd
NoStranded == (pcW = "epoll_wait" /\ ~efd) => \A c \in gq : pcP[c] = "sched.gwake"
RunOnce == Cardinality(ran) <= Cardinality(Pushers)
=============================================================================
