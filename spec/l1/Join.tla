--------------------------------- MODULE Join ---------------------------------
(* src/join.rs + the closure epilogue of coroutine_impl.rs:277-288.
   Finisher: store the packet, Join::trigger (state := false; take to_wake; unpark).
   Joiners (wait / join / is_done pollers): load; register; re-load; park | un-register. *)
EXTENDS Naturals, FiniteSets, TLC
CONSTANTS Joiners,        \* at most one may block (to_wake is a single slot): JoinHandle is not Clone,
                          \* so "Joiners" are the one join()/wait() caller plus is_done() pollers
          Pollers,        \* subset that only calls is_done()
          Recheck, StoreBeforeTake      \* TRUE, TRUE = as written
VARIABLES state, toWake, token, packet, pcF, pcJ, saw
vars == <<state, toWake, token, packet, pcF, pcJ, saw>>
Init == /\ state = TRUE /\ toWake = FALSE /\ token = FALSE /\ packet = FALSE
        /\ pcF = "run" /\ pcJ = [j \in Joiners |-> IF j \in Pollers THEN "is_done.load" ELSE "join.load1"]
        /\ saw = [j \in Joiners |-> "none"]
Goto(j, l) == pcJ' = [pcJ EXCEPT ![j] = l]
FRun   == pcF = "run" /\ pcF' = "co.store_packet" /\ UNCHANGED <<state, toWake, token, packet, pcJ, saw>>
FStore == pcF = "co.store_packet" /\ packet' = TRUE
          /\ pcF' = (IF StoreBeforeTake THEN "join.trigger_store" ELSE "join.trigger_take")
          /\ UNCHANGED <<state, toWake, token, pcJ, saw>>
FTriggerStore == pcF = "join.trigger_store" /\ state' = FALSE
                 /\ pcF' = (IF StoreBeforeTake THEN "join.trigger_take" ELSE "done")
                 /\ UNCHANGED <<toWake, token, packet, pcJ, saw>>
FTriggerTake == /\ pcF = "join.trigger_take"
                /\ IF toWake THEN toWake' = FALSE /\ token' = TRUE ELSE UNCHANGED <<toWake, token>>
                /\ pcF' = (IF StoreBeforeTake THEN "done" ELSE "join.trigger_store")
                /\ UNCHANGED <<state, packet, pcJ, saw>>
JLoad1(j) == /\ pcJ[j] = "join.load1" /\ Goto(j, IF state THEN "join.reg" ELSE "join.take_packet")
             /\ UNCHANGED <<state, toWake, token, packet, pcF, saw>>
JReg(j) == /\ pcJ[j] = "join.reg" /\ toWake' = TRUE /\ token' = FALSE
           /\ Goto(j, IF Recheck THEN "join.load2" ELSE "join.park")
           /\ UNCHANGED <<state, packet, pcF, saw>>
JLoad2(j) == /\ pcJ[j] = "join.load2" /\ Goto(j, IF state THEN "join.park" ELSE "join.unreg")
             /\ UNCHANGED <<state, toWake, token, packet, pcF, saw>>
JUnreg(j) == /\ pcJ[j] = "join.unreg" /\ toWake' = FALSE /\ Goto(j, "join.take_packet")
             /\ UNCHANGED <<state, token, packet, pcF, saw>>
JPark(j) == /\ pcJ[j] = "join.park" /\ token /\ token' = FALSE /\ Goto(j, "join.take_packet")
            /\ UNCHANGED <<state, toWake, packet, pcF, saw>>
JTake(j) == /\ pcJ[j] = "join.take_packet" /\ saw' = [saw EXCEPT ![j] = IF packet THEN "value" ELSE "EMPTY"]
            /\ Goto(j, "done") /\ UNCHANGED <<state, toWake, token, packet, pcF>>
PIsDone(j) == /\ pcJ[j] = "is_done.load"
              /\ saw' = [saw EXCEPT ![j] = IF ~state THEN (IF packet THEN "done_ok" ELSE "done_EARLY") ELSE "running"]
              /\ Goto(j, "done") /\ UNCHANGED <<state, toWake, token, packet, pcF>>
AllOver == pcF = "done" /\ \A j \in Joiners : pcJ[j] = "done"
Next == FRun \/ FStore \/ FTriggerStore \/ FTriggerTake
        \/ (\E j \in Joiners : JLoad1(j) \/ JReg(j) \/ JLoad2(j) \/ JUnreg(j) \/ JPark(j) \/ JTake(j) \/ PIsDone(j))
        \/ (AllOver /\ UNCHANGED vars)
Spec == Init /\ [][Next]_vars
JoinAfterDone == \A j \in Joiners : saw[j] \notin {"EMPTY", "done_EARLY"}
\* no stranded joiner = TLC deadlock check
=============================================================================
