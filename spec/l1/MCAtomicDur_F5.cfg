\* pinned tree: as_millis() truncates: sub-millisecond = no timer, fractional = early
SPECIFICATION MCSpec
CONSTANTS
  Ceil = FALSE
INVARIANTS NeverEarly AlwaysArmed
CHECK_DEADLOCK FALSE
