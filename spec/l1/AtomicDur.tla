------------------------------ MODULE AtomicDur ------------------------------
(* src/sync/atomic_dur.rs: Option<Duration> stored as whole milliseconds, 0 = None.
   d is the requested time-out in nanoseconds (Some(d)); the question is what take()/get()
   hand to the timer.  Ceil = FALSE is the code as written (as_millis() truncates). *)
EXTENDS Integers
CONSTANT
  \* @type: Bool;
  Ceil
VARIABLE
  \* @type: Int;
  d
MS == 1000000
StoredMs == IF Ceil THEN (IF d = 0 THEN 1 ELSE (IF (d + MS - 1) \div MS = 0 THEN 1 ELSE (d + MS - 1) \div MS))
                    ELSE d \div MS
\* what the timer is armed with: 0 means "no timer at all"
ArmedNs == StoredMs * MS
Init == d \in Nat
Next == UNCHANGED d
\* for every duration: a timer exists, and it is not earlier than what was asked for
TimeoutExists == StoredMs # 0
NotEarly      == ArmedNs >= d
CInitT == Ceil = TRUE
CInitF == Ceil = FALSE
==============================================================================
