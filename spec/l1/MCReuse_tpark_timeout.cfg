SPECIFICATION MCSpec
CONSTANTS
  Kind = "tpark_timeout"
  Fix14 = TRUE
INVARIANTS StartsClean NoGhostResult TrueResult Accounted
VIEW View
CHECK_DEADLOCK TRUE
