----------------------------- MODULE CancelReg -----------------------------
(* The cancel registration of a coroutine over TWO consecutive blocking calls (C09: "after cancel() ... it stops at
   its current or next cancellable blocking call", for a cancel issued while the target is "yielding, registering,
   parked, being woken").

   Every blocking call of a coroutine publishes the coroutine in a slot (AtomicOption) and registers that slot with
   the coroutine's Cancel data (`cancel.set_co(slot)`), so that `cancel()` can take the coroutine out of the slot.
   The registration is made by the *kernel side* of the yield (EventSource::subscribe), which runs on the worker's
   stack after the switch - and, in the pinned tree, AFTER the coroutine has become visible to its wakers:

     Sleep::subscribe (src/sleep.rs):   add_timer(slot)            ; cancel.set_co(slot) ; re-check cancel
     Park::subscribe  (src/park.rs):    add_timer ; wait_co.store(co) ; re-check state ; re-check timeout ;
                                        cancel.set_co(wait_co) ; re-check cancel

   A waker (the timer thread, an unparker) may therefore resume the coroutine on another thread while the kernel
   side K1 of that yield is still in front of its `set_co`.  The coroutine goes on, blocks in its next call (a park
   on a fresh Blocker B: nothing makes it wait for K1, `wait_kernel` belongs to the *other* Park), K2 registers
   B's slot - and then K1 registers the slot of the call that is long over.  A cancel() now takes the stale
   registration, finds its slot empty and does nothing: the cancel is lost, the coroutine sleeps for ever (F24,
   found with the hold-back of the harness switched off; TLC finds it with FixReg = FALSE; both schedules are kept
   as regress schedules and were shown against the real code).

   Repair (FixReg = TRUE): the registration is made BEFORE the coroutine becomes visible -
     Sleep: cancel.set_co(slot) ; re-check cancel ; add_timer(slot)
     Park:  add_timer ; cancel.set_co(wait_co) ; wait_co.store(co) ; re-check state ; re-check timeout ;
            re-check cancel = take the coroutine out of *this* slot (the canceller may have consumed the registration
            while the slot was still empty)
   so a registration can never be younger than the resumption it belongs to.

   Actors: "p" the coroutine (two calls: Op1 in {"sleep", "park"} then an untimed park on a fresh Blocker B that
   nobody unparks), "k1"/"k2" the kernel sides of its two yields, "w" the waker of the first call (timer thread for
   sleep, an unparker for park), "x" the canceller.  pc values are the names of the hooks in the code. *)
EXTENDS Integers, FiniteSets, Sequences, TLC

CONSTANTS Op1,        \* "sleep" | "park"
          FixReg      \* FALSE: pinned tree, TRUE: repaired order

VARIABLES
  bit,        \* cancel requested (CancelImpl.state bit 0)
  reg,        \* CancelImpl.co: "none" | "A" | "B"   (which slot is registered)
  slot,       \* [{"A","B"} -> BOOLEAN]: the coroutine sits in that slot
  token,      \* Park A's wake token (Park.state); the sleep has none
  armed,      \* the sleep's timer entry is in the timer list
  pcP, pcK, pcW, pcX,
  res,        \* result handed to the coroutine by whoever took it out of a slot: "none" | "ok" | "canceled"
  kreg,       \* register of an inline / external cancel(): the registration it took ([actor -> "none"|"A"|"B"])
  last        \* <<actor, hook, -1>> of the step taken (conformance label; "~" = no hook)

vars == <<bit, reg, slot, token, armed, pcP, pcK, pcW, pcX, res, kreg, last>>

Slots == {"A", "B"}
KS == {"k1", "k2"}
SlotOf(k) == IF k = "k1" THEN "A" ELSE "B"
IsSleep(k) == k = "k1" /\ Op1 = "sleep"

Init ==
  /\ bit = FALSE /\ reg = "none" /\ slot = [s \in Slots |-> FALSE] /\ token = FALSE /\ armed = FALSE
  /\ pcP = "yield1" /\ pcK = [k \in KS |-> "idle"] /\ pcW = (IF Op1 = "sleep" THEN "timer.take" ELSE "unpark.swap")
  /\ pcX = "cancel.set_bit" /\ res = "none"
  /\ kreg = [a \in KS \cup {"x"} |-> "none"]
  /\ last = <<"", "", -1>>

L(a, s) == last' = <<a, s, -1>>

(* first step of the kernel side of a yield *)
KStart(k) ==
  IF IsSleep(k) THEN (IF FixReg THEN "slsub.set_cancel_co" ELSE "slsub.add_timer") ELSE "psub.add_timer"

-----------------------------------------------------------------------------
(* the coroutine *)

\* yield_with: a cancel seen in user space short-circuits the call; else switch to the kernel side
PYield(n) ==
  /\ pcP = (IF n = 1 THEN "yield1" ELSE "yield2")
  /\ L("p", "yield.check_cancel")
  /\ IF bit
       THEN pcP' = "cancelled" /\ UNCHANGED <<pcK, slot>>
       ELSE /\ pcP' = (IF n = 1 THEN "wait1" ELSE "wait2")
            /\ pcK' = [pcK EXCEPT ![IF n = 1 THEN "k1" ELSE "k2"] = KStart(IF n = 1 THEN "k1" ELSE "k2")]
            \* the sleep's slot is created full (AtomicOption::some(co)); a park's slot is filled by store_co
            /\ slot' = IF n = 1 /\ Op1 = "sleep" THEN [slot EXCEPT !["A"] = TRUE] ELSE slot
  /\ UNCHANGED <<bit, reg, token, armed, pcW, pcX, res, kreg>>

\* somebody took the coroutine out of its slot and scheduled it: it runs again (silent: the user side of park.rs
\* after the yield is not part of this protocol, except that it consumes the token)
PResume ==
  /\ pcP \in {"wait1", "wait2"} /\ res # "none"
  \* (yield_back: a cancel bit seen right after the resumption raises the Cancel panic whatever the result says)
  /\ pcP' = IF res = "canceled" \/ bit THEN "cancelled"
            ELSE IF pcP = "wait1" THEN (IF Op1 = "park" THEN "post1" ELSE "yield2") ELSE "done"
  /\ res' = "none"
  /\ last' = <<"~", "resume", -1>>
  /\ UNCHANGED <<bit, reg, slot, token, armed, pcK, pcW, pcX, kreg>>

\* back in park_timeout after the yield: check_park() clears the token (some time after the resumption: the kernel
\* side's re-check may still see it)
PPost1 ==
  /\ pcP = "post1"
  /\ token' = FALSE /\ pcP' = "yield2"
  /\ last' = <<"~", "post1", -1>>
  /\ UNCHANGED <<bit, reg, slot, armed, pcK, pcW, pcX, res, kreg>>

\* the first park finds the token already set (check_park): it returns without yielding.  The user side of park.rs
\* has its own literal model (Park.tla); here it is one silent step
PSkip1 ==
  /\ Op1 = "park" /\ pcP = "yield1" /\ token
  /\ pcP' = "yield2" /\ token' = FALSE
  /\ last' = <<"~", "skip1", -1>>
  /\ UNCHANGED <<bit, reg, slot, armed, pcK, pcW, pcX, res, kreg>>

\* take the coroutine out of slot s (AtomicOption::take) and hand it result r
Take(s, r) ==
  IF slot[s] THEN slot' = [slot EXCEPT ![s] = FALSE] /\ res' = r
             ELSE UNCHANGED <<slot, res>>

-----------------------------------------------------------------------------
(* kernel sides *)
KGoto(k, to) == pcK' = [pcK EXCEPT ![k] = to]

SlAddTimer(k) ==
  /\ IsSleep(k) /\ pcK[k] = "slsub.add_timer" /\ L(k, "slsub.add_timer")
  /\ armed' = TRUE
  /\ KGoto(k, IF FixReg THEN "idle" ELSE "slsub.set_cancel_co")
  /\ UNCHANGED <<bit, reg, slot, token, pcP, pcW, pcX, res, kreg>>

SlSetCancelCo(k) ==
  /\ IsSleep(k) /\ pcK[k] = "slsub.set_cancel_co" /\ L(k, "slsub.set_cancel_co")
  /\ reg' = "A"
  /\ KGoto(k, "slsub.recheck_cancel")
  /\ UNCHANGED <<bit, slot, token, armed, pcP, pcW, pcX, res, kreg>>

\* `if cancel.is_canceled() { cancel.cancel() }`: cancel() runs inline on the kernel side (its hooks too)
SlRecheckCancel(k) ==
  /\ IsSleep(k) /\ pcK[k] = "slsub.recheck_cancel" /\ L(k, "slsub.recheck_cancel")
  /\ KGoto(k, IF bit THEN "cancel.set_bit" ELSE IF FixReg THEN "slsub.add_timer" ELSE "idle")
  /\ UNCHANGED <<bit, reg, slot, token, armed, pcP, pcW, pcX, res, kreg>>

PkAddTimer(k) ==   \* untimed park: nothing to arm
  /\ ~IsSleep(k) /\ pcK[k] = "psub.add_timer" /\ L(k, "psub.add_timer")
  /\ KGoto(k, IF FixReg THEN "psub.set_cancel_co" ELSE "psub.store_co")
  /\ UNCHANGED <<bit, reg, slot, token, armed, pcP, pcW, pcX, res, kreg>>

PkStoreCo(k) ==
  /\ ~IsSleep(k) /\ pcK[k] = "psub.store_co" /\ L(k, "psub.store_co")
  /\ slot' = [slot EXCEPT ![SlotOf(k)] = TRUE]
  /\ KGoto(k, "psub.recheck_state")
  /\ UNCHANGED <<bit, reg, token, armed, pcP, pcW, pcX, res, kreg>>

PkRecheckState(k) ==
  /\ ~IsSleep(k) /\ pcK[k] = "psub.recheck_state" /\ L(k, "psub.recheck_state")
  /\ KGoto(k, IF k = "k1" /\ token THEN "psub.fast_take" ELSE "psub.recheck_timeout")
  /\ UNCHANGED <<bit, reg, slot, token, armed, pcP, pcW, pcX, res, kreg>>

PkFastTake(k) ==
  /\ ~IsSleep(k) /\ pcK[k] = "psub.fast_take" /\ L(k, "psub.fast_take")
  /\ Take(SlotOf(k), "ok")
  /\ KGoto(k, "idle")
  /\ UNCHANGED <<bit, reg, token, armed, pcP, pcW, pcX, kreg>>

PkRecheckTimeout(k) ==
  /\ ~IsSleep(k) /\ pcK[k] = "psub.recheck_timeout" /\ L(k, "psub.recheck_timeout")
  /\ KGoto(k, IF FixReg THEN "psub.recheck_cancel" ELSE "psub.set_cancel_co")
  /\ UNCHANGED <<bit, reg, slot, token, armed, pcP, pcW, pcX, res, kreg>>

PkSetCancelCo(k) ==
  /\ ~IsSleep(k) /\ pcK[k] = "psub.set_cancel_co" /\ L(k, "psub.set_cancel_co")
  /\ reg' = SlotOf(k)
  /\ KGoto(k, IF FixReg THEN "psub.store_co" ELSE "psub.recheck_cancel")
  /\ UNCHANGED <<bit, slot, token, armed, pcP, pcW, pcX, res, kreg>>

\* pinned: cancel.cancel() inline; repaired: take the coroutine out of this Park's own slot
PkRecheckCancel(k) ==
  /\ ~IsSleep(k) /\ pcK[k] = "psub.recheck_cancel" /\ L(k, "psub.recheck_cancel")
  /\ IF FixReg
       THEN /\ (IF bit THEN Take(SlotOf(k), "canceled") ELSE UNCHANGED <<slot, res>>)
            /\ KGoto(k, "idle")
       ELSE /\ KGoto(k, IF bit THEN "cancel.set_bit" ELSE "idle")
            /\ UNCHANGED <<slot, res>>
  /\ UNCHANGED <<bit, reg, token, armed, pcP, pcW, pcX, kreg>>

-----------------------------------------------------------------------------
(* CancelImpl::cancel(), by the canceller "x" or inline by a kernel side *)
PcOf(a) == IF a = "x" THEN pcX ELSE pcK[a]
CGoto(a, to) == IF a = "x" THEN pcX' = to /\ UNCHANGED pcK ELSE KGoto(a, to) /\ UNCHANGED pcX
\* where a kernel side goes on after its inline cancel()
AfterInline(a) == IF IsSleep(a) /\ FixReg THEN "slsub.add_timer" ELSE "idle"

CSetBit(a) ==
  /\ PcOf(a) = "cancel.set_bit" /\ L(a, "cancel.set_bit")
  /\ bit' = TRUE
  /\ CGoto(a, "cancel.take_slot")
  /\ UNCHANGED <<reg, slot, token, armed, pcP, pcW, res, kreg>>

CTakeSlot(a) ==
  /\ PcOf(a) = "cancel.take_slot" /\ L(a, "cancel.take_slot")
  /\ kreg' = [kreg EXCEPT ![a] = reg] /\ reg' = "none"
  /\ CGoto(a, IF reg = "none" THEN (IF a = "x" THEN "done" ELSE AfterInline(a)) ELSE "cancel.take_co")
  /\ UNCHANGED <<bit, slot, token, armed, pcP, pcW, res>>

CTakeCo(a) ==
  /\ PcOf(a) = "cancel.take_co" /\ L(a, "cancel.take_co")
  /\ Take(kreg[a], "canceled")
  /\ CGoto(a, IF a = "x" THEN "done" ELSE AfterInline(a))
  /\ UNCHANGED <<bit, reg, token, armed, pcP, pcW, kreg>>

-----------------------------------------------------------------------------
(* the waker of the first call *)
WTimer ==      \* the timer thread's handler: take the coroutine out of the entry's slot
  /\ Op1 = "sleep" /\ pcW = "timer.take" /\ armed /\ L("w", "timer.take")
  /\ Take("A", "ok")
  /\ pcW' = "done" /\ armed' = FALSE
  /\ UNCHANGED <<bit, reg, token, pcP, pcK, pcX, kreg>>

\* the timer thread handles an entry left behind by an earlier sleep (its slot is empty): nothing happens
WStale ==
  /\ Op1 = "sleep" /\ ~armed /\ L("w", "timer.take")
  /\ UNCHANGED <<bit, reg, slot, token, armed, pcP, pcK, pcW, pcX, res, kreg>>

WSwap ==
  /\ Op1 = "park" /\ pcW = "unpark.swap" /\ L("w", "unpark.swap")
  /\ token' = TRUE
  /\ pcW' = (IF token THEN "done" ELSE "unpark.take")
  /\ UNCHANGED <<bit, reg, slot, armed, pcP, pcK, pcX, res, kreg>>

WTake ==
  /\ Op1 = "park" /\ pcW = "unpark.take" /\ L("w", "unpark.take")
  /\ Take("A", "ok")
  /\ pcW' = "done"
  /\ UNCHANGED <<bit, reg, token, armed, pcP, pcK, pcX, kreg>>

-----------------------------------------------------------------------------
KNext(k) ==
  \/ SlAddTimer(k) \/ SlSetCancelCo(k) \/ SlRecheckCancel(k)
  \/ PkAddTimer(k) \/ PkStoreCo(k) \/ PkRecheckState(k) \/ PkFastTake(k) \/ PkRecheckTimeout(k)
  \/ PkSetCancelCo(k) \/ PkRecheckCancel(k)

Done == /\ pcP \in {"cancelled", "done", "wait1", "wait2"} /\ res = "none"
        /\ \A k \in KS : pcK[k] = "idle"
        /\ pcX = "done"
        /\ (pcW = "done" \/ (Op1 = "sleep" /\ ~armed) \/ pcP = "cancelled")

Next ==
  \/ PYield(1) \/ PYield(2) \/ PResume \/ PSkip1 \/ PPost1
  \/ \E k \in KS : KNext(k)
  \/ \E a \in KS \cup {"x"} : CSetBit(a) \/ CTakeSlot(a) \/ CTakeCo(a)
  \/ WTimer \/ WSwap \/ WTake \/ WStale
  \/ (Done /\ UNCHANGED vars)

Spec == Init /\ [][Next]_vars

\* the resumption (silent) belongs to the step that caused it
Urgent == ENABLED PResume
NextU == IF Urgent THEN PResume ELSE Next
SpecU == Init /\ [][NextU]_vars

-----------------------------------------------------------------------------
(* Properties *)
TypeOK ==
  /\ bit \in BOOLEAN /\ reg \in {"none", "A", "B"} /\ slot \in [Slots -> BOOLEAN] /\ token \in BOOLEAN /\ armed \in BOOLEAN
  /\ res \in {"none", "ok", "canceled"}

\* the coroutine is in a slot only while it is suspended in the call that slot belongs to, and never handed two results
SlotImpliesSuspended ==
  /\ slot["A"] => pcP = "wait1"
  /\ slot["B"] => pcP = "wait2"
  /\ (res # "none") => (pcP \in {"wait1", "wait2"} /\ ~slot["A"] /\ ~slot["B"])

\* C09: the cancel has been issued and everybody is done: the coroutine has stopped with Cancel
\* (nobody ever unparks Blocker B: the only legitimate way out of the second call is the cancel)
NoLostCancel == Done => pcP = "cancelled"

\* a coroutine that is not cancelled never observes a cancellation
NoFalseCancel == (res = "canceled") => bit
=============================================================================
