SPECIFICATION TVSpec
CONSTANTS
  Unparkers = {"u1", "u2"}
  Rounds = 2
  Dur <- DurFn
  MaxNow = 6
  WithCancel = TRUE
  CheckCancel = TRUE
  Recheck = TRUE
  Fix6 = TRUE
  FixReg = TRUE
CONSTRAINT TVProgress
POSTCONDITION TVAccepted
CHECK_DEADLOCK FALSE
