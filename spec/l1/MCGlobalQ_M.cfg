SPECIFICATION Spec
CONSTANTS
  Pushers = {"p1", "p2", "p3"}
  ReadThenCollect = FALSE
  RecollectWhenEmpty = FALSE
INVARIANTS NoStranded RunOnce
CHECK_DEADLOCK TRUE
