SPECIFICATION MCSpec
CONSTANTS
  Op1 = "sleep"
  FixReg = TRUE
INVARIANTS TypeOK SlotImpliesSuspended NoLostCancel NoFalseCancel
CHECK_DEADLOCK TRUE
