---- MODULE MCTimer ----
EXTENDS Timer
I1 == [a \in {"x", "y", "z"} |-> IF a = "z" THEN 2 ELSE 1]
I2 == [a \in {"x", "y", "z"} |-> 1]
====
