------------------------------- MODULE MCReuse -------------------------------
(* Model-checking / behaviour-export wrapper of Reuse.tla (conventions: see l2/MCMutex.tla). *)
EXTENDS Reuse
VARIABLE last
MCInit == Init /\ last = <<"", "", -1>>
MCNext ==
  \/ \E a \in Actors : Step(a) /\ last' = <<a, pc[a], -1>>
  \/ \E a \in Actors : Internal(a) /\ last' = <<"~", a, -1>>
  \/ Tick /\ last' = <<"!tick", "", -1>>
  \/ Terminal /\ UNCHANGED last
MCSpec == MCInit /\ [][MCNext]_<<vars, last>>
MCNextU ==
  IF \E a \in Actors : pc[a] \in InternalPcs \/ (a = "d" /\ pc[a] \in {"drain", "join_wait"} /\ (ev \/ ended["c1"] # "no"))
                         \/ (a = "d" /\ pc[a] = "join2" /\ ended["c2"] # "no")
    THEN \E a \in Actors : Internal(a) /\ last' = <<"~", a, -1>>
    ELSE \/ \E a \in Actors : Step(a) /\ last' = <<a, pc[a], -1>>
         \/ Tick /\ last' = <<"!tick", "", -1>>
         \/ Terminal /\ UNCHANGED last
MCSpecU == MCInit /\ [][MCNextU]_<<vars, last>>
View == vars
=============================================================================
