\* F6: NoLostTimeout is violated on the code as written (17 steps)
SPECIFICATION Spec
CONSTANTS
  Unparkers = {u1, u2}
  Rounds = 2
  Dur <- DurFn
  MaxNow = 2
  WithCancel = TRUE
  CheckCancel = TRUE
  Recheck = TRUE
  Fix6 = FALSE
  FixReg = TRUE
INVARIANTS NoLostTimeout
CHECK_DEADLOCK FALSE
