SPECIFICATION TVSpec
CONSTANTS
  Kind = "tpark_timeout"
  Fix14 = TRUE
CONSTRAINT TVProgress
POSTCONDITION TVAccepted
CHECK_DEADLOCK FALSE
