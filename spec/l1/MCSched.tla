---- MODULE MCSched ----
EXTENDS Sched
PG == [c \in {"c1", "c2", "c3"} |-> IF c = "c1" THEN <<"yield", "park">> ELSE IF c = "c2" THEN <<"yield">> ELSE <<>>]
====
