SPECIFICATION Spec
CONSTANTS
  Pushers = {"p1", "p2", "p3"}
  ReadThenCollect = FALSE
  RecollectWhenEmpty = TRUE
INVARIANTS NoStranded RunOnce
CHECK_DEADLOCK TRUE
