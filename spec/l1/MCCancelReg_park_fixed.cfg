SPECIFICATION MCSpec
CONSTANTS
  Op1 = "park"
  FixReg = TRUE
INVARIANTS TypeOK SlotImpliesSuspended NoLostCancel NoFalseCancel
CHECK_DEADLOCK TRUE
