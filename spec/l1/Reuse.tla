------------------------------- MODULE Reuse -------------------------------
(* C15 (and the "later spawns on a reused stack" part of C13): what survives in a pooled generator
   from one occupant to the next.

   The generator has ONE parameter slot (`para`, src/yield_now.rs set_co_para / get_co_para) through
   which the timer thread (scheduler.rs:57, "TimedOut") and the canceller (cancel.rs:145 and the
   short-cut of yield_with, yield_now.rs:28, "Canceled") hand a result to the coroutine they resume.
   Nothing resets it when the generator is recycled (pool.rs / Generator::init_code), and a plain
   resume() leaves it alone, so every producer must be matched by a consumer before the coroutine
   ends:
     park_timeout (park.rs:180), sleep (sleep.rs:49), fast_blocking (:45), io (unix/mod.rs:64),
     check_cancel before it panics (cancel.rs:115)
   and, since the repair of F14, the two yield_back implementations that swallow a cancellation
   (cqueue.rs EventSender, io/sys/unix/wait_io.rs RawIoBlock).

   Actors: "d" the orchestrating thread, "c1" the first occupant of the stack (constant Kind says
   how it ends), "c2" the innocent coroutine that gets the stack afterwards, really blocks in
   Blocker::park(None) and is woken by a plain unpark.  pc values containing a dot are hook sites
   gated in the `reuse` scenario of the harness (ru.* are scenario points; cq.send.check,
   cq.send.yield and cq.drop.cancel are may's own points); the others are internal steps.

   Fix14 = FALSE is the pinned tree (stale "Canceled" inherited by c2: F14), TRUE the repaired one. *)
EXTENDS Integers, Sequences, TLC
CONSTANTS Kind,    \* "normal" | "panic" | "park_cancel" | "sleep_cancel" | "tpark_timeout" | "select_cancel" | "dropyield_cancel" | "sleep_dropyield_cancel"
          Fix14
VARIABLES pc, para, cbit, slot, timer, tok2, res2, ended, ev, res1
vars == <<pc, para, cbit, slot, timer, tok2, res2, ended, ev, res1>>
Cos == {"c1", "c2"}
Actors == {"d", "c1", "c2"}
Cancels == Kind \in {"park_cancel", "sleep_cancel", "dropyield_cancel", "sleep_dropyield_cancel"}
\* the occupant owns a guard whose destructor calls yield_now()
DropYield == Kind \in {"dropyield_cancel", "sleep_dropyield_cancel"}
Timed == Kind \in {"tpark_timeout"}

Init ==
  /\ pc = [a \in Actors |-> CASE a = "d" -> (IF Kind = "select_cancel" THEN "ru.leave" ELSE IF Cancels THEN "ru.cancel" ELSE "ru.join")
                              [] a = "c1" -> (CASE Kind \in {"normal", "panic"} -> "run"
                                               [] Kind = "select_cancel" -> "cq.send.check"
                                               [] OTHER -> "ru.block")
                              [] OTHER -> "unborn"]
  /\ para = "none" /\ cbit = [c \in Cos |-> FALSE] /\ slot = [c \in Cos |-> FALSE]
  /\ timer = FALSE /\ tok2 = FALSE /\ res2 = "none" /\ res1 = "none"
  /\ ended = [c \in Cos |-> "no"] /\ ev = FALSE

Goto(a, l) == pc' = [pc EXCEPT ![a] = l]
Goto2(a, l, b, m) == pc' = [pc EXCEPT ![a] = l, ![b] = m]

(* ------------------------------ first occupant ------------------------------ *)
\* a coroutine without blocking calls
C1Run ==
  /\ pc["c1"] = "run"
  /\ ended' = [ended EXCEPT !["c1"] = IF Kind = "panic" THEN "panic" ELSE "ret"]
  /\ Goto("c1", "done") /\ UNCHANGED <<para, cbit, slot, timer, tok2, res2, ev, res1>>

\* park(None) / sleep(1h) / park(10ms): yield_with
C1Block ==
  /\ pc["c1"] = "ru.block" /\ Kind # "dropyield_cancel"
  /\ IF cbit["c1"]
       THEN para' = "Canceled" /\ Goto("c1", "yb")          \* short-cut of yield_with
       ELSE para' = para /\ Goto("c1", "sub_store")
  /\ UNCHANGED <<cbit, slot, timer, tok2, res2, ended, ev, res1>>
\* subscribe, on the worker's stack: arm the timer, publish the coroutine ...
C1SubStore ==
  /\ pc["c1"] = "sub_store"
  /\ slot' = [slot EXCEPT !["c1"] = TRUE] /\ timer' = Timed
  /\ Goto("c1", "sub_recheck") /\ UNCHANGED <<para, cbit, tok2, res2, ended, ev, res1>>
\* ... register with Cancel and look at the bit again
C1SubRecheck ==
  /\ pc["c1"] = "sub_recheck"
  /\ IF cbit["c1"]           \* cancel() on itself: the slot still holds it (whoever empties the slot moves this pc)
       THEN slot' = [slot EXCEPT !["c1"] = FALSE] /\ para' = "Canceled" /\ Goto("c1", "yb")
       ELSE UNCHANGED <<slot, para>> /\ Goto("c1", "blocked")
  /\ UNCHANGED <<cbit, timer, tok2, res2, ended, ev, res1>>
\* yield_back of Park (check_cancel = true) and of Sleep: Cancel::check_cancel
C1YieldBack ==
  /\ pc["c1"] = "yb"
  /\ IF cbit["c1"]
       THEN /\ para' = "none"
            /\ IF DropYield THEN UNCHANGED ended /\ Goto("c1", "unw_yield")     \* the Cancel panic unwinds through the guard
                            ELSE ended' = [ended EXCEPT !["c1"] = "cancel"] /\ Goto("c1", "done")
       ELSE UNCHANGED <<para, ended>> /\ Goto("c1", "epi")
  /\ UNCHANGED <<cbit, slot, timer, tok2, res2, ev, res1>>
\* the epilogue of park_timeout / sleep consumes the result
C1Epilogue ==
  /\ pc["c1"] = "epi"
  /\ res1' = (IF para = "none" THEN "Ok" ELSE para) /\ para' = "none"
  /\ ended' = [ended EXCEPT !["c1"] = "ret"] /\ Goto("c1", "done")
  /\ UNCHANGED <<cbit, slot, timer, tok2, res2, ev>>

\* The occupant owns a guard whose destructor calls yield_now() (as Park::drop does while `wait_kernel` is set) and
\* its stack unwinds - Kind = "dropyield_cancel": it panics by itself, a cancel may be pending;
\* Kind = "sleep_dropyield_cancel": it is cancelled in a sleep, the Cancel panic unwinds it.  With the cancel bit set
\* yield_with takes its short-cut - it writes "Canceled" into the slot - and yield_back's check_cancel must consume it
\* although it cannot raise the Cancel panic (the stack is unwinding already).  Both paths were missing from the
\* model; found by the seeded changes C13-3 / C15-3.
C1PanicDropYield ==
  /\ pc["c1"] = "ru.block" /\ Kind = "dropyield_cancel"
  /\ Goto("c1", "unw_yield")
  /\ UNCHANGED <<para, cbit, slot, timer, tok2, res2, ended, ev, res1>>
C1UnwindYield ==
  /\ pc["c1"] = "unw_yield"
  /\ para' = (IF cbit["c1"] THEN "Canceled" ELSE para)
  /\ Goto("c1", "yb_unw")
  /\ UNCHANGED <<cbit, slot, timer, tok2, res2, ended, ev, res1>>
C1UnwindBack ==
  /\ pc["c1"] = "yb_unw"
  /\ para' = (IF cbit["c1"] THEN "none" ELSE para)     \* check_cancel: get_co_para() before the (suppressed) panic
  /\ ended' = [ended EXCEPT !["c1"] = IF Kind = "dropyield_cancel" THEN "panic" ELSE "cancel"] /\ Goto("c1", "done")
  /\ UNCHANGED <<cbit, slot, timer, tok2, res2, ev, res1>>

\* a select arm: EventSender::send
C1SendCheck ==
  /\ pc["c1"] = "cq.send.check"
  /\ IF cbit["c1"]
       THEN para' = "none" /\ ended' = [ended EXCEPT !["c1"] = "cancel"] /\ Goto("c1", "done")
       ELSE UNCHANGED <<para, ended>> /\ Goto("c1", "cq.send.yield")
  /\ UNCHANGED <<cbit, slot, timer, tok2, res2, ev, res1>>
C1SendYield ==
  /\ pc["c1"] = "cq.send.yield"
  /\ IF cbit["c1"]
       THEN para' = "Canceled" /\ ev' = ev /\ Goto("c1", "yb_es")
       ELSE para' = para /\ ev' = TRUE /\ Goto("c1", "blocked_es")     \* subscribe pushes the event with the coroutine in it
  /\ UNCHANGED <<cbit, slot, timer, tok2, res2, ended, res1>>
\* EventSender::yield_back ignores the cancellation ...
C1SendBack ==
  /\ pc["c1"] = "yb_es"
  /\ para' = (IF Fix14 THEN "none" ELSE para)         \* ... and (repaired) drops its result
  /\ ended' = [ended EXCEPT !["c1"] = "ret"] /\ Goto("c1", "done")
  /\ UNCHANGED <<cbit, slot, timer, tok2, res2, ev, res1>>

(* ------------------------------ environment ------------------------------ *)
Tick ==
  /\ timer /\ timer' = FALSE
  /\ IF slot["c1"]
       THEN slot' = [slot EXCEPT !["c1"] = FALSE] /\ para' = "Timeout" /\ Goto("c1", "yb")
       ELSE UNCHANGED <<slot, para, pc>>
  /\ UNCHANGED <<cbit, tok2, res2, ended, ev, res1>>

(* ------------------------------ the orchestrating thread ------------------------------ *)
\* Coroutine::cancel: set the bit, then steal the suspended coroutine
DCancel ==
  /\ pc["d"] = "ru.cancel"
  /\ cbit' = [cbit EXCEPT !["c1"] = TRUE]
  /\ Goto("d", "cancel_take") /\ UNCHANGED <<para, slot, timer, tok2, res2, ended, ev, res1>>
DCancelTake ==
  /\ pc["d"] = "cancel_take"
  /\ IF slot["c1"]
       THEN slot' = [slot EXCEPT !["c1"] = FALSE] /\ para' = "Canceled" /\ Goto2("d", "ru.join", "c1", "yb")
       ELSE UNCHANGED <<slot, para>> /\ Goto("d", "ru.join")
  /\ UNCHANGED <<cbit, timer, tok2, res2, ended, ev, res1>>
\* leaving cqueue::scope: Cqueue::drop cancels every arm (the arm sits in no cancel slot) ...
DLeave ==
  /\ pc["d"] = "ru.leave" /\ Goto("d", "cq.drop.cancel")
  /\ UNCHANGED <<para, cbit, slot, timer, tok2, res2, ended, ev, res1>>
DDropCancel ==
  /\ pc["d"] = "cq.drop.cancel"
  /\ cbit' = [cbit EXCEPT !["c1"] = TRUE]
  /\ Goto("d", "drain") /\ UNCHANGED <<para, slot, timer, tok2, res2, ended, ev, res1>>
\* ... and polls until the arm is done; an event that still carries the arm resumes it
DDrainEvent ==
  /\ pc["d"] = "drain" /\ ev /\ ev' = FALSE
  /\ Goto("c1", "yb_es") /\ UNCHANGED <<para, cbit, slot, timer, tok2, res2, ended, res1>>
\* the hook ru.join sits in front of join(): passing it starts the wait
DJoinPt ==
  /\ pc["d"] = "ru.join" /\ Goto("d", "join_wait")
  /\ UNCHANGED <<para, cbit, slot, timer, tok2, res2, ended, ev, res1>>
DJoin ==
  /\ pc["d"] \in {"join_wait", "drain"} /\ ended["c1"] # "no" /\ ~ev
  /\ pc["c1"] = "done"
  \* spawn of the innocent coroutine: a fresh Cancel and fresh local storage; the generator is the pooled one
  /\ Goto2("d", "ru.unpark", "c2", "start") /\ UNCHANGED <<para, cbit, slot, timer, tok2, res2, ended, ev, res1>>
DUnpark ==
  /\ pc["d"] = "ru.unpark"
  /\ tok2' = TRUE
  /\ Goto("d", IF tok2 THEN "join2" ELSE "unpark_take") /\ UNCHANGED <<para, cbit, slot, timer, res2, ended, ev, res1>>
DUnparkTake ==
  /\ pc["d"] = "unpark_take"
  /\ IF slot["c2"]
       THEN slot' = [slot EXCEPT !["c2"] = FALSE] /\ Goto2("d", "join2", "c2", "epi2")
       ELSE slot' = slot /\ Goto("d", "join2")
  /\ UNCHANGED <<para, cbit, timer, tok2, res2, ended, ev, res1>>
DFinish ==
  /\ pc["d"] = "join2" /\ ended["c2"] # "no" /\ Goto("d", "done")
  /\ UNCHANGED <<para, cbit, slot, timer, tok2, res2, ended, ev, res1>>

(* ------------------------------ the innocent coroutine ------------------------------ *)
C2Start ==
  /\ pc["c2"] = "start" /\ Goto("c2", "ru.ipark")
  /\ UNCHANGED <<para, cbit, slot, timer, tok2, res2, ended, ev, res1>>
\* Blocker::park(None): check_park, then yield_with
C2Park ==
  /\ pc["c2"] = "ru.ipark"
  /\ IF tok2
       THEN tok2' = FALSE /\ res2' = "Ok" /\ ended' = [ended EXCEPT !["c2"] = "ret"] /\ Goto("c2", "done")
       ELSE UNCHANGED <<tok2, res2, ended>> /\ Goto("c2", "sub2_store")
  /\ UNCHANGED <<para, cbit, slot, timer, ev, res1>>
C2SubStore ==
  /\ pc["c2"] = "sub2_store"
  /\ slot' = [slot EXCEPT !["c2"] = TRUE]
  /\ Goto("c2", "sub2_recheck") /\ UNCHANGED <<para, cbit, timer, tok2, res2, ended, ev, res1>>
C2SubRecheck ==
  /\ pc["c2"] = "sub2_recheck"
  /\ IF tok2
       THEN slot' = [slot EXCEPT !["c2"] = FALSE] /\ Goto("c2", "epi2")      \* fast_wake_up
       ELSE slot' = slot /\ Goto("c2", "blocked")
  /\ UNCHANGED <<para, cbit, timer, tok2, res2, ended, ev, res1>>
C2Epilogue ==
  /\ pc["c2"] = "epi2"
  /\ tok2' = FALSE
  /\ res2' = (IF para = "none" THEN "Ok" ELSE para) /\ para' = "none"
  /\ ended' = [ended EXCEPT !["c2"] = "ret"] /\ Goto("c2", "done")
  /\ UNCHANGED <<cbit, slot, timer, ev, res1>>

Step(a) ==
  CASE a = "d" -> DCancel \/ DLeave \/ DDropCancel \/ DUnpark \/ DJoinPt
    [] a = "c1" -> C1Block \/ C1PanicDropYield \/ C1SendCheck \/ C1SendYield
    [] OTHER -> C2Park
Internal(a) ==
  CASE a = "d" -> DCancelTake \/ DDrainEvent \/ DJoin \/ DUnparkTake \/ DFinish
    [] a = "c1" -> C1Run \/ C1SubStore \/ C1SubRecheck \/ C1YieldBack \/ C1Epilogue \/ C1SendBack \/ C1UnwindYield \/ C1UnwindBack
    [] OTHER -> C2Start \/ C2SubStore \/ C2SubRecheck \/ C2Epilogue
InternalPcs == {"run", "sub_store", "sub_recheck", "yb", "unw_yield", "yb_unw", "epi", "yb_es", "cancel_take", "unpark_take", "start",
                "sub2_store", "sub2_recheck", "epi2"}
Terminal == pc["d"] = "done" /\ UNCHANGED vars
Next == (\E a \in Actors : Step(a) \/ Internal(a)) \/ Tick \/ Terminal
Spec == Init /\ [][Next]_vars

(* ------------------------------ properties ------------------------------ *)
\* a fresh coroutine starts with an empty result slot
StartsClean == pc["c2"] = "start" => para = "none"
\* the innocent coroutine, never cancelled and without a time-out, observes neither
NoGhostResult == res2 \in {"none", "Ok"}
\* the first occupant's own result is the true one
TrueResult ==
  /\ res1 = "Timeout" => Timed
  /\ res1 # "Canceled"              \* park_cancel / sleep_cancel end in the Cancel panic, not in a result
  /\ (ended["c1"] = "cancel" => (Cancels \/ Kind = "select_cancel"))
\* nobody is resumed twice / lost: whoever is blocked is in a slot or an event
Accounted ==
  /\ pc["c1"] = "blocked" => slot["c1"]
  /\ pc["c1"] = "blocked_es" => ev
  /\ pc["c2"] = "blocked" => slot["c2"]
=============================================================================
