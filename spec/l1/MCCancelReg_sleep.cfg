SPECIFICATION MCSpec
CONSTANTS
  Op1 = "sleep"
  FixReg = FALSE
INVARIANTS TypeOK SlotImpliesSuspended NoLostCancel NoFalseCancel
CHECK_DEADLOCK TRUE
