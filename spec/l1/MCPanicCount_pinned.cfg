SPECIFICATION Spec
CONSTANTS
  Migrate = FALSE
INVARIANTS Contained CountersSound
CHECK_DEADLOCK TRUE
