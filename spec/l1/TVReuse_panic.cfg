SPECIFICATION TVSpec
CONSTANTS
  Kind = "panic"
  Fix14 = TRUE
CONSTRAINT TVProgress
POSTCONDITION TVAccepted
CHECK_DEADLOCK FALSE
