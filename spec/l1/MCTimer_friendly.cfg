\* friendly time: promptness
INIT Init
NEXT Next
CONSTANTS
  Adds = {"x", "y", "z"}
  IntervalOf <- I1
  Dels = {"x"}
  MaxNow = 3
  AdversarialTime = FALSE
INVARIANTS NoEarlyFire FiredOnce FiredXorRemoved HeapCoversLists HeapTimeTight Prompt
CHECK_DEADLOCK FALSE
