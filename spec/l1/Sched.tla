--------------------------------- MODULE Sched ---------------------------------
(* The scheduler at the level C01 talks about: where each coroutine is.
   src/scheduler.rs (schedule_global / collect_global / run_queued_tasks / steal_into),
   coroutine_impl.rs run_coroutine (resume -> Some(subscriber) | None), yield_now.rs.
   Queues are the L0 contracts (FIFO global mpsc; owner-ordered local spmc whose steal takes a
   batch, returns the newest and re-queues the rest).  This module doubles as the abstract
   trace spec for the two always-on hooks co.resume / co.suspend|co.done. *)
EXTENDS Naturals, FiniteSets, Sequences, TLC
CONSTANTS Cors, Workers, Prog,       \* Prog[c]: sequence over {"yield", "park"}; then it finishes
          StealDuplicates            \* FALSE = as written; TRUE = mutant: the returned task is also re-queued
VARIABLES globalQ, localQ, running,  \* running[w] \in Cors \cup {"none"}
          kernel,                    \* kernel[w]: <<c, kind>> the coroutine w has switched off and is subscribing
          slot, done, born, ip, bodyRuns, unparkOwed
vars == <<globalQ, localQ, running, kernel, slot, done, born, ip, bodyRuns, unparkOwed>>
None == "none"
Init == /\ globalQ = [w \in Workers |-> <<>>] /\ localQ = [w \in Workers |-> <<>>]
        /\ running = [w \in Workers |-> None] /\ kernel = [w \in Workers |-> <<>>]
        /\ slot = {} /\ done = {} /\ born = {} /\ ip = [c \in Cors |-> 1]
        /\ bodyRuns = [c \in Cors |-> 0] /\ unparkOwed = {}
Idle(w) == running[w] = None /\ kernel[w] = <<>>
Spawn(c) == /\ c \notin born /\ born' = born \cup {c}
            /\ \E w \in Workers : globalQ' = [globalQ EXCEPT ![w] = Append(@, c)]
            /\ UNCHANGED <<localQ, running, kernel, slot, done, ip, bodyRuns, unparkOwed>>
Collect(w) == /\ Idle(w) /\ globalQ[w] # <<>>
              /\ localQ' = [localQ EXCEPT ![w] = @ \o globalQ[w]] /\ globalQ' = [globalQ EXCEPT ![w] = <<>>]
              /\ UNCHANGED <<running, kernel, slot, done, born, ip, bodyRuns, unparkOwed>>
LocalPop(w) == /\ Idle(w) /\ localQ[w] # <<>>
               /\ running' = [running EXCEPT ![w] = Head(localQ[w])] /\ localQ' = [localQ EXCEPT ![w] = Tail(@)]
               /\ UNCHANGED <<globalQ, kernel, slot, done, born, ip, bodyRuns, unparkOwed>>
Steal(w, v) ==
  /\ Idle(w) /\ w # v /\ localQ[w] = <<>> /\ globalQ[w] = <<>> /\ localQ[v] # <<>>
  /\ \E k \in 1..Len(localQ[v]) :
       LET batch == SubSeq(localQ[v], 1, k) IN
       /\ running' = [running EXCEPT ![w] = batch[k]]
       /\ localQ' = [localQ EXCEPT ![v] = SubSeq(@, k + 1, Len(@)),
                                   ![w] = IF StealDuplicates THEN batch ELSE SubSeq(batch, 1, k - 1)]
  /\ UNCHANGED <<globalQ, kernel, slot, done, born, ip, bodyRuns, unparkOwed>>
(* the running coroutine executes its next operation *)
Step(w) ==
  /\ running[w] # None
  /\ LET c == running[w] IN
     IF ip[c] > Len(Prog[c])
       THEN /\ done' = done \cup {c} /\ bodyRuns' = [bodyRuns EXCEPT ![c] = @ + 1]
            /\ running' = [running EXCEPT ![w] = None] /\ UNCHANGED <<kernel, ip>>
       ELSE /\ kernel' = [kernel EXCEPT ![w] = <<c, Prog[c][ip[c]]>>]      \* switch off the stack first
            /\ running' = [running EXCEPT ![w] = None] /\ ip' = [ip EXCEPT ![c] = @ + 1]
            /\ UNCHANGED <<done, bodyRuns>>
  /\ UNCHANGED <<globalQ, localQ, slot, born, unparkOwed>>
(* ... and only then the worker publishes it (subscribe) *)
Subscribe(w) ==
  /\ kernel[w] # <<>>
  /\ LET c == kernel[w][1]  kind == kernel[w][2] IN
     IF kind = "yield"
       THEN localQ' = [localQ EXCEPT ![w] = Append(@, c)] /\ UNCHANGED <<slot, unparkOwed>>
       ELSE IF c \in unparkOwed                       \* token already there: fast wake-up (re-queue)
              THEN localQ' = [localQ EXCEPT ![w] = Append(@, c)] /\ unparkOwed' = unparkOwed \ {c} /\ UNCHANGED slot
              ELSE slot' = slot \cup {c} /\ UNCHANGED <<localQ, unparkOwed>>
  /\ kernel' = [kernel EXCEPT ![w] = <<>>]
  /\ UNCHANGED <<globalQ, running, done, born, ip, bodyRuns>>
Unpark(c) ==      \* by a thread: schedule_global; one unpark per park in this scenario
  /\ c \in born /\ c \notin done /\ c \notin unparkOwed
  /\ \E k \in DOMAIN Prog[c] : Prog[c][k] = "park"
  /\ IF c \in slot
       THEN /\ slot' = slot \ {c} /\ \E w \in Workers : globalQ' = [globalQ EXCEPT ![w] = Append(@, c)]
            /\ UNCHANGED unparkOwed
       ELSE unparkOwed' = unparkOwed \cup {c} /\ UNCHANGED <<slot, globalQ>>
  /\ UNCHANGED <<localQ, running, kernel, done, born, ip, bodyRuns>>
Next == \/ \E c \in Cors : Spawn(c) \/ Unpark(c)
        \/ \E w \in Workers : Collect(w) \/ LocalPop(w) \/ Step(w) \/ Subscribe(w) \/ (\E v \in Workers : Steal(w, v))
Spec == Init /\ [][Next]_vars
-----------------------------------------------------------------------------
PlaceSet(c) ==
  UNION {{<<w, "g", i>> : i \in {i \in DOMAIN globalQ[w] : globalQ[w][i] = c}} : w \in Workers}
  \cup UNION {{<<w, "l", i>> : i \in {i \in DOMAIN localQ[w] : localQ[w][i] = c}} : w \in Workers}
  \cup {<<w, "r", 0>> : w \in {w \in Workers : running[w] = c}}
  \cup {<<w, "k", 0>> : w \in {w \in Workers : kernel[w] # <<>> /\ kernel[w][1] = c}}
  \cup (IF c \in slot THEN {<<"-", "s", 0>>} ELSE {})
Places(c) == Cardinality(PlaceSet(c))
NoDropNoDup      == \A c \in born \ done : Places(c) = 1
DoneIsNowhere    == \A c \in done : Places(c) = 0
RunOnce          == \A c \in Cors : bodyRuns[c] <= 1 /\ (c \in done => bodyRuns[c] = 1)
SingleResidency  == \A c \in Cors : Cardinality({w \in Workers : running[w] = c}) <= 1
=============================================================================
