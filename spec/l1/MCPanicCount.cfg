SPECIFICATION Spec
CONSTANTS
  Migrate = TRUE
INVARIANTS Contained
CHECK_DEADLOCK TRUE
