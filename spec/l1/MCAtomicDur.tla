---------------------------- MODULE MCAtomicDur ----------------------------
(* TLC wrapper of AtomicDur.tla: boundary durations around every millisecond step (the unbounded claim
   is discharged by Apalache: apalache-mc check --cinit=CInitT --inv=NotEarly --length=0 AtomicDur.tla). *)
EXTENDS AtomicDur
Samples == {k * MS + j : k \in 0..6, j \in {0, 1, 2, 499999, 500000, MS - 2, MS - 1}} \cup {2000 * MS, 2000 * MS + 1}
MCInit == d \in Samples
MCSpec == MCInit /\ [][Next]_d
NeverEarly == NotEarly
AlwaysArmed == TimeoutExists
=============================================================================
