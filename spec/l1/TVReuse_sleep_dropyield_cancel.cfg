SPECIFICATION TVSpec
CONSTANTS
  Kind = "sleep_dropyield_cancel"
  Fix14 = TRUE
CONSTRAINT TVProgress
POSTCONDITION TVAccepted
CHECK_DEADLOCK FALSE
