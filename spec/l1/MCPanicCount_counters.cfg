SPECIFICATION Spec
CONSTANTS
  Migrate = TRUE
INVARIANTS CountersSound
CHECK_DEADLOCK TRUE
