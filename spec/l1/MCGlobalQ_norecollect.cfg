SPECIFICATION Spec
CONSTANTS
  Pushers = {"p1", "p2", "p3"}
  ReadThenCollect = TRUE
  RecollectWhenEmpty = FALSE
INVARIANTS NoStranded RunOnce
CHECK_DEADLOCK TRUE
