SPECIFICATION Spec
CONSTANTS
  Unparkers = {u1, u2}
  Rounds = 2
  Dur <- DurFn
  MaxNow = 2
  WithCancel = TRUE
  CheckCancel = TRUE
  Recheck = TRUE
  Fix6 = TRUE
  FixReg = TRUE
INVARIANTS SlotImpliesSuspended ResumeOnce NoLostWake TokenHasTaker TimeoutSound CanceledSound NoLostTimeout
CHECK_DEADLOCK FALSE
