------------------------------- MODULE Park -------------------------------
(* DRAFT (round 0, design stage).  Literal model of src/park.rs + the pieces of
   yield_now.rs / cancel.rs / scheduler.rs (timer handler) that touch a Park.
   One action per shared-memory operation; pc values are the hook site names.

   Actors:  P  the parking coroutine (user side)
            K  its kernel-side continuation: the worker that runs subscribe()
            U  a set of unparkers (threads/coroutines/anything), one unpark each
            T  the timer thread (fires due entries)
            C  a canceller (optional)
   The coroutine is ONE object that is either running (user side), switching
   (K owns it), in the slot, queued, or running *nested* inside K (fast_wake_up). *)
EXTENDS Naturals, FiniteSets, TLC

CONSTANTS Unparkers,      \* set of unparker ids
          Rounds,         \* number of park rounds of P
          Dur,            \* function round -> 0 (no timeout) or a duration > 0
          MaxNow,         \* clock bound
          WithCancel,     \* BOOLEAN: is there a canceller
          CheckCancel,    \* BOOLEAN: Park.check_cancel (FALSE for SyncBlocker's parks)
          Recheck,        \* BOOLEAN: TRUE = code as written; FALSE = mutant w/o state re-check
          Fix6,           \* BOOLEAN: FALSE = pinned tree; TRUE = repaired: the deadline is re-checked after the coroutine is published
          FixReg          \* BOOLEAN: FALSE = pinned tree (cancel registration after the coroutine is published); TRUE = repaired
                          \* (F24, see CancelReg.tla): registration first, the re-check takes the coroutine out of this slot itself

VARIABLES state, waitCo, waitKernel, timeoutReg, handle, timers, nextId, now,
          cancelBit, cancelCo, para,
          co,            \* "user" | "switching" | "slot" | "queued" | "nested" | "dead"
          pcP, phase, round, rets,   \* user side
          pcK, kreg, deadline,       \* kernel side (deadline: when the armed timer is due, 0 = none)
          pcU, pcC, creg,
          owed           \* ghost: an unpark not yet absorbed by a check_park

vars == <<state, waitCo, waitKernel, timeoutReg, handle, timers, nextId, now,
          cancelBit, cancelCo, para, co, pcP, phase, round, rets, pcK, kreg, deadline,
          pcU, pcC, creg, owed>>

Running == co \in {"user", "nested"}

Init ==
  /\ state = FALSE /\ waitCo = FALSE /\ waitKernel = FALSE /\ timeoutReg = 0
  /\ handle = 0 /\ timers = {} /\ nextId = 1 /\ now = 0
  /\ cancelBit = FALSE /\ cancelCo = FALSE /\ para = "none"
  /\ co = "user" /\ pcP = "park.check_load" /\ phase = "pre" /\ round = 1 /\ rets = <<>>
  /\ pcK = "idle" /\ kreg = 0 /\ deadline = 0
  /\ pcU = [u \in Unparkers |-> "unpark.swap"]
  /\ pcC = (IF WithCancel THEN "cancel.set_bit" ELSE "done")
  /\ creg = FALSE
  /\ owed = FALSE

-----------------------------------------------------------------------------
(* user side *)
UNCH_K == UNCHANGED <<pcK, kreg, deadline>>
UNCH_O == UNCHANGED <<pcU, pcC, creg>>

Return(kind) ==   \* park_timeout returns `kind`
  /\ rets' = [i \in 1..round |-> IF i < round THEN rets[i] ELSE kind]
  /\ IF round < Rounds
       THEN round' = round + 1 /\ pcP' = "park.check_load" /\ phase' = "pre"
       ELSE round' = round /\ pcP' = "done" /\ phase' = phase

PCheckLoad ==
  /\ Running /\ pcP = "park.check_load"
  /\ pcP' = IF state THEN "park.check_store" ELSE "park.check_swap"
  /\ UNCHANGED <<state, waitCo, waitKernel, timeoutReg, handle, timers, nextId, now,
                 cancelBit, cancelCo, para, co, phase, round, rets, owed>>
  /\ UNCH_K /\ UNCH_O

AfterCheck(tokenSeen) ==
  IF phase = "pre"
    THEN IF tokenSeen THEN Return("Ok") /\ UNCHANGED <<co>>
         ELSE pcP' = "park.spin_kernel" /\ UNCHANGED <<rets, round, phase, co>>
    ELSE pcP' = "park.rm_handle" /\ UNCHANGED <<rets, round, phase, co>>

PCheckStore ==
  /\ Running /\ pcP = "park.check_store"
  /\ state' = FALSE /\ owed' = FALSE
  /\ AfterCheck(TRUE)
  /\ UNCHANGED <<waitCo, waitKernel, timeoutReg, handle, timers, nextId, now,
                 cancelBit, cancelCo, para>>
  /\ UNCH_K /\ UNCH_O

PCheckSwap ==
  /\ Running /\ pcP = "park.check_swap"
  /\ state' = FALSE /\ owed' = FALSE
  /\ AfterCheck(state)
  /\ UNCHANGED <<waitCo, waitKernel, timeoutReg, handle, timers, nextId, now,
                 cancelBit, cancelCo, para>>
  /\ UNCH_K /\ UNCH_O

(* while self.wait_kernel.load() { yield_now() } : the load and the yield are two steps - K may leave subscribe()
   between them, the coroutine then yields once more than needed.  A nested coroutine yields back into K; a
   coroutine that the timer thread or an unparker resumed on another worker while K is still inside subscribe()
   spins the same way.  (Both facts were found by trace validation: TVPark rejected executions of the real Park
   while the model had one atomic action that demanded co = "nested".) *)
PSpinLoad ==
  /\ Running /\ pcP = "park.spin_kernel"
  /\ pcP' = IF waitKernel THEN "park.spin_yield" ELSE "park.store_timeout"
  /\ UNCHANGED <<state, waitCo, waitKernel, timeoutReg, handle, timers, nextId, now,
                 cancelBit, cancelCo, para, co, phase, round, rets, owed>>
  /\ UNCH_K /\ UNCH_O

PSpinYield ==
  /\ Running /\ pcP = "park.spin_yield"
  /\ co' = "queued" /\ pcP' = "park.spin_kernel"
  /\ UNCHANGED <<state, waitCo, waitKernel, timeoutReg, handle, timers, nextId, now,
                 cancelBit, cancelCo, para, phase, round, rets, owed>>
  /\ UNCH_K /\ UNCH_O

PStoreTimeout ==
  /\ Running /\ pcP = "park.store_timeout"
  /\ timeoutReg' = Dur[round]
  /\ pcP' = "yield.check_cancel"
  /\ UNCHANGED <<state, waitCo, waitKernel, handle, timers, nextId, now,
                 cancelBit, cancelCo, para, co, phase, round, rets, owed>>
  /\ UNCH_K /\ UNCH_O

Die ==  /\ co' = "dead" /\ pcP' = "cancelled" /\ UNCHANGED <<rets, round, phase>>

(* yield_with: short-circuit when already cancelled, else switch stacks *)
PYield ==
  /\ Running /\ pcP = "yield.check_cancel"
  /\ IF cancelBit
       THEN /\ IF CheckCancel
                 THEN Die /\ para' = "none"          \* check_cancel(): get_co_para(); panic
                 ELSE /\ para' = "canceled" /\ pcP' = "park.check_load" /\ phase' = "post"
                      /\ UNCHANGED <<co, rets, round>>
            /\ UNCH_K
       ELSE /\ co' = "switching" /\ pcP' = "yield.back" /\ pcK' = "sub.take_timeout"
            /\ UNCHANGED <<para, phase, rets, round, kreg, deadline>>
  /\ UNCHANGED <<state, waitCo, waitKernel, timeoutReg, handle, timers, nextId, now,
                 cancelBit, cancelCo, owed>>
  /\ UNCH_O

(* resumed: yield_back() *)
PYieldBack ==
  /\ Running /\ pcP = "yield.back"
  /\ IF CheckCancel /\ cancelBit
       THEN Die /\ para' = "none"
       ELSE pcP' = "park.check_load" /\ phase' = "post" /\ UNCHANGED <<co, para, rets, round>>
  /\ UNCHANGED <<state, waitCo, waitKernel, timeoutReg, handle, timers, nextId, now,
                 cancelBit, cancelCo, owed>>
  /\ UNCH_K /\ UNCH_O

(* remove_timeout_handle(): the entry is unlinked if the list allows it, else it stays armed *)
PRmHandle ==
  /\ Running /\ pcP = "park.rm_handle"
  /\ handle' = 0
  /\ \/ timers' = {t \in timers : t.id # handle}      \* removed (or had fired already)
     \/ timers' = timers                              \* newest entry: cannot be unlinked
  /\ pcP' = "park.read_para"
  /\ UNCHANGED <<state, waitCo, waitKernel, timeoutReg, nextId, now,
                 cancelBit, cancelCo, para, co, phase, round, rets, owed>>
  /\ UNCH_K /\ UNCH_O

PReadPara ==
  /\ Running /\ pcP = "park.read_para"
  /\ para' = "none"
  /\ Return(CASE para = "none" -> "Ok" [] para = "timeout" -> "Timeout" [] OTHER -> "Canceled")
  /\ UNCHANGED <<state, waitCo, waitKernel, timeoutReg, handle, timers, nextId, now,
                 cancelBit, cancelCo, co, owed>>
  /\ UNCH_K /\ UNCH_O

(* a worker (or the timer thread) resumes a queued coroutine *)
Resume ==
  /\ co = "queued" /\ co' = "user"
  /\ UNCHANGED <<state, waitCo, waitKernel, timeoutReg, handle, timers, nextId, now,
                 cancelBit, cancelCo, para, pcP, phase, round, rets, owed>>
  /\ UNCH_K /\ UNCH_O

-----------------------------------------------------------------------------
(* kernel side: Park::subscribe, running on the worker after the switch *)
KStep(from, to) == pcK = from /\ pcK' = to
\* what follows the re-checks of state and deadline
AfterRechecks == IF FixReg THEN "sub.recheck_cancel" ELSE "sub.set_cancel_co"
UNCH_P == UNCHANGED <<pcP, phase, round, rets>>

KTakeTimeout ==
  /\ KStep("sub.take_timeout", IF timeoutReg > 0 THEN "sub.add_timer" ELSE "sub.set_handle")
  /\ kreg' = timeoutReg /\ timeoutReg' = 0
  /\ deadline' = (IF timeoutReg > 0 THEN now + timeoutReg ELSE 0)
  /\ UNCHANGED <<state, waitCo, waitKernel, handle, timers, nextId, now,
                 cancelBit, cancelCo, para, co, owed>>
  /\ UNCH_P /\ UNCH_O

KAddTimer ==
  /\ KStep("sub.add_timer", "sub.set_handle")
  /\ timers' = timers \cup {[id |-> nextId, at |-> now + kreg]}
  /\ kreg' = nextId /\ nextId' = nextId + 1 /\ UNCHANGED deadline
  /\ UNCHANGED <<state, waitCo, waitKernel, timeoutReg, handle, now,
                 cancelBit, cancelCo, para, co, owed>>
  /\ UNCH_P /\ UNCH_O

KSetHandle ==
  /\ KStep("sub.set_handle", "sub.kernel_on")
  /\ handle' = kreg /\ kreg' = 0 /\ UNCHANGED deadline
  /\ UNCHANGED <<state, waitCo, waitKernel, timeoutReg, timers, nextId, now,
                 cancelBit, cancelCo, para, co, owed>>
  /\ UNCH_P /\ UNCH_O

KKernelOn ==
  /\ KStep("sub.kernel_on", IF FixReg THEN "sub.set_cancel_co" ELSE "sub.store_co")
  /\ waitKernel' = TRUE
  /\ UNCHANGED <<state, waitCo, timeoutReg, handle, timers, nextId, now,
                 cancelBit, cancelCo, para, co, kreg, deadline, owed>>
  /\ UNCH_P /\ UNCH_O

KStoreCo ==
  /\ KStep("sub.store_co", IF Recheck THEN "sub.recheck_state" ELSE AfterRechecks)
  /\ waitCo' = TRUE /\ co' = "slot"
  /\ UNCHANGED <<state, waitKernel, timeoutReg, handle, timers, nextId, now,
                 cancelBit, cancelCo, para, kreg, deadline, owed>>
  /\ UNCH_P /\ UNCH_O

KRecheckState ==
  /\ KStep("sub.recheck_state", IF state THEN "sub.fast_take" ELSE IF Fix6 THEN "sub.recheck_timeout" ELSE AfterRechecks)
  /\ UNCHANGED <<state, waitCo, waitKernel, timeoutReg, handle, timers, nextId, now,
                 cancelBit, cancelCo, para, co, kreg, deadline, owed>>
  /\ UNCH_P /\ UNCH_O

(* repaired tree (F6): the timer may have fired into the still empty slot; if its deadline has passed,
   take the coroutine back and resume it with TimedOut on this stack *)
KRecheckTimeout ==
  /\ pcK = "sub.recheck_timeout"
  /\ IF deadline > 0 /\ now >= deadline
       THEN /\ pcK' = "sub.kernel_off"
            /\ IF waitCo THEN waitCo' = FALSE /\ para' = "timeout" /\ co' = "nested" ELSE UNCHANGED <<waitCo, para, co>>
       ELSE pcK' = AfterRechecks /\ UNCHANGED <<waitCo, para, co>>
  /\ UNCHANGED <<state, waitKernel, timeoutReg, handle, timers, nextId, now,
                 cancelBit, cancelCo, kreg, deadline, owed>>
  /\ UNCH_P /\ UNCH_O

(* fast_wake_up(): take the slot and run the coroutine *on this stack* *)
KFastTake ==
  /\ KStep("sub.fast_take", "sub.kernel_off")
  /\ IF waitCo THEN waitCo' = FALSE /\ co' = "nested" ELSE UNCHANGED <<waitCo, co>>
  /\ UNCHANGED <<state, waitKernel, timeoutReg, handle, timers, nextId, now,
                 cancelBit, cancelCo, para, kreg, deadline, owed>>
  /\ UNCH_P /\ UNCH_O

KSetCancelCo ==
  /\ KStep("sub.set_cancel_co", IF FixReg THEN "sub.store_co" ELSE "sub.recheck_cancel")
  /\ cancelCo' = TRUE
  /\ UNCHANGED <<state, waitCo, waitKernel, timeoutReg, handle, timers, nextId, now,
                 cancelBit, para, co, kreg, deadline, owed>>
  /\ UNCH_P /\ UNCH_O

(* pinned tree: if cancel.is_canceled() { cancel.cancel() }  -- the inline cancel is 2 takes;
   repaired (FixReg): if cancel.is_canceled() { take the coroutine out of this Park's slot, Canceled, schedule } *)
KRecheckCancel ==
  /\ KStep("sub.recheck_cancel", IF cancelBit /\ ~FixReg THEN "sub.c_take_slot" ELSE "sub.kernel_off")
  /\ IF FixReg /\ cancelBit /\ waitCo
       THEN waitCo' = FALSE /\ para' = "canceled" /\ co' = "queued"
       ELSE UNCHANGED <<waitCo, para, co>>
  /\ UNCHANGED <<state, waitKernel, timeoutReg, handle, timers, nextId, now,
                 cancelBit, cancelCo, kreg, deadline, owed>>
  /\ UNCH_P /\ UNCH_O

KCTakeSlot ==
  /\ KStep("sub.c_take_slot", IF cancelCo THEN "sub.c_take_co" ELSE "sub.kernel_off")
  /\ cancelCo' = FALSE
  /\ UNCHANGED <<state, waitCo, waitKernel, timeoutReg, handle, timers, nextId, now,
                 cancelBit, para, co, kreg, deadline, owed>>
  /\ UNCH_P /\ UNCH_O

KCTakeCo ==
  /\ KStep("sub.c_take_co", "sub.kernel_off")
  /\ IF waitCo THEN waitCo' = FALSE /\ para' = "canceled" /\ co' = "queued"
               ELSE UNCHANGED <<waitCo, para, co>>
  /\ UNCHANGED <<state, waitKernel, timeoutReg, handle, timers, nextId, now,
                 cancelBit, cancelCo, kreg, deadline, owed>>
  /\ UNCH_P /\ UNCH_O

(* the DropGuard: runs when subscribe returns, i.e. not while a nested coroutine runs *)
KKernelOff ==
  /\ KStep("sub.kernel_off", "idle") /\ co # "nested"
  /\ waitKernel' = FALSE
  /\ UNCHANGED <<state, waitCo, timeoutReg, handle, timers, nextId, now,
                 cancelBit, cancelCo, para, co, kreg, deadline, owed>>
  /\ UNCH_P /\ UNCH_O

-----------------------------------------------------------------------------
USwap(u) ==
  /\ pcU[u] = "unpark.swap"
  /\ state' = TRUE /\ owed' = TRUE
  /\ pcU' = [pcU EXCEPT ![u] = IF state THEN "done" ELSE "unpark.take"]
  /\ UNCHANGED <<waitCo, waitKernel, timeoutReg, handle, timers, nextId, now,
                 cancelBit, cancelCo, para, co, pcC, creg>>
  /\ UNCH_P /\ UNCH_K

UTake(u) ==
  /\ pcU[u] = "unpark.take"
  /\ pcU' = [pcU EXCEPT ![u] = "done"]
  /\ IF waitCo THEN waitCo' = FALSE /\ co' = "queued" ELSE UNCHANGED <<waitCo, co>>
  /\ UNCHANGED <<state, waitKernel, timeoutReg, handle, timers, nextId, now,
                 cancelBit, cancelCo, para, pcC, creg, owed>>
  /\ UNCH_P /\ UNCH_K

TFire ==
  /\ \E t \in timers :
       /\ t.at <= now
       /\ timers' = timers \ {t}
       /\ IF waitCo THEN waitCo' = FALSE /\ para' = "timeout" /\ co' = "queued"
                    ELSE UNCHANGED <<waitCo, para, co>>
  /\ UNCHANGED <<state, waitKernel, timeoutReg, handle, nextId, now,
                 cancelBit, cancelCo, pcU, pcC, creg, owed>>
  /\ UNCH_P /\ UNCH_K

Tick ==
  /\ now < MaxNow /\ now' = now + 1
  /\ UNCHANGED <<state, waitCo, waitKernel, timeoutReg, handle, timers, nextId,
                 cancelBit, cancelCo, para, co, pcU, pcC, creg, owed>>
  /\ UNCH_P /\ UNCH_K

CSetBit ==
  /\ pcC = "cancel.set_bit" /\ pcC' = "cancel.take_slot" /\ cancelBit' = TRUE
  /\ UNCHANGED <<state, waitCo, waitKernel, timeoutReg, handle, timers, nextId, now,
                 cancelCo, para, co, pcU, creg, owed>>
  /\ UNCH_P /\ UNCH_K

CTakeSlot ==
  /\ pcC = "cancel.take_slot" /\ pcC' = IF cancelCo THEN "cancel.take_co" ELSE "done"
  /\ cancelCo' = FALSE
  /\ UNCHANGED <<state, waitCo, waitKernel, timeoutReg, handle, timers, nextId, now,
                 cancelBit, para, co, pcU, creg, owed>>
  /\ UNCH_P /\ UNCH_K

CTakeCo ==
  /\ pcC = "cancel.take_co" /\ pcC' = "done"
  /\ IF waitCo THEN waitCo' = FALSE /\ para' = "canceled" /\ co' = "queued"
               ELSE UNCHANGED <<waitCo, para, co>>
  /\ UNCHANGED <<state, waitKernel, timeoutReg, handle, timers, nextId, now,
                 cancelBit, cancelCo, pcU, creg, owed>>
  /\ UNCH_P /\ UNCH_K

Finished == pcP \in {"done", "cancelled"}
Quiet    == /\ \A u \in Unparkers : pcU[u] = "done"
            /\ pcC = "done" /\ pcK = "idle"

Stutter == Finished /\ Quiet /\ UNCHANGED vars

Next ==
  \/ PCheckLoad \/ PCheckStore \/ PCheckSwap \/ PSpinLoad \/ PSpinYield \/ PStoreTimeout
  \/ PYield \/ PYieldBack \/ PRmHandle \/ PReadPara \/ Resume
  \/ KTakeTimeout \/ KAddTimer \/ KSetHandle \/ KKernelOn \/ KStoreCo \/ KRecheckState
  \/ KRecheckTimeout \/ KFastTake \/ KSetCancelCo \/ KRecheckCancel \/ KCTakeSlot \/ KCTakeCo \/ KKernelOff
  \/ \E u \in Unparkers : USwap(u) \/ UTake(u)
  \/ TFire \/ Tick \/ CSetBit \/ CTakeSlot \/ CTakeCo
  \/ Stutter

Spec == Init /\ [][Next]_vars

-----------------------------------------------------------------------------
(* Properties *)

\* the slot holds the coroutine only while it is suspended: nobody can take a running one
SlotImpliesSuspended == waitCo => co = "slot"

\* exactly-one resumption: the coroutine is never runnable in two ways
ResumeOnce == ~(co \in {"queued", "user", "nested"} /\ waitCo)

\* an unpark issued and not absorbed, nobody left who could deliver it, parker asleep
Stranded == /\ owed /\ co = "slot" /\ waitCo /\ Quiet
NoLostWake == ~Stranded

\* sharper, state-based form: a set token while the coroutine sits in the slot is always
\* accompanied by somebody who is about to take it (the unparker that set it, or K's re-check)
TokenHasTaker ==
  (state /\ waitCo) =>
     \/ \E u \in Unparkers : pcU[u] = "unpark.take"
     \/ pcK \in {"sub.recheck_state", "sub.fast_take"}

\* Timeout is reported only at/after a deadline of a timer armed for this Park
TimeoutSound == \A i \in DOMAIN rets : rets[i] = "Timeout" => now >= 1
CanceledSound == \A i \in DOMAIN rets : rets[i] = "Canceled" => cancelBit

\* F6: a park with a time-out that is asleep must still have a timer that can wake it
LostTimeout == /\ co = "slot" /\ waitCo /\ pcK = "idle" /\ Dur[round] > 0 /\ timers = {}
NoLostTimeout == ~LostTimeout

\* a parker with a timeout and a ticking clock cannot sleep forever (checked as deadlock
\* freedom: TLC reports deadlock when no action incl. Tick/TFire is enabled and ~Finished)
=============================================================================
