----------------------------- MODULE PanicCount -----------------------------
(* C13 ("a panic in one coroutine stays in that coroutine ... the worker thread survives"), finding F25.

   Rust keeps the "is this thread unwinding" counter per OS THREAD (std::thread::panicking()).  A stackful coroutine
   that yields while its stack is unwinding - a destructor that calls yield_now(), as may's own Park::drop does while
   `wait_kernel` is set - may be resumed by another worker thread.  The unwinding continues there, but that thread's
   counter says "not panicking".  Cancel::check_cancel (src/cancel.rs) uses exactly that test to decide whether it may
   raise the Cancel panic:

       if state == 1 { get_co_para(); if !thread::panicking() { trigger_cancel_panic() } }

   so a cancel that lands during the destructor's yield makes check_cancel (called by yield_back when the coroutine is
   resumed) raise a second panic inside a destructor during cleanup: the process aborts.  The model also shows the
   follow-up damage: the thread on which the panic started keeps a counter of 1 for ever (every later panic on it is a
   "panic while panicking"), the thread on which the unwinding ends decrements a counter that was 0.

   Actors: the coroutine "c" (panics, its destructor yields once, then the unwinding ends in the coroutine's
   catch_unwind), the scheduler (resumes it on thread T1 or T2), the canceller "x".
   Migrate = FALSE pins the coroutine to its thread (the property then holds): the defect is the migration of an
   unwinding stack, not the cancel. *)
EXTENDS Integers, TLC

CONSTANTS Migrate     \* may the scheduler resume the coroutine on the other worker thread?

VARIABLES
  cnt,        \* [thread -> panic counter of that OS thread]
  on,         \* thread the coroutine runs on ("none" while it is queued)
  pc,         \* "run" | "dtor" | "queued" | "back" | "done" | "aborted"
  bit,        \* cancel requested
  unwinding   \* ghost: the coroutine's own stack is unwinding
vars == <<cnt, on, pc, bit, unwinding>>
Threads == {"T1", "T2"}

Init == cnt = [t \in Threads |-> 0] /\ on = "T1" /\ pc = "run" /\ bit = FALSE /\ unwinding = FALSE

\* the closure panics: the counter of the CURRENT thread goes up, the stack starts to unwind
Panic ==
  /\ pc = "run" /\ pc' = "dtor"
  /\ cnt' = [cnt EXCEPT ![on] = @ + 1] /\ unwinding' = TRUE
  /\ UNCHANGED <<on, bit>>
\* a destructor calls yield_now(): with the bit set yield_with takes its short-cut (no switch), else the coroutine is queued
DtorYield ==
  /\ pc = "dtor"
  /\ IF bit THEN pc' = "back" /\ UNCHANGED on ELSE pc' = "queued" /\ on' = "none"
  /\ UNCHANGED <<cnt, bit, unwinding>>
\* some worker resumes it
Resume(t) ==
  /\ pc = "queued" /\ (Migrate \/ t = "T1")
  /\ on' = t /\ pc' = "back"
  /\ UNCHANGED <<cnt, bit, unwinding>>
\* yield_back -> check_cancel: raises the Cancel panic unless THIS THREAD is panicking
YieldBack ==
  /\ pc = "back"
  /\ IF bit /\ cnt[on] = 0
       THEN pc' = "aborted"                  \* a panic inside a destructor during cleanup
       ELSE pc' = "catch"
  /\ UNCHANGED <<cnt, on, bit, unwinding>>
\* the unwinding reaches the coroutine's catch_unwind: the counter of the CURRENT thread goes down
Catch ==
  /\ pc = "catch" /\ pc' = "done"
  /\ cnt' = [cnt EXCEPT ![on] = @ - 1] /\ unwinding' = FALSE
  /\ UNCHANGED <<on, bit>>
Cancel == ~bit /\ bit' = TRUE /\ UNCHANGED <<cnt, on, pc, unwinding>>
Terminal == pc \in {"done", "aborted"} /\ UNCHANGED vars

Next == Panic \/ DtorYield \/ (\E t \in Threads : Resume(t)) \/ YieldBack \/ Catch \/ Cancel \/ Terminal
Spec == Init /\ [][Next]_vars

\* the panic is contained: the process never aborts
Contained == pc # "aborted"
\* the per-thread counters say what they are meant to say
CountersSound ==
  /\ \A t \in Threads : cnt[t] >= 0
  /\ (pc = "done") => \A t \in Threads : cnt[t] = 0
=============================================================================
