---- MODULE MCPark ----
EXTENDS Park
DurFn == <<1, 0>>
DurFn2 == <<0, 1>>
====
