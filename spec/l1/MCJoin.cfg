SPECIFICATION Spec
CONSTANTS
  Joiners = {"j1", "q1"}
  Pollers = {"q1"}
  Recheck = TRUE
  StoreBeforeTake = TRUE
INVARIANTS JoinAfterDone
CHECK_DEADLOCK TRUE
