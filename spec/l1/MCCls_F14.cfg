\* code as written (ConsumeInYieldBack = FALSE): FreshStart violated in 5 steps (F14)
SPECIFICATION Spec
CONSTANTS
  Kinds = {"park", "syncpark", "sleep", "yield", "io", "evsender", "rawio"}
  MaxCalls = 2
  ConsumeInYieldBack = FALSE
INVARIANTS FreshStart
CHECK_DEADLOCK FALSE
