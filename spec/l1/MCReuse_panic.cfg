SPECIFICATION MCSpec
CONSTANTS
  Kind = "panic"
  Fix14 = TRUE
INVARIANTS StartsClean NoGhostResult TrueResult Accounted
VIEW View
CHECK_DEADLOCK TRUE
