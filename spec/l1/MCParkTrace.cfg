INIT TraceInit0
NEXT TraceNext
CONSTANTS
  Unparkers = {u1}
  Rounds = 1
  Dur <- DurFn
  MaxNow = 0
  WithCancel = FALSE
  CheckCancel = TRUE
  Recheck = TRUE
INVARIANTS SlotImpliesSuspended ResumeOnce TokenHasTaker
CONSTRAINT TraceConstraint
POSTCONDITION TraceAccepted
CHECK_DEADLOCK FALSE
