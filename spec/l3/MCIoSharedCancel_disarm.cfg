SPECIFICATION Spec
CONSTANTS
  Short = 2
  Long = 5
  FixDisarm = TRUE
INVARIANTS NoEarlyTimeout NoOrphanEntry
CHECK_DEADLOCK TRUE
