SPECIFICATION TVSpec
CONSTANTS
  FixOrder = TRUE
CONSTRAINT TVProgress
POSTCONDITION TVAccepted
CHECK_DEADLOCK FALSE
