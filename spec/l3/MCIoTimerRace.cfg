\* code as written: NothingBad is violated (candidate F15) -- taker on another thread than the timer-list owner
SPECIFICATION Spec
INVARIANTS NothingBad ResumeOnce
CHECK_DEADLOCK FALSE
