-------------------------------- MODULE IoWait --------------------------------
(* The edge-triggered readiness protocol of src/io/sys/unix:
     caller  (net/tcp.rs read + net/socket_read.rs done()):
             reset flag; syscall; on EAGAIN yield -> [worker: subscribe] ; resumed: loop {
             clear flag; syscall; on EAGAIN: re-check flag ? continue : yield }
     worker  (SocketRead::subscribe): co.store; re-check flag -> fast_schedule
     selector(epoll.rs select): fetch_or(flag); co.take(); schedule
     kernel : bytes arrive; with EPOLLET every arrival raises one (coalescing) event. *)
EXTENDS Naturals, TLC
CONSTANTS NArrivals,          \* how many times the peer writes (1 byte each)
          SubRecheck,         \* TRUE = as written (subscribe re-checks io_flag)
          ClearBeforeSyscall  \* TRUE = as written
VARIABLES bytes, evPending, arrivals, flag, coSlot, co, pcC, pcK, pcS, got
vars == <<bytes, evPending, arrivals, flag, coSlot, co, pcC, pcK, pcS, got>>
Init == /\ bytes = 0 /\ evPending = FALSE /\ arrivals = 0 /\ flag = FALSE /\ coSlot = FALSE
        /\ co = "user" /\ pcC = "io.reset" /\ pcK = "idle" /\ pcS = "idle" /\ got = 0
Running == co \in {"user", "nested"}
Arrive == /\ arrivals < NArrivals /\ arrivals' = arrivals + 1 /\ bytes' = bytes + 1 /\ evPending' = TRUE
          /\ UNCHANGED <<flag, coSlot, co, pcC, pcK, pcS, got>>
(* caller *)
Syscall(nextOnData, nextOnAgain) ==
  IF bytes > 0 THEN got' = got + bytes /\ bytes' = 0 /\ pcC' = nextOnData
               ELSE UNCHANGED <<got, bytes>> /\ pcC' = nextOnAgain
AfterRead == IF got' >= NArrivals THEN "done" ELSE "io.reset"
CReset == /\ Running /\ pcC = "io.reset" /\ flag' = FALSE /\ pcC' = "io.try"
          /\ UNCHANGED <<bytes, evPending, arrivals, coSlot, co, pcK, pcS, got>>
CTry == /\ Running /\ pcC = "io.try"
        /\ IF bytes > 0 THEN got' = got + bytes /\ bytes' = 0 /\ pcC' = (IF got + bytes >= NArrivals THEN "done" ELSE "io.reset")
                        ELSE UNCHANGED <<got, bytes>> /\ pcC' = "yield"
        /\ UNCHANGED <<evPending, arrivals, flag, coSlot, co, pcK, pcS>>
CYield == /\ Running /\ pcC = "yield" /\ co' = "switching" /\ pcK' = "sub.store_co" /\ pcC' = "io.clear_flag"
          /\ UNCHANGED <<bytes, evPending, arrivals, flag, coSlot, pcS, got>>
CClear == /\ Running /\ pcC = "io.clear_flag"
          /\ IF ClearBeforeSyscall THEN flag' = FALSE ELSE UNCHANGED flag
          /\ pcC' = "io.syscall"
          /\ UNCHANGED <<bytes, evPending, arrivals, coSlot, co, pcK, pcS, got>>
CSyscall == /\ Running /\ pcC = "io.syscall"
            /\ IF bytes > 0 THEN got' = got + bytes /\ bytes' = 0 /\ pcC' = (IF got + bytes >= NArrivals THEN "done" ELSE "io.reset")
                            ELSE UNCHANGED <<got, bytes>> /\ pcC' = (IF ClearBeforeSyscall THEN "io.recheck_flag" ELSE "io.clear_after")
            /\ UNCHANGED <<evPending, arrivals, flag, coSlot, co, pcK, pcS>>
CClearAfter == /\ Running /\ pcC = "io.clear_after" /\ flag' = FALSE /\ pcC' = "io.recheck_flag"   \* mutant only
               /\ UNCHANGED <<bytes, evPending, arrivals, coSlot, co, pcK, pcS, got>>
CRecheck == /\ Running /\ pcC = "io.recheck_flag" /\ pcC' = (IF flag THEN "io.clear_flag" ELSE "yield")
            /\ UNCHANGED <<bytes, evPending, arrivals, flag, coSlot, co, pcK, pcS, got>>
(* worker: subscribe *)
KStore == /\ pcK = "sub.store_co" /\ coSlot' = TRUE /\ co' = "slot"
          /\ pcK' = (IF SubRecheck THEN "sub.recheck_flag" ELSE "idle")
          /\ UNCHANGED <<bytes, evPending, arrivals, flag, pcC, pcS, got>>
KRecheck == /\ pcK = "sub.recheck_flag" /\ pcK' = (IF flag THEN "sub.fast_take" ELSE "idle")
            /\ UNCHANGED <<bytes, evPending, arrivals, flag, coSlot, co, pcC, pcS, got>>
KFastTake == /\ pcK = "sub.fast_take" /\ pcK' = "idle"
             /\ IF coSlot THEN coSlot' = FALSE /\ co' = "user" ELSE UNCHANGED <<coSlot, co>>
             /\ UNCHANGED <<bytes, evPending, arrivals, flag, pcC, pcS, got>>
(* selector *)
SEvent == /\ pcS = "idle" /\ evPending /\ evPending' = FALSE /\ pcS' = "sel.or_flag"
          /\ UNCHANGED <<bytes, arrivals, flag, coSlot, co, pcC, pcK, got>>
SOrFlag == /\ pcS = "sel.or_flag" /\ flag' = TRUE /\ pcS' = "sel.take"
           /\ UNCHANGED <<bytes, evPending, arrivals, coSlot, co, pcC, pcK, got>>
STake == /\ pcS = "sel.take" /\ pcS' = "idle"
         /\ IF coSlot THEN coSlot' = FALSE /\ co' = "queued" ELSE UNCHANGED <<coSlot, co>>
         /\ UNCHANGED <<bytes, evPending, arrivals, flag, pcC, pcK, got>>
Resume == /\ co = "queued" /\ co' = "user"
          /\ UNCHANGED <<bytes, evPending, arrivals, flag, coSlot, pcC, pcK, pcS, got>>
AllOver == pcC = "done" /\ pcK = "idle" /\ pcS = "idle" /\ ~evPending
Next == Arrive \/ CReset \/ CTry \/ CYield \/ CClear \/ CSyscall \/ CClearAfter \/ CRecheck \/ KStore \/ KRecheck \/ KFastTake
        \/ SEvent \/ SOrFlag \/ STake \/ Resume \/ (AllOver /\ UNCHANGED vars)
Spec == Init /\ [][Next]_vars
SlotImpliesSuspended == coSlot => co = "slot"
\* the reader never stays suspended while the kernel holds data for it and nobody is on the way
NoMissedEdge == ~(co = "slot" /\ coSlot /\ bytes > 0 /\ ~evPending /\ pcS = "idle" /\ pcK = "idle")
AllDelivered == pcC = "done" => got = NArrivals
=============================================================================
