-------------------------------- MODULE Stream --------------------------------
(* The abstract byte stream that recorded API histories of a may
   TcpStream / UnixStream pair are validated against (C17): writes append a prefix of what the
   caller offered (partial writes), the kernel buffer is bounded, reads remove a non-empty prefix
   of what is buffered (or 0 at EOF only), close of the writer makes EOF visible after the
   buffer is drained.  Bytes are positions in the sender's stream, so "unmodified, in order,
   complete" is `received = 1..Len(received)`. *)
EXTENDS Naturals, Sequences, TLC
CONSTANTS Total, Cap, MaxChunk
VARIABLES sent, buf, received, closed, eofSeen
vars == <<sent, buf, received, closed, eofSeen>>
Init == sent = 0 /\ buf = <<>> /\ received = <<>> /\ closed = FALSE /\ eofSeen = FALSE
Write == /\ ~closed /\ sent < Total /\ Len(buf) < Cap
         /\ \E n \in 1..MaxChunk : /\ n <= Total - sent /\ n <= Cap - Len(buf)
                                   /\ buf' = buf \o [i \in 1..n |-> sent + i] /\ sent' = sent + n
         /\ UNCHANGED <<received, closed, eofSeen>>
Read == /\ buf # <<>> /\ \E n \in 1..MaxChunk : /\ n <= Len(buf)
                                                /\ received' = received \o SubSeq(buf, 1, n)
                                                /\ buf' = SubSeq(buf, n + 1, Len(buf))
        /\ UNCHANGED <<sent, closed, eofSeen>>
Close == /\ ~closed /\ closed' = TRUE /\ UNCHANGED <<sent, buf, received, eofSeen>>
ReadEof == /\ closed /\ buf = <<>> /\ eofSeen' = TRUE /\ UNCHANGED <<sent, buf, received, closed>>   \* read() == 0
Next == Write \/ Read \/ Close \/ ReadEof \/ (eofSeen /\ UNCHANGED vars)
Spec == Init /\ [][Next]_vars
StreamPrefix == /\ \A i \in DOMAIN received : received[i] = i
                /\ \A i \in DOMAIN buf : buf[i] = Len(received) + i
EofOnlyAtEnd == eofSeen => (closed /\ buf = <<>> /\ Len(received) = sent)
=============================================================================
