------------------------------ MODULE IoTimerRace ------------------------------
(* The hand-over between an expiring io timer and an early completion when
   the *taker* is not the worker that owns the fd's timer list (src/io/sys/unix/mod.rs:82-190,
   epoll.rs:240-249, mpsc_list_v1.rs:38-45).
     owner worker : schedule_timer -> pop_if (moves the TimerData OUT of the node: value = None)
                    -> timeout_handler(data): null? ; event_data.timer.take() ; co.take() ; resume(TimedOut)
     taker        : subscribe's fast_schedule / EventData::schedule on ANOTHER thread:
                    co.take() ; timer.take() -> h ; h.with_mut_data(null the event_data)
                                                    ^ `.expect("Node value is None")` ; h.remove()
   The RefCell around `timer` is modelled as the plain cell it effectively is. *)
EXTENDS Naturals, TLC
VARIABLES nodeHasValue, nodeNulled, timerCell, co, pcO, pcT, handlerPtrNull, resumedBy, bad
vars == <<nodeHasValue, nodeNulled, timerCell, co, pcO, pcT, handlerPtrNull, resumedBy, bad>>
Init == /\ nodeHasValue = TRUE /\ nodeNulled = FALSE /\ timerCell = TRUE /\ co = TRUE
        /\ pcO = "tl.pop_if" /\ pcT = "fs.take_co" /\ handlerPtrNull = FALSE /\ resumedBy = {} /\ bad = "ok"
OPop == /\ pcO = "tl.pop_if" /\ nodeHasValue            \* (if the taker removed the entry first there is nothing to pop)
        /\ nodeHasValue' = FALSE /\ handlerPtrNull' = nodeNulled /\ pcO' = "th.check_null"
        /\ UNCHANGED <<nodeNulled, timerCell, co, pcT, resumedBy, bad>>
OCheckNull == /\ pcO = "th.check_null" /\ pcO' = (IF handlerPtrNull THEN "done" ELSE "th.take_timer")
              /\ UNCHANGED <<nodeHasValue, nodeNulled, timerCell, co, pcT, handlerPtrNull, resumedBy, bad>>
OTakeTimer == /\ pcO = "th.take_timer" /\ timerCell' = FALSE /\ pcO' = "th.take_co"
              /\ UNCHANGED <<nodeHasValue, nodeNulled, co, pcT, handlerPtrNull, resumedBy, bad>>
OTakeCo == /\ pcO = "th.take_co" /\ pcO' = "done"
           /\ IF co THEN co' = FALSE /\ resumedBy' = resumedBy \cup {"timeout"} ELSE UNCHANGED <<co, resumedBy>>
           /\ UNCHANGED <<nodeHasValue, nodeNulled, timerCell, pcT, handlerPtrNull, bad>>
TTakeCo == /\ pcT = "fs.take_co"
           /\ IF co THEN co' = FALSE /\ pcT' = "fs.take_timer" ELSE UNCHANGED co /\ pcT' = "done"
           /\ UNCHANGED <<nodeHasValue, nodeNulled, timerCell, pcO, handlerPtrNull, resumedBy, bad>>
TTakeTimer == /\ pcT = "fs.take_timer"
              /\ IF timerCell THEN timerCell' = FALSE /\ pcT' = "fs.null_data" ELSE UNCHANGED timerCell /\ pcT' = "fs.run"
              /\ UNCHANGED <<nodeHasValue, nodeNulled, co, pcO, handlerPtrNull, resumedBy, bad>>
TNullData == /\ pcT = "fs.null_data"
             /\ IF nodeHasValue THEN nodeNulled' = TRUE /\ pcT' = "fs.remove" /\ UNCHANGED bad
                ELSE bad' = "panic: Node value is None (with_mut_data on a popped entry)" /\ pcT' = "done" /\ UNCHANGED nodeNulled
             /\ UNCHANGED <<nodeHasValue, timerCell, co, pcO, handlerPtrNull, resumedBy>>
TRemove == /\ pcT = "fs.remove" /\ pcT' = "fs.run"          \* may or may not unlink (newest entries stay, nulled)
           /\ \/ nodeHasValue' = FALSE \/ UNCHANGED nodeHasValue
           /\ UNCHANGED <<nodeNulled, timerCell, co, pcO, handlerPtrNull, resumedBy, bad>>
TRun == /\ pcT = "fs.run" /\ resumedBy' = resumedBy \cup {"event"} /\ pcT' = "done"
        /\ UNCHANGED <<nodeHasValue, nodeNulled, timerCell, co, pcO, handlerPtrNull, bad>>
Next == OPop \/ OCheckNull \/ OTakeTimer \/ OTakeCo \/ TTakeCo \/ TTakeTimer \/ TNullData \/ TRemove \/ TRun
        \/ (pcT = "done" /\ UNCHANGED vars)
Spec == Init /\ [][Next]_vars
NothingBad == bad = "ok"
ResumeOnce == resumedBy # {"timeout", "event"}
=============================================================================
