SPECIFICATION MCSpec
CONSTANTS
  FixOrder = FALSE
INVARIANTS TypeOK NoMissedReadiness LiveStaysRegistered
CHECK_DEADLOCK TRUE
