--------------------------- MODULE IoSharedCancel ---------------------------
(* C18: "the timeout armed for one operation never makes a later operation on the same socket fail or return early
   ... cancelling a coroutine blocked in socket I/O ... neither event disturbs other coroutines' I/O" - for a socket
   the cancelled coroutine does not own (a datagram socket or listener shared through an Arc or borrowed in a scope:
   their recv / accept take &self).

   A timed socket operation arms an entry in the selector's timer list (add_io_timer; the entry points at the
   socket's EventData) and remembers the handle in EventData.timer.  Every way out of the wait has to disarm it:
     - the selector's event handler and fast_schedule remove the entry (src/io/sys/unix/epoll.rs, mod.rs),
     - the time-out handler consumes it,
     - dropping the socket nulls the entry's pointer (Selector::del_fd),
     - CancelIoImpl::cancel (src/io/sys/unix/cancel.rs) takes the coroutine out of EventData.co and schedules it -
       and leaves the entry armed.
   If the cancelled coroutine owned the socket the drop takes care of it.  If it did not, the entry stays; when it
   expires the time-out handler takes whatever coroutine is blocked on the socket by then and fails it with TimedOut
   (finding F27, reported by a sub-agent as a side observation, shown with the `ioshared` scenario).

   Actors: "a" (recv with time-out Short, then cancelled), "x" the canceller, "b" (recv with time-out Long on the
   same socket after a has ended), the selector's time-out handler, the clock.  Nobody ever sends.
   FixDisarm = FALSE is the code as it is, TRUE a cancel that disarms the entry. *)
EXTENDS Integers, FiniteSets, TLC

CONSTANTS Short, Long, FixDisarm

VARIABLES
  now,
  entries,    \* armed timer-list entries of this socket: set of [owner, at]
  slot,       \* EventData.co: "none" | "a" | "b"
  pc,         \* [actor -> ...]
  started,    \* virtual time at which b's recv started
  res         \* [actor -> "none" | "cancel" | "timeout"]
vars == <<now, entries, slot, pc, started, res>>
MaxNow == Short + Long + 1

Init ==
  /\ now = 0 /\ entries = {} /\ slot = "none"
  /\ pc = [p \in {"a", "b", "x"} |-> CASE p = "a" -> "ix.read" [] p = "x" -> "ix.cancel" [] OTHER -> "ix.read2"]
  /\ started = 0 /\ res = [p \in {"a", "b"} |-> "none"]

\* a: arm the time-out, publish the coroutine (nobody sends: it suspends)
ARead ==
  /\ pc["a"] = "ix.read"
  /\ entries' = entries \cup {[owner |-> "a", at |-> now + Short]} /\ slot' = "a"
  /\ pc' = [pc EXCEPT !["a"] = "blocked"]
  /\ UNCHANGED <<now, started, res>>
\* x: CancelIoImpl::cancel - take the coroutine, schedule it (the scenario holds x until a is blocked)
XCancel ==
  /\ pc["x"] = "ix.cancel" /\ pc["a"] # "ix.read"
  /\ IF slot = "a"
       THEN /\ slot' = "none" /\ res' = [res EXCEPT !["a"] = "cancel"] /\ pc' = [pc EXCEPT !["x"] = "done", !["a"] = "done"]
            /\ entries' = (IF FixDisarm THEN {e \in entries : e.owner # "a"} ELSE entries)
       ELSE pc' = [pc EXCEPT !["x"] = "done"] /\ UNCHANGED <<slot, res, entries>>
  /\ UNCHANGED <<now, started>>
\* b: after a has ended, the same on the same socket with the long time-out
BRead ==
  /\ pc["b"] = "ix.read2" /\ pc["a"] = "done"
  /\ entries' = entries \cup {[owner |-> "b", at |-> now + Long]} /\ slot' = "b" /\ started' = now
  /\ pc' = [pc EXCEPT !["b"] = "blocked"]
  /\ UNCHANGED <<now, res>>
\* the selector's time-out handler: an expired entry takes whoever sits in the socket's slot
Fire ==
  \E e \in entries :
    /\ e.at <= now
    /\ entries' = entries \ {e}
    /\ IF slot # "none"
         THEN /\ res' = [res EXCEPT ![slot] = "timeout"] /\ pc' = [pc EXCEPT ![slot] = "done"] /\ slot' = "none"
         ELSE UNCHANGED <<res, pc, slot>>
    /\ UNCHANGED <<now, started>>
\* virtual time moves to the next expiry only when nobody else can move (as the harness' auto tick does)
Tick ==
  /\ now < MaxNow /\ ~(\E e \in entries : e.at <= now)
  /\ ~ENABLED ARead /\ ~ENABLED XCancel /\ ~ENABLED BRead
  /\ now' = now + 1
  /\ UNCHANGED <<entries, slot, pc, started, res>>
Terminal == pc["a"] = "done" /\ pc["b"] = "done" /\ pc["x"] = "done" /\ UNCHANGED vars
Next == ARead \/ XCancel \/ BRead \/ Fire \/ Tick \/ Terminal
Spec == Init /\ [][Next]_vars

\* a time-out is reported no earlier than the operation's own duration
NoEarlyTimeout == (res["b"] = "timeout") => now - started >= Long
\* an armed entry belongs to an operation that is still waiting (or the socket's slot is empty when it fires)
NoOrphanEntry == \A e \in entries : e.owner = "a" => pc["a"] # "done"
=============================================================================
