------------------------------- MODULE FdReuse -------------------------------
(* C17 ("no readiness event is missed"): the life cycle of a socket's registration with the selector against the
   life cycle of its file-descriptor NUMBER.

   A coroutine socket is registered with epoll when it is created (add_socket: EPOLL_CTL_ADD) and deregistered
   when its IoData is dropped (IoData::drop -> del_socket -> Selector::del_fd: EPOLL_CTL_DEL by fd NUMBER).
   The kernel hands out the lowest free fd number, and close() frees the number at once.  So the deregistration
   has to come BEFORE the close:

       TcpStream / UdpSocket / TcpListener :  struct { _io: IoData, sys: net::... }     (fields drop in order: DEL, close)
       CoIo<T> (UnixStream, UnixListener, UnixDatagram, every user type wrapped in CoIo), pinned tree:
                                              struct { inner: T, io: IoData }            (close, then DEL)

   With close first, another thread that creates a socket between the two steps gets the same number, registers it
   (same epoll instance: fd % workers) - and the late DEL of the dead socket removes the registration of the live one.
   That socket never sees a readiness event again: its reader stays suspended with data in the kernel (F26; found by a
   sub-agent's churn test on Unix sockets at HEAD, shown with the `fdreuse` scenario, repaired by swapping the two
   fields of CoIo).

   Actors: "a" drops its socket (steps close / iod.del, order by FixOrder), "b" creates a socket (socket() + ADD as
   one step: nobody else in the model touches b's number in between), blocks in a read, "w" writes to b's peer.
   FixOrder = FALSE is the pinned CoIo, TRUE the repaired one (and what TcpStream always did). *)
EXTENDS Integers, FiniteSets, TLC

CONSTANTS FixOrder

VARIABLES
  open,      \* set of fd numbers in use
  reg,       \* set of fd numbers registered with epoll
  fdA, fdB,  \* a's number; b's number (0 = none yet)
  pcA, pcB, pcW,
  data,      \* bytes written to b's peer and not yet read
  last

vars == <<open, reg, fdA, fdB, pcA, pcB, pcW, data, last>>
Fds == 1..3
L(a, s) == last' = <<a, s, -1>>
LowestFree == CHOOSE n \in Fds : n \notin open /\ \A m \in Fds : m \notin open => n <= m

Init ==
  /\ open = {1} /\ reg = {1} /\ fdA = 1 /\ fdB = 0
  /\ pcA = "fx.drop" /\ pcB = "fx.new" /\ pcW = "fx.write"
  /\ data = 0 /\ last = <<"", "", -1>>

(* ---- a: drop of the socket ---- *)
\* the scenario point in front of the drop; pinned CoIo: `inner` is dropped first - close() happens here
ADrop ==
  /\ pcA = "fx.drop" /\ L("a", "fx.drop")
  /\ IF FixOrder THEN UNCHANGED open ELSE open' = open \ {fdA}
  /\ pcA' = "iod.del"
  /\ UNCHANGED <<reg, fdA, fdB, pcB, pcW, data>>
\* IoData::drop: EPOLL_CTL_DEL by number (whatever socket owns that number now); repaired: the close follows
ADel ==
  /\ pcA = "iod.del" /\ L("a", "iod.del")
  /\ reg' = reg \ {fdA}
  /\ IF FixOrder THEN open' = open \ {fdA} ELSE UNCHANGED open
  /\ pcA' = "done"
  /\ UNCHANGED <<fdA, fdB, pcB, pcW, data>>

(* ---- b: a new socket, then a blocking read ---- *)
BNew ==
  /\ pcB = "fx.new" /\ L("b", "fx.new")
  /\ fdB' = LowestFree /\ open' = open \cup {LowestFree} /\ reg' = reg \cup {LowestFree}
  /\ pcB' = "fx.read"
  /\ UNCHANGED <<fdA, pcA, pcW, data>>
\* read: data there -> returns; else the coroutine suspends until the selector reports the socket readable
BRead ==
  /\ pcB = "fx.read" /\ L("b", "fx.read")
  /\ IF data > 0 THEN data' = data - 1 /\ pcB' = "done" ELSE UNCHANGED data /\ pcB' = "suspended"
  /\ UNCHANGED <<open, reg, fdA, fdB, pcA, pcW>>
\* the selector wakes a suspended reader only through the registration of its fd number (silent)
BWake ==
  /\ pcB = "suspended" /\ data > 0 /\ fdB \in reg
  /\ data' = data - 1 /\ pcB' = "done"
  /\ last' = <<"~", "wake", -1>>
  /\ UNCHANGED <<open, reg, fdA, fdB, pcA, pcW>>

(* ---- w: the peer writes one byte once b's socket exists ---- *)
WWrite ==
  /\ pcW = "fx.write" /\ fdB # 0 /\ L("w", "fx.write")
  /\ data' = data + 1 /\ pcW' = "done"
  /\ UNCHANGED <<open, reg, fdA, fdB, pcA, pcB>>

Terminal == pcA = "done" /\ pcW = "done" /\ pcB \in {"done", "suspended"} /\ ~ENABLED BWake /\ UNCHANGED vars
Next == ADrop \/ ADel \/ BNew \/ BRead \/ BWake \/ WWrite \/ Terminal
Spec == Init /\ [][Next]_vars
NextU == IF ENABLED BWake THEN BWake ELSE Next
SpecU == Init /\ [][NextU]_vars

MCInit == Init
MCNext == Next
MCNextU == NextU
MCSpec == Spec

(* ---- properties ---- *)
TypeOK == open \subseteq Fds /\ reg \subseteq Fds /\ fdB \in 0..3 /\ data \in 0..1
\* a live socket stays registered
LiveStaysRegistered == (fdB # 0 /\ fdB \in open) => fdB \in reg
\* the reader never stays suspended while the kernel has data for it
\* (a suspended reader with data pending must still be wakeable: its number is registered)
NoMissedReadiness == (pcB = "suspended" /\ data > 0) => fdB \in reg
=============================================================================
