SPECIFICATION Spec
CONSTANTS
  Total = 6
  Cap = 3
  MaxChunk = 2
INVARIANTS StreamPrefix EofOnlyAtEnd
CHECK_DEADLOCK FALSE
