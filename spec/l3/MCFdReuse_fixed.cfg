SPECIFICATION MCSpec
CONSTANTS
  FixOrder = TRUE
INVARIANTS TypeOK LiveStaysRegistered NoMissedReadiness
CHECK_DEADLOCK TRUE
