SPECIFICATION Spec
CONSTANTS
  NArrivals = 2
  SubRecheck = TRUE
  ClearBeforeSyscall = TRUE
INVARIANTS SlotImpliesSuspended NoMissedEdge AllDelivered
CHECK_DEADLOCK TRUE
