----------------------------- MODULE SpscQueue -----------------------------
(* may_queue/src/spsc.rs with the `inner_cache` feature (default):
   producer-side cache of consumed blocks  first .. last_head.  Blocks are addresses from a
   finite pool; a block handed out by alloc_node() is one the consumer has *left* (according
   to the producer's snapshot of head.block), its `next` is NOT reset (the code comments the
   reset out), slots are overwritten in place. *)
EXTENDS Naturals, FiniteSets, Sequences, TLC
CONSTANTS B, NAddr, NPush, NPop,
          RecycleInclusive    \* FALSE = as written; TRUE = mutant: alloc_node may hand out head.block itself
Addr == 1..NAddr
VARIABLES tailIdx, tailBlk, headIdx, headBlk, first, lastHead, next, slots, alive,
          pcP, kP, rnew, pcC, nC, rpush, popped, bad
vars == <<tailIdx, tailBlk, headIdx, headBlk, first, lastHead, next, slots, alive,
          pcP, kP, rnew, pcC, nC, rpush, popped, bad>>
Init == /\ tailIdx = 0 /\ tailBlk = 1 /\ headIdx = 0 /\ headBlk = 1 /\ first = 1 /\ lastHead = 1
        /\ next = [a \in Addr |-> 0] /\ slots = [a \in Addr |-> [i \in 0..B-1 |-> 0]]
        /\ alive = {1}
        /\ pcP = "push.write" /\ kP = 1 /\ rnew = 0 /\ pcC = "pop.load_tail" /\ nC = 0 /\ rpush = 0
        /\ popped = <<>> /\ bad = "ok"
Flag(c, m) == bad' = IF bad = "ok" /\ c THEN m ELSE bad
UNCH_C == UNCHANGED <<headIdx, headBlk, pcC, nC, rpush, popped>>
UNCH_P == UNCHANGED <<tailIdx, tailBlk, first, lastHead, pcP, kP, rnew>>
PWrite == /\ pcP = "push.write" /\ kP <= NPush
          /\ slots' = [slots EXCEPT ![tailBlk][tailIdx % B] = kP]
          /\ pcP' = IF (tailIdx + 1) % B = 0 THEN "push.alloc_check1" ELSE "push.publish"
          /\ UNCHANGED <<tailIdx, tailBlk, first, lastHead, next, alive, kP, rnew, bad>> /\ UNCH_C
\* alloc_node(): if first != last_head { take first }
PAlloc1 == /\ pcP = "push.alloc_check1"
           /\ IF first # lastHead THEN rnew' = first /\ first' = next[first] /\ pcP' = "push.link" /\ UNCHANGED lastHead
                                  ELSE pcP' = "push.alloc_snapshot" /\ UNCHANGED <<rnew, first, lastHead>>
           /\ UNCHANGED <<tailIdx, tailBlk, next, slots, alive, kP, bad>> /\ UNCH_C
\* last_head = head.block (a racy snapshot of the consumer's position); re-test
PAllocSnap == /\ pcP = "push.alloc_snapshot" /\ lastHead' = headBlk
              /\ IF first # headBlk \/ RecycleInclusive
                   THEN IF first # headBlk THEN rnew' = first /\ first' = next[first] /\ UNCHANGED alive
                                            ELSE rnew' = first /\ UNCHANGED <<first, alive>>      \* mutant
                   ELSE \E a \in Addr \ alive : rnew' = a /\ alive' = alive \cup {a} /\ UNCHANGED first
              /\ pcP' = "push.link"
              /\ UNCHANGED <<tailIdx, tailBlk, next, slots, kP, bad>> /\ UNCH_C
PLink == /\ pcP = "push.link" /\ next' = [next EXCEPT ![tailBlk] = rnew] /\ pcP' = "push.store_block"
         /\ UNCHANGED <<tailIdx, tailBlk, first, lastHead, slots, alive, kP, rnew, bad>> /\ UNCH_C
PStoreBlock == /\ pcP = "push.store_block" /\ tailBlk' = rnew /\ pcP' = "push.publish"
               /\ UNCHANGED <<tailIdx, first, lastHead, next, slots, alive, kP, rnew, bad>> /\ UNCH_C
PPublish == /\ pcP = "push.publish" /\ tailIdx' = tailIdx + 1 /\ kP' = kP + 1 /\ pcP' = "push.write"
            /\ UNCHANGED <<tailBlk, first, lastHead, next, slots, alive, rnew, bad>> /\ UNCH_C
CLoadTail == /\ pcC = "pop.load_tail" /\ nC < NPop /\ rpush' = tailIdx
             /\ IF headIdx = tailIdx THEN nC' = nC + 1 /\ UNCHANGED pcC ELSE pcC' = "pop.read" /\ UNCHANGED nC
             /\ UNCHANGED <<headIdx, headBlk, popped, next, slots, alive, bad>> /\ UNCH_P
CRead == /\ pcC = "pop.read"
         /\ popped' = Append(popped, slots[headBlk][headIdx % B])
         /\ pcC' = IF (headIdx + 1) % B = 0 THEN "pop.load_next" ELSE "pop.commit"
         /\ UNCHANGED <<headIdx, headBlk, nC, rpush, next, slots, alive, bad>> /\ UNCH_P
CLoadNext == /\ pcC = "pop.load_next" /\ headBlk' = next[headBlk] /\ pcC' = "pop.commit"
             /\ Flag(next[headBlk] = 0, "null next block")
             /\ UNCHANGED <<headIdx, nC, rpush, popped, next, slots, alive>> /\ UNCH_P
CCommit == /\ pcC = "pop.commit" /\ headIdx' = headIdx + 1 /\ nC' = nC + 1 /\ pcC' = "pop.load_tail"
           /\ UNCHANGED <<headBlk, rpush, popped, next, slots, alive, bad>> /\ UNCH_P
Done == kP > NPush /\ nC >= NPop
Next == PWrite \/ PAlloc1 \/ PAllocSnap \/ PLink \/ PStoreBlock \/ PPublish
        \/ CLoadTail \/ CRead \/ CLoadNext \/ CCommit \/ (Done /\ UNCHANGED vars)
Spec == Init /\ [][Next]_vars
FifoExact == \A i \in DOMAIN popped : popped[i] = i      \* single producer: exact sequence
NothingBad == bad = "ok"
=============================================================================
