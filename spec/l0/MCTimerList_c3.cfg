SPECIFICATION Spec
CONSTANTS
  Producers = {"p1", "p2"}
  NodesOf <- N1
  ConsProg <- C3
INVARIANTS NothingBad ConsumedOnce PopOrder ListIntact IsHeadSound IsHeadComplete
CHECK_DEADLOCK TRUE
