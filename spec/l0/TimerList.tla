------------------------------ MODULE TimerList ------------------------------
(* Literal model of may_queue/src/mpsc_list_v1.rs: a Vyukov MPSC list made
   doubly linked so that the consumer can remove() an entry through its handle.
   Naming follows the code: producers swap `head` (newest end); the consumer owns `tail`,
   which always points at a stub (the node popped last).  remove()/pop()/pop_if()/peek() are
   all called by the single consumer (the discipline timeout_list.rs follows). *)
EXTENDS Naturals, FiniteSets, Sequences, TLC

CONSTANTS Producers, NodesOf,      \* NodesOf[p] = sequence of node ids pushed by p, in order
          ConsProg                 \* sequence of <<op>> or <<"remove", n>>; op \in {"pop","pop_if_t","pop_if_f","peek"}
Stub == 0
NULL == 99
AllNodes == UNION {{NodesOf[p][i] : i \in DOMAIN NodesOf[p]} : p \in Producers}
Node == AllNodes \cup {Stub}

VARIABLES head, tail, prev, next, hasVal, link,
          pcP, kP, rprev, isHead, pushedAt,  \* producers; pushedAt = order of swap_head (linearization)
          pcC, ip, rnext, results,           \* consumer
          consumed, handleReady, emptyAtSwap, bad
vars == <<head, tail, prev, next, hasVal, link, pcP, kP, rprev, isHead, pushedAt,
          pcC, ip, rnext, results, consumed, handleReady, emptyAtSwap, bad>>

Init ==
  /\ head = Stub /\ tail = Stub
  /\ prev = [n \in Node |-> NULL] /\ next = [n \in Node |-> NULL]
  /\ hasVal = [n \in Node |-> n # Stub] /\ link = [n \in Node |-> TRUE]
  /\ pcP = [p \in Producers |-> "push.swap_head"] /\ kP = [p \in Producers |-> 1]
  /\ rprev = [p \in Producers |-> NULL] /\ isHead = [n \in AllNodes |-> "?"]
  /\ pushedAt = <<>>
  /\ pcC = "next" /\ ip = 1 /\ rnext = NULL /\ results = <<>>
  /\ consumed = <<>>              \* sequence of <<how, n>>
  /\ handleReady = {}             \* nodes whose push() has returned (handle exists)
  /\ emptyAtSwap = {}             \* ghost: nodes whose swap_head found every older entry consumed
  /\ bad = "ok"

Cur(p) == NodesOf[p][kP[p]]
Flag(c, m) == bad' = IF bad = "ok" /\ c THEN m ELSE bad
ConsumedSet == {consumed[i][2] : i \in DOMAIN consumed}
UNCH_C == UNCHANGED <<tail, pcC, ip, rnext, results, consumed>>
UNCH_P == UNCHANGED <<pcP, kP, rprev, isHead, pushedAt, handleReady, emptyAtSwap>>

PSwap(p) ==
  /\ pcP[p] = "push.swap_head" /\ kP[p] <= Len(NodesOf[p])
  /\ rprev' = [rprev EXCEPT ![p] = head] /\ head' = Cur(p)
  /\ pushedAt' = Append(pushedAt, Cur(p))
  /\ emptyAtSwap' = IF {pushedAt[i] : i \in DOMAIN pushedAt} \subseteq ConsumedSet
                      THEN emptyAtSwap \cup {Cur(p)} ELSE emptyAtSwap
  /\ pcP' = [pcP EXCEPT ![p] = "push.set_prev"]
  /\ UNCHANGED <<prev, next, hasVal, link, kP, isHead, handleReady, bad>> /\ UNCH_C
PSetPrev(p) ==
  /\ pcP[p] = "push.set_prev" /\ prev' = [prev EXCEPT ![Cur(p)] = rprev[p]]
  /\ pcP' = [pcP EXCEPT ![p] = "push.link_next"]
  /\ UNCHANGED <<head, next, hasVal, link, kP, rprev, isHead, pushedAt, handleReady, emptyAtSwap, bad>> /\ UNCH_C
PLinkNext(p) ==
  /\ pcP[p] = "push.link_next" /\ next' = [next EXCEPT ![rprev[p]] = Cur(p)]
  /\ pcP' = [pcP EXCEPT ![p] = "push.read_tail"]
  /\ UNCHANGED <<head, prev, hasVal, link, kP, rprev, isHead, pushedAt, handleReady, emptyAtSwap, bad>> /\ UNCH_C
PReadTail(p) ==
  /\ pcP[p] = "push.read_tail"
  /\ isHead' = [isHead EXCEPT ![Cur(p)] = IF tail = rprev[p] THEN "T" ELSE "F"]
  /\ handleReady' = handleReady \cup {Cur(p)}
  /\ kP' = [kP EXCEPT ![p] = kP[p] + 1] /\ pcP' = [pcP EXCEPT ![p] = "push.swap_head"]
  /\ UNCHANGED <<head, prev, next, hasVal, link, rprev, pushedAt, emptyAtSwap, bad>> /\ UNCH_C

Op == ConsProg[ip]
Ret(v) == /\ results' = Append(results, v) /\ ip' = ip + 1 /\ pcC' = "next"
CNext ==
  /\ pcC = "next" /\ ip <= Len(ConsProg)
  /\ (Op[1] = "remove" => Op[2] \in handleReady)      \* a handle exists only after push() returned
  /\ pcC' = IF Op[1] = "remove" THEN "remove.check_link" ELSE "c.load_head"
  /\ UNCHANGED <<head, tail, prev, next, hasVal, link, ip, rnext, results, consumed, bad>> /\ UNCH_P
CLoadHead ==
  /\ pcC = "c.load_head"
  /\ IF head = tail THEN Ret(<<"None">>) 
     ELSE /\ pcC' = IF Op[1] = "pop" THEN "pop.clear_link" ELSE "c.spin_next"
          /\ UNCHANGED <<results, ip>>
  /\ UNCHANGED <<head, tail, prev, next, hasVal, link, rnext, consumed, bad>> /\ UNCH_P
CPopClearLink ==
  /\ pcC = "pop.clear_link" /\ link' = [link EXCEPT ![tail] = FALSE] /\ pcC' = "c.spin_next"
  /\ UNCHANGED <<head, tail, prev, next, hasVal, ip, rnext, results, consumed, bad>> /\ UNCH_P
CSpinNext ==
  /\ pcC = "c.spin_next" /\ next[tail] # NULL /\ rnext' = next[tail]
  /\ Flag(~hasVal[next[tail]], "assert!((*next).value.is_some()) failed")
  /\ IF Op[1] = "peek" THEN Ret(<<"Peek", next[tail]>>) /\ UNCHANGED <<link>>
     ELSE IF Op[1] = "pop_if_f" THEN Ret(<<"None">>) /\ UNCHANGED link
     ELSE /\ pcC' = "pop.advance" /\ UNCHANGED <<results, ip>>
          /\ link' = IF Op[1] = "pop_if_t" THEN [link EXCEPT ![tail] = FALSE] ELSE link
  /\ UNCHANGED <<head, tail, prev, next, hasVal, consumed>> /\ UNCH_P
CAdvance ==
  /\ pcC = "pop.advance"
  /\ prev' = [prev EXCEPT ![rnext] = NULL] /\ tail' = rnext
  /\ hasVal' = [hasVal EXCEPT ![rnext] = FALSE]
  /\ consumed' = Append(consumed, <<"pop", rnext>>)
  /\ Ret(<<"Some", rnext>>)
  /\ UNCHANGED <<head, next, link, rnext, bad>> /\ UNCH_P
RCheckLink ==
  /\ pcC = "remove.check_link"
  /\ IF ~link[Op[2]] THEN Ret(<<"None">>) ELSE pcC' = "remove.check_prev" /\ UNCHANGED <<results, ip>>
  /\ UNCHANGED <<head, tail, prev, next, hasVal, link, rnext, consumed, bad>> /\ UNCH_P
RCheckPrev ==
  /\ pcC = "remove.check_prev"
  /\ IF prev[Op[2]] = NULL THEN Ret(<<"None">>) ELSE pcC' = "remove.load_next" /\ UNCHANGED <<results, ip>>
  /\ UNCHANGED <<head, tail, prev, next, hasVal, link, rnext, consumed, bad>> /\ UNCH_P
RLoadNext ==
  /\ pcC = "remove.load_next" /\ rnext' = next[Op[2]]
  /\ IF next[Op[2]] = NULL THEN Ret(<<"None">>) ELSE pcC' = "remove.unlink" /\ UNCHANGED <<results, ip>>
  /\ UNCHANGED <<head, tail, prev, next, hasVal, link, consumed, bad>> /\ UNCH_P
RUnlink ==
  /\ pcC = "remove.unlink"
  /\ LET n == Op[2] IN
       /\ link' = [link EXCEPT ![n] = FALSE]
       /\ prev' = [prev EXCEPT ![rnext] = prev[n]]
       /\ next' = [next EXCEPT ![prev[n]] = rnext]
       /\ hasVal' = [hasVal EXCEPT ![n] = FALSE]
       /\ Flag(~hasVal[n], "remove returned an already consumed value")
       /\ consumed' = Append(consumed, <<"remove", n>>)
       /\ Ret(<<"Some", n>>)
  /\ UNCHANGED <<head, tail, rnext>> /\ UNCH_P

ProducersDone == \A p \in Producers : kP[p] > Len(NodesOf[p])
AllOver == ProducersDone /\ pcC = "next" /\ ip > Len(ConsProg)
Stutter == AllOver /\ UNCHANGED vars
Next == \/ \E p \in Producers : PSwap(p) \/ PSetPrev(p) \/ PLinkNext(p) \/ PReadTail(p)
        \/ CNext \/ CLoadHead \/ CPopClearLink \/ CSpinNext \/ CAdvance
        \/ RCheckLink \/ RCheckPrev \/ RLoadNext \/ RUnlink \/ Stutter
Spec == Init /\ [][Next]_vars

-----------------------------------------------------------------------------
NothingBad   == bad = "ok"
ConsumedOnce == Cardinality(ConsumedSet) = Len(consumed)
Pos(n) == CHOOSE i \in DOMAIN pushedAt : pushedAt[i] = n
\* pops come out in push (swap_head) order
PopOrder == \A i, j \in DOMAIN consumed :
              (i < j /\ consumed[i][1] = "pop" /\ consumed[j][1] = "pop") => Pos(consumed[i][2]) < Pos(consumed[j][2])
\* walking next-pointers from the consumer's stub reaches exactly the unconsumed, fully linked
\* entries, in push order: the list stays intact under removes
RECURSIVE Walk(_, _)
Walk(n, fuel) == IF next[n] = NULL \/ fuel = 0 THEN <<>> ELSE <<next[n]>> \o Walk(next[n], fuel - 1)
Linked == {n \in AllNodes : \E p \in Producers : \E i \in DOMAIN NodesOf[p] :
              NodesOf[p][i] = n /\ (i < kP[p] \/ (i = kP[p] /\ pcP[p] = "push.read_tail"))}
ListIntact ==
  (pcC = "next") =>
     LET wk == Walk(tail, Cardinality(Node)) IN
       /\ \A i \in DOMAIN wk : wk[i] \notin ConsumedSet
       /\ \A i, j \in DOMAIN wk : i < j => Pos(wk[i]) < Pos(wk[j])
       /\ \A n \in Linked \ ConsumedSet :
             (\A m \in AllNodes : (m \in DOMAIN [x \in {pushedAt[k] : k \in DOMAIN pushedAt} |-> 0] /\ Pos(m) < Pos(n)) => m \in Linked)
             => \E i \in DOMAIN wk : wk[i] = n
\* the head report: sound and complete w.r.t. "found the list empty"
IsHeadSound    == \A n \in AllNodes : isHead[n] = "T" =>
                     \A m \in AllNodes : (m \in {pushedAt[k] : k \in DOMAIN pushedAt} /\ Pos(m) < Pos(n)) => m \in ConsumedSet
IsHeadComplete == \A n \in AllNodes : (isHead[n] = "F" /\ n \in emptyAtSwap) => n \in ConsumedSet
=============================================================================
