---- MODULE MCSpmcQueue ----
EXTENDS SpmcQueue
Prog1 == <<"push", "push", "lpop", "push">>
Ops1 == [s \in {"s1", "s2"} |-> IF s = "s1" THEN "pop" ELSE "bulk"]
Ops2 == [s \in {"s1"} |-> "bulk"]
Ops3 == [s \in {"s1", "s2"} |-> "pop"]
Prog2 == <<"push", "push", "push", "lpop", "push", "lpop", "push">>
Prog3 == <<"push", "lpop", "push", "push", "lpop", "lpop", "push", "push", "lpop">>
ProgA == <<"push","push","push","lpop","lpop","lpop","push","push","lpop","push","lpop">>
OpsA == [s \in {"s1"} |-> "pop"]
OpsB == [s \in {"s1","s2"} |-> IF s = "s1" THEN "pop" ELSE "bulk"]
ProgB == <<"push","push","push","lpop","lpop","lpop","push","lpop","push","lpop","push","lpop">>
====
