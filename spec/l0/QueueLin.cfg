SPECIFICATION Spec
CONSTRAINT Progress
POSTCONDITION Accepted
CHECK_DEADLOCK FALSE
