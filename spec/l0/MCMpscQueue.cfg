SPECIFICATION Spec
CONSTANTS
  Producers = {p1, p2}
  NPush = 2
  B = 4
  Start = 2
  NPop = 4
  SpinOnReserved = TRUE
INVARIANTS NoDuplicate NoInvented PerProducerOrder RealTimeFifo NoneOnlyIfMaybeEmpty NoUseAfterFree SlotOnce
CHECK_DEADLOCK TRUE
