------------------------------- MODULE QueueLin -------------------------------
(* Trace validation for C03 / C04 / C19: are the histories recorded from the real may_queue
   queues (harness scenario `queue`, one verification point before every atomic access, schedules
   chosen by the harness) behaviours of the abstract queue?

   Input: NDJSON (environment variable TRACE), many executions one after the other:
     {"e":"kind","op":<mpsc|spsc|tlist|spmcq|steal>,"i":[initial content],"r":[values left in the queue at the end]}   starts an execution
     {"e":"call","t":<actor>,"op":<op>,"v":<argument>,"r":[the result this call is going to return]}
     {"e":"ret", "t":<actor>,"op":<op>,"v":<argument>,"r":[result values]}
   in the order of a global sequence counter taken inside the call (call) and after it (ret).

   A call becomes pending; a silent Lin(t) step applies it to the abstract state at some moment between
   its call and its return and must produce exactly the recorded result (the harness writes the
   result into the call record too, so the search neither branches on it nor looks ahead); Ret consumes the return.  Linearization points
   commute with other actors' call events, so w.l.o.g. they are taken only immediately before some
   return.  The removable list's push has two points: the insertion and, later, the head report.
   An execution is accepted when some interleaving of Lin steps consumes all its records and the
   abstract content equals what was left in the real queue.  Acceptance of the whole file is
   reported by the POSTCONDITION (TLCGet(1) = highest record index reached). *)
EXTENDS Naturals, Sequences, FiniteSets, Json, IOUtils, TLC
Rec == ndJsonDeserialize(IOEnv.TRACE)
N == Len(Rec)
Actors == {Rec[i].t : i \in DOMAIN Rec} \ {""}
VARIABLES q,       \* abstract content: a sequence (FIFO kinds) - for the work-stealing kinds only its set matters
          pend,    \* actor -> [op, v, phase]   phase 0 = called, 1 = linearized (tlist push: 1 = inserted, 2 = reported)
          l,       \* next record
          kind, left, ownerLast
vars == <<q, pend, l, kind, left, ownerLast>>
None == [op |-> "none", v |-> 0, phase |-> 0, r |-> <<>>]
Bag == kind \in {"spmcq", "steal"}
Range(s) == {s[i] : i \in DOMAIN s}

Init == q = <<>> /\ pend = [t \in Actors |-> None] /\ l = 1 /\ kind = "" /\ left = <<>> /\ ownerLast = 0 /\ TLCSet(1, 1)

\* an execution starts: the previous one must be complete and its abstract content what was left
Start ==
  /\ l <= N /\ Rec[l].e = "kind"
  /\ \A t \in Actors : pend[t] = None
  /\ (IF Bag THEN Range(q) = Range(left) ELSE q = left)
  /\ q' = Rec[l].i /\ kind' = Rec[l].op /\ left' = Rec[l].r /\ ownerLast' = 0 /\ l' = l + 1 /\ UNCHANGED pend
Finish == /\ l = N + 1 /\ (IF Bag THEN Range(q) = Range(left) ELSE q = left) /\ \A t \in Actors : pend[t] = None
          /\ l' = N + 2 /\ UNCHANGED <<q, pend, kind, left, ownerLast>>

Call ==
  /\ l <= N /\ Rec[l].e = "call" /\ pend[Rec[l].t] = None
  /\ pend' = [pend EXCEPT ![Rec[l].t] = [op |-> Rec[l].op, v |-> Rec[l].v, phase |-> 0, r |-> Rec[l].r]]
  /\ l' = l + 1 /\ UNCHANGED <<q, kind, left, ownerLast>>

B(b) == IF b THEN 1 ELSE 0
IsPrefix(s, t) == Len(s) <= Len(t) /\ \A i \in 1..Len(s) : s[i] = t[i]
Drop(s, n) == SubSeq(s, n + 1, Len(s))
Without(s, v) == SelectSeq(s, LAMBDA x : x # v)
Increasing(s) == \A i \in 1..(Len(s) - 1) : s[i] < s[i + 1]

Lin(t) ==
  /\ pend[t].op # "none" /\ l <= N /\ Rec[l].e = "ret"
  /\ LET r == pend[t].r
         o == pend[t].op
         v == pend[t].v
         ph == pend[t].phase
     IN
     /\ IF kind = "tlist" /\ o = "push" THEN ph < 2 ELSE ph = 0
     /\ pend' = [pend EXCEPT ![t].phase = ph + 1]
     /\ CASE o = "push" /\ (kind # "tlist" \/ ph = 0) -> q' = Append(q, v) /\ UNCHANGED ownerLast
          \* head report: "my entry is the first one now"
          [] o = "push" /\ kind = "tlist" /\ ph = 1 -> r = <<B(q # <<>> /\ Head(q) = v)>> /\ UNCHANGED <<q, ownerLast>>
          [] o = "pop" /\ ~Bag ->
               /\ (IF q = <<>> THEN r = <<>> /\ q' = q ELSE r = <<Head(q)>> /\ q' = Tail(q)) /\ UNCHANGED ownerLast
          [] o = "popif_even" ->
               /\ (IF q = <<>> \/ Head(q) % 2 # 0 THEN r = <<>> /\ q' = q ELSE r = <<Head(q)>> /\ q' = Tail(q)) /\ UNCHANGED ownerLast
          [] o = "peek" -> r = (IF q = <<>> THEN <<>> ELSE <<Head(q)>>) /\ UNCHANGED <<q, ownerLast>>
          [] o = "bulk" /\ ~Bag ->
               /\ (r = <<>> => q = <<>>) /\ IsPrefix(r, q) /\ q' = Drop(q, Len(r)) /\ UNCHANGED ownerLast
          [] o = "len" -> r = <<Len(q)>> /\ UNCHANGED <<q, ownerLast>>
          [] o = "empty" -> r = <<B(q = <<>>)>> /\ UNCHANGED <<q, ownerLast>>
          \* Entry::remove: nothing (a no-op), or exactly its entry, which must still be in the list
          [] o = "rm" -> /\ (r = <<>> \/ (r = <<v>> /\ v \in Range(q)))
                         /\ q' = (IF r = <<>> THEN q ELSE Without(q, v)) /\ UNCHANGED ownerLast
          \* work-stealing queue: every task to exactly one taker; the owner's pops and a batch in push order
          [] o \in {"pop", "bulk", "steal"} /\ Bag ->
               /\ (r = <<>> => q = <<>>)
               /\ Range(r) \subseteq Range(q) /\ Cardinality(Range(r)) = Len(r) /\ Increasing(r)
               /\ q' = SelectSeq(q, LAMBDA x : x \notin Range(r))
               /\ IF kind = "steal" /\ o = "pop" /\ r # <<>>
                    THEN r[1] > ownerLast /\ ownerLast' = r[1]
                    ELSE UNCHANGED ownerLast
          [] OTHER -> FALSE
  /\ UNCHANGED <<l, kind, left>>

Ret ==
  /\ l <= N /\ Rec[l].e = "ret"
  /\ pend[Rec[l].t].phase = (IF kind = "tlist" /\ pend[Rec[l].t].op = "push" THEN 2 ELSE 1)
  /\ Rec[l].r = pend[Rec[l].t].r /\ Rec[l].op = pend[Rec[l].t].op
  /\ pend' = [pend EXCEPT ![Rec[l].t] = None] /\ l' = l + 1 /\ UNCHANGED <<q, kind, left, ownerLast>>

Next == Start \/ Call \/ Ret \/ Finish \/ \E t \in Actors : Lin(t)
Spec == Init /\ [][Next]_vars
\* state constraint used as a progress register (single worker)
Progress == TLCSet(1, IF TLCGet(1) < l THEN l ELSE TLCGet(1))
Kinds(upto) == Cardinality({i \in 1..upto : i <= N /\ Rec[i].e = "kind"})
Accepted ==
  LET m == TLCGet(1)
      ok == m = N + 2
  IN  /\ PrintT(<<"TRACEVAL", "accepted", IF ok THEN Kinds(N) ELSE Kinds(m) - 1, "rejected", IF ok THEN 0 ELSE 1>>)
      /\ (ok \/ PrintT(<<"TRACEVAL first_rejected", m, IF m <= N THEN Rec[m] ELSE "end: content of the queue differs from the abstract content">>))
=============================================================================
