SPECIFICATION Spec
CONSTANTS
  B = 4
  Start = 2
  NAddr = 3
  OwnerProg <- Prog1
  Stealers = {"s1", "s2"}
  StealerOp <- Ops1
INVARIANTS NothingBad TakenOnce OwnerOrder BatchOrder NothingLost
CHECK_DEADLOCK TRUE
