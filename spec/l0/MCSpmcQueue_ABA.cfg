\* B = 2, two addresses: reaches the ABA over-claim (NoOverClaim is a diagnostic, expected to fail);
\* the properties hold
SPECIFICATION Spec
CONSTANTS
  B = 2
  Start = 0
  NAddr = 2
  OwnerProg <- ProgB
  Stealers = {"s1"}
  StealerOp <- OpsA
INVARIANTS NothingBad TakenOnce OwnerOrder BatchOrder NothingLost
CHECK_DEADLOCK TRUE
