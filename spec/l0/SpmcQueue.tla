----------------------------- MODULE SpmcQueue -----------------------------
(* Literal model of may_queue/src/spmc.rs:
     owner:    push(), local_pop()
     stealers: pop(), bulk_pop()  (steal_into = bulk_pop + re-queue, see BatchOrder)
   head is the packed word (block address, slot id, bit63).  Blocks live at addresses from a
   finite pool; a freed address can be handed out again by the next allocation, so the ABA
   cases the code comments mention are part of the state space.  One action per atomic
   operation; pc labels = hook site names. *)
EXTENDS Naturals, FiniteSets, Sequences, TLC

CONSTANTS B,            \* block size (32 in the code; the state space depends on #ops)
          Start,        \* index at which the scenario starts (sequential prefix)
          NAddr,        \* size of the address pool
          OwnerProg,    \* sequence over {"push","lpop"}
          Stealers, StealerOp   \* StealerOp[s] \in {"pop","bulk"}

ASSUME Start < B
Addr == 1..NAddr
NoVal == 0

VARIABLES head, tailIdx, tailBlk, blk, slots,
          pcO, ip, oh, ob, opop, onew, oret,          \* owner
          pcS, h, pidx, tblk, bst, popi, nid, end,    \* stealers
          got,          \* actor -> sequence of values it obtained ("o" for the owner)
          nextVal, pushed, skipped, bad

vars == <<head, tailIdx, tailBlk, blk, slots, pcO, ip, oh, ob, opop, onew, oret,
          pcS, h, pidx, tblk, bst, popi, nid, end, got, nextVal, pushed, skipped, bad>>

Dead == [live |-> FALSE, start |-> 0, used |-> 0, next |-> 0]
Init ==
  /\ head = [a |-> 1, id |-> Start, bit |-> FALSE]
  /\ tailIdx = Start /\ tailBlk = 1
  /\ blk = [a \in Addr |-> IF a = 1 THEN [live |-> TRUE, start |-> 0, used |-> B - Start, next |-> 0]
                                    ELSE Dead]
  /\ slots = {}
  /\ pcO = "next" /\ ip = 1 /\ oh = [a |-> 0, id |-> 0] /\ ob = 0 /\ opop = 0 /\ onew = 0
  /\ oret = NoVal
  /\ pcS = [s \in Stealers |-> StealerOp[s] \o ".load_head"]
  /\ h = [s \in Stealers |-> [a |-> 0, id |-> 0]]
  /\ pidx = [s \in Stealers |-> 0] /\ tblk = [s \in Stealers |-> 0]
  /\ bst = [s \in Stealers |-> 0] /\ popi = [s \in Stealers |-> 0]
  /\ nid = [s \in Stealers |-> 0] /\ end = [s \in Stealers |-> 0]
  /\ got = [x \in Stealers \cup {"o"} |-> <<>>]
  /\ nextVal = 1 /\ pushed = {} /\ skipped = {} /\ bad = "ok"

SlotVal(a, i) == IF \E t \in slots : t[1] = a /\ t[2] = i
                   THEN (CHOOSE t \in slots : t[1] = a /\ t[2] = i)[3] ELSE NoVal
Flag(cond, msg) == bad' = IF bad = "ok" /\ cond THEN msg ELSE bad
\* fetch_sub(used, n); free when it reaches 0
MarkRead(a, n) ==
  IF blk[a].used = n
    THEN /\ blk' = [blk EXCEPT ![a] = Dead]
         /\ slots' = {t \in slots : t[1] # a}
    ELSE /\ blk' = [blk EXCEPT ![a].used = blk[a].used - n]
         /\ UNCHANGED slots

UNCH_S == UNCHANGED <<pcS, h, pidx, tblk, bst, popi, nid, end>>
UNCH_O == UNCHANGED <<pcO, ip, oh, ob, opop, onew, oret>>
UNCH_G == UNCHANGED <<nextVal, pushed, skipped>>

-----------------------------------------------------------------------------
(* owner *)
ONext ==
  /\ pcO = "next" /\ ip <= Len(OwnerProg)
  /\ pcO' = IF OwnerProg[ip] = "push" THEN "push.write" ELSE "lpop.load_head"
  /\ UNCHANGED <<head, tailIdx, tailBlk, blk, slots, ip, oh, ob, opop, onew, oret, got, bad>>
  /\ UNCH_S /\ UNCH_G
OFinish(v) ==     \* the current owner op returns (v = NoVal for push / None)
  /\ ip' = ip + 1 /\ pcO' = "next"
  /\ got' = IF v = NoVal THEN got ELSE [got EXCEPT !["o"] = Append(@, v)]

OPushWrite ==
  /\ pcO = "push.write"
  /\ slots' = slots \cup {<<tailBlk, tailIdx % B, nextVal>>}
  /\ pushed' = pushed \cup {nextVal} /\ nextVal' = nextVal + 1
  /\ pcO' = IF (tailIdx + 1) % B = 0 THEN "push.alloc" ELSE "push.publish"
  /\ Flag(~blk[tailBlk].live, "uaf: push.write")
  /\ UNCHANGED <<head, tailIdx, tailBlk, blk, ip, oh, ob, opop, onew, oret, got, skipped>> /\ UNCH_S
OPushAlloc ==
  /\ pcO = "push.alloc"
  /\ \E a \in Addr : /\ ~blk[a].live
                     /\ blk' = [blk EXCEPT ![a] = [live |-> TRUE, start |-> tailIdx + 1, used |-> B, next |-> 0]]
                     /\ onew' = a
  /\ pcO' = "push.link"
  /\ UNCHANGED <<head, tailIdx, tailBlk, slots, ip, oh, ob, opop, oret, got, bad>> /\ UNCH_S /\ UNCH_G
OPushLink ==
  /\ pcO = "push.link" /\ blk' = [blk EXCEPT ![tailBlk].next = onew] /\ pcO' = "push.store_block"
  /\ UNCHANGED <<head, tailIdx, tailBlk, slots, ip, oh, ob, opop, onew, oret, got, bad>> /\ UNCH_S /\ UNCH_G
OPushStoreBlock ==
  /\ pcO = "push.store_block" /\ tailBlk' = onew /\ pcO' = "push.publish"
  /\ UNCHANGED <<head, tailIdx, blk, slots, ip, oh, ob, opop, onew, oret, got, bad>> /\ UNCH_S /\ UNCH_G
OPushPublish ==
  /\ pcO = "push.publish" /\ tailIdx' = tailIdx + 1 /\ OFinish(NoVal)
  /\ UNCHANGED <<head, tailBlk, blk, slots, oh, ob, opop, onew, oret, bad>> /\ UNCH_S /\ UNCH_G

OLoadHead ==
  /\ pcO = "lpop.load_head" /\ oh' = [a |-> head.a, id |-> head.id] /\ pcO' = "lpop.cas"
  /\ UNCHANGED <<head, tailIdx, tailBlk, blk, slots, ip, ob, opop, onew, oret, got, bad>> /\ UNCH_S /\ UNCH_G
OCas ==
  /\ pcO = "lpop.cas"
  /\ IF oh.a = tailBlk /\ oh.id >= tailIdx % B
       THEN OFinish(NoVal) /\ UNCHANGED <<head, oh>>
       ELSE IF head = [a |-> oh.a, id |-> oh.id, bit |-> FALSE]
              THEN /\ head' = IF oh.id # B - 1 THEN [head EXCEPT !.id = oh.id + 1]
                                               ELSE [head EXCEPT !.bit = TRUE]
                   /\ pcO' = "lpop.load_start" /\ UNCHANGED <<oh, ip, got>>
              ELSE oh' = [a |-> head.a, id |-> head.id] /\ UNCHANGED <<head, pcO, ip, got>>
  /\ UNCHANGED <<tailIdx, tailBlk, blk, slots, ob, opop, onew, oret, bad>> /\ UNCH_S /\ UNCH_G
OLoadStart ==
  /\ pcO = "lpop.load_start"
  /\ LET st == blk[oh.a].start  pi == st + oh.id IN
       /\ ob' = st /\ opop' = pi
       /\ pcO' = IF oh.id = B - 1
                   THEN IF pi >= tailIdx THEN "lpop.restore_head" ELSE "lpop.load_next"
                   ELSE IF pi >= tailIdx THEN "lpop.skip_slot" ELSE "lpop.read_slot"
  /\ Flag(~blk[oh.a].live, "uaf: lpop.load_start")
  /\ UNCHANGED <<head, tailIdx, tailBlk, blk, slots, ip, oh, onew, oret, got>> /\ UNCH_S /\ UNCH_G
ORestore ==
  /\ pcO = "lpop.restore_head" /\ head' = [a |-> oh.a, id |-> oh.id, bit |-> FALSE] /\ OFinish(NoVal)
  /\ UNCHANGED <<tailIdx, tailBlk, blk, slots, oh, ob, opop, onew, oret, bad>> /\ UNCH_S /\ UNCH_G
OLoadNext ==
  /\ pcO = "lpop.load_next" /\ onew' = blk[oh.a].next /\ pcO' = "lpop.store_head"
  /\ UNCHANGED <<head, tailIdx, tailBlk, blk, slots, ip, oh, ob, opop, oret, got, bad>> /\ UNCH_S /\ UNCH_G
OStoreHead ==
  /\ pcO = "lpop.store_head" /\ head' = [a |-> onew, id |-> 0, bit |-> FALSE] /\ pcO' = "lpop.read_slot"
  /\ Flag(onew = 0, "null next: lpop")
  /\ UNCHANGED <<tailIdx, tailBlk, blk, slots, ip, oh, ob, opop, onew, oret, got>> /\ UNCH_S /\ UNCH_G
OSkip ==          \* assert_eq!(pop_index, push_index); tail.index = push_index + 1
  /\ pcO = "lpop.skip_slot" /\ tailIdx' = tailIdx + 1 /\ skipped' = skipped \cup {tailIdx}
  /\ oret' = NoVal /\ pcO' = "lpop.mark_read"
  /\ Flag(opop # tailIdx, "assert_eq(pop_index, push_index) failed")
  /\ UNCHANGED <<head, tailBlk, blk, slots, ip, oh, ob, opop, onew, got, nextVal, pushed>> /\ UNCH_S
ORead ==
  /\ pcO = "lpop.read_slot" /\ oret' = SlotVal(oh.a, oh.id) /\ pcO' = "lpop.mark_read"
  /\ Flag(SlotVal(oh.a, oh.id) = NoVal, "uninit slot read: lpop")
  /\ UNCHANGED <<head, tailIdx, tailBlk, blk, slots, ip, oh, ob, opop, onew, got>> /\ UNCH_S /\ UNCH_G
OMark ==
  /\ pcO = "lpop.mark_read" /\ MarkRead(oh.a, 1) /\ OFinish(oret)
  /\ UNCHANGED <<head, tailIdx, tailBlk, oh, ob, opop, onew, oret, bad>> /\ UNCH_S /\ UNCH_G

-----------------------------------------------------------------------------
(* stealers; K is "pop" or "bulk" *)
SGoto(s, l) == pcS' = [pcS EXCEPT ![s] = l]
SDone(s, vs) == /\ SGoto(s, "done") /\ got' = [got EXCEPT ![s] = @ \o vs]
K(s) == StealerOp[s]

SLoadHead(s) ==
  /\ pcS[s] = K(s) \o ".load_head" /\ h' = [h EXCEPT ![s] = [a |-> head.a, id |-> head.id]]
  /\ SGoto(s, K(s) \o ".load_push")
  /\ UNCHANGED <<head, tailIdx, tailBlk, blk, slots, pidx, tblk, bst, popi, nid, end, got, bad>> /\ UNCH_O /\ UNCH_G
SLoadPush(s) ==
  /\ pcS[s] = K(s) \o ".load_push" /\ pidx' = [pidx EXCEPT ![s] = tailIdx] /\ SGoto(s, K(s) \o ".load_tblk")
  /\ UNCHANGED <<head, tailIdx, tailBlk, blk, slots, h, tblk, bst, popi, nid, end, got, bad>> /\ UNCH_O /\ UNCH_G
SLoadTblk(s) ==
  /\ pcS[s] = K(s) \o ".load_tblk" /\ tblk' = [tblk EXCEPT ![s] = tailBlk] /\ SGoto(s, K(s) \o ".cas")
  /\ UNCHANGED <<head, tailIdx, tailBlk, blk, slots, h, pidx, bst, popi, nid, end, got, bad>> /\ UNCH_O /\ UNCH_G

SCasPop(s) ==
  /\ pcS[s] = "pop.cas"
  /\ IF h[s].a = tblk[s] /\ h[s].id >= pidx[s] % B
       THEN SDone(s, <<>>) /\ UNCHANGED <<head, h>>
       ELSE IF head = [a |-> h[s].a, id |-> h[s].id, bit |-> FALSE]
              THEN /\ head' = IF h[s].id # B - 1 THEN [head EXCEPT !.id = h[s].id + 1]
                                                 ELSE [head EXCEPT !.bit = TRUE]
                   /\ SGoto(s, "pop.load_start") /\ UNCHANGED <<h, got>>
              ELSE /\ h' = [h EXCEPT ![s] = [a |-> head.a, id |-> head.id]]
                   /\ SGoto(s, "pop.load_push") /\ UNCHANGED <<head, got>>
  /\ UNCHANGED <<tailIdx, tailBlk, blk, slots, pidx, tblk, bst, popi, nid, end, bad>> /\ UNCH_O /\ UNCH_G
SLoadStartPop(s) ==
  /\ pcS[s] = "pop.load_start"
  /\ bst' = [bst EXCEPT ![s] = blk[h[s].a].start]
  /\ popi' = [popi EXCEPT ![s] = blk[h[s].a].start + h[s].id]
  /\ SGoto(s, IF h[s].id = B - 1 THEN "pop.reload_push" ELSE "pop.wait_owner")
  /\ Flag(~blk[h[s].a].live, "uaf: pop.load_start")
  /\ UNCHANGED <<head, tailIdx, tailBlk, blk, slots, h, pidx, tblk, nid, end, got>> /\ UNCH_O /\ UNCH_G
SReloadPushPop(s) ==
  /\ pcS[s] = "pop.reload_push"
  /\ SGoto(s, IF popi[s] >= tailIdx THEN "pop.restore_head" ELSE "pop.load_next")
  /\ UNCHANGED <<head, tailIdx, tailBlk, blk, slots, h, pidx, tblk, bst, popi, nid, end, got, bad>> /\ UNCH_O /\ UNCH_G
SRestore(s) ==
  /\ pcS[s] = K(s) \o ".restore_head"
  /\ head' = [a |-> h[s].a, id |-> h[s].id, bit |-> FALSE] /\ SDone(s, <<>>)
  /\ UNCHANGED <<tailIdx, tailBlk, blk, slots, h, pidx, tblk, bst, popi, nid, end, bad>> /\ UNCH_O /\ UNCH_G
SLoadNext(s) ==
  /\ pcS[s] = K(s) \o ".load_next" /\ nid' = [nid EXCEPT ![s] = blk[h[s].a].next]
  /\ SGoto(s, K(s) \o ".store_head")
  /\ UNCHANGED <<head, tailIdx, tailBlk, blk, slots, h, pidx, tblk, bst, popi, end, got, bad>> /\ UNCH_O /\ UNCH_G
SStoreHeadNext(s) ==
  /\ pcS[s] = K(s) \o ".store_head" /\ head' = [a |-> nid[s], id |-> 0, bit |-> FALSE]
  /\ SGoto(s, IF K(s) = "pop" THEN "pop.read_slot" ELSE "bulk.copy")
  /\ Flag(nid[s] = 0, "null next: stealer")
  /\ UNCHANGED <<tailIdx, tailBlk, blk, slots, h, pidx, tblk, bst, popi, nid, end, got>> /\ UNCH_O /\ UNCH_G
SWaitOwnerPop(s) ==
  /\ pcS[s] = "pop.wait_owner" /\ popi[s] < tailIdx /\ SGoto(s, "pop.read_slot")
  /\ UNCHANGED <<head, tailIdx, tailBlk, blk, slots, h, pidx, tblk, bst, popi, nid, end, got, bad>> /\ UNCH_O /\ UNCH_G
SReadPop(s) ==
  /\ pcS[s] = "pop.read_slot" /\ SGoto(s, "pop.mark_read")
  /\ end' = [end EXCEPT ![s] = SlotVal(h[s].a, h[s].id)]      \* value register
  /\ Flag(SlotVal(h[s].a, h[s].id) = NoVal /\ popi[s] \notin skipped, "uninit slot read: pop")
  /\ UNCHANGED <<head, tailIdx, tailBlk, blk, slots, h, pidx, tblk, bst, popi, nid, got>> /\ UNCH_O /\ UNCH_G
SMarkPop(s) ==
  /\ pcS[s] = "pop.mark_read" /\ MarkRead(h[s].a, 1)
  /\ SDone(s, IF end[s] = NoVal THEN <<>> ELSE <<end[s]>>)
  /\ UNCHANGED <<head, tailIdx, tailBlk, h, pidx, tblk, bst, popi, nid, end, bad>> /\ UNCH_O /\ UNCH_G

SCasBulk(s) ==
  /\ pcS[s] = "bulk.cas"
  /\ LET pushId == pidx[s] % B
         newId  == IF h[s].a # tblk[s] THEN 0 ELSE pushId IN
     IF h[s].a = tblk[s] /\ h[s].id >= pushId
       THEN SDone(s, <<>>) /\ UNCHANGED <<head, h, nid>>
       ELSE IF head = [a |-> h[s].a, id |-> h[s].id, bit |-> FALSE]
              THEN /\ head' = IF newId = 0 THEN [head EXCEPT !.bit = TRUE] ELSE [head EXCEPT !.id = newId]
                   /\ nid' = [nid EXCEPT ![s] = newId]
                   /\ SGoto(s, "bulk.load_start") /\ UNCHANGED <<h, got>>
              ELSE /\ h' = [h EXCEPT ![s] = [a |-> head.a, id |-> head.id]]
                   /\ SGoto(s, "bulk.load_push") /\ UNCHANGED <<head, got, nid>>
  /\ UNCHANGED <<tailIdx, tailBlk, blk, slots, pidx, tblk, bst, popi, end, bad>> /\ UNCH_O /\ UNCH_G
SLoadStartBulk(s) ==
  /\ pcS[s] = "bulk.load_start"
  /\ bst' = [bst EXCEPT ![s] = blk[h[s].a].start]
  /\ popi' = [popi EXCEPT ![s] = blk[h[s].a].start + h[s].id]
  /\ IF nid[s] = 0 THEN SGoto(s, "bulk.reload_push") /\ UNCHANGED end
                   ELSE SGoto(s, "bulk.wait_owner") /\ end' = [end EXCEPT ![s] = blk[h[s].a].start + nid[s]]
  /\ Flag(~blk[h[s].a].live, "uaf: bulk.load_start")
  /\ UNCHANGED <<head, tailIdx, tailBlk, blk, slots, h, pidx, tblk, nid, got>> /\ UNCH_O /\ UNCH_G
Min(x, y) == IF x < y THEN x ELSE y
SReloadPushBulk(s) ==
  /\ pcS[s] = "bulk.reload_push"
  /\ IF popi[s] >= tailIdx
       THEN SGoto(s, "bulk.restore_head") /\ UNCHANGED <<end, nid>>
       ELSE LET e == Min(bst[s] + B, tailIdx) IN
            /\ end' = [end EXCEPT ![s] = e]
            /\ IF e % B = 0 THEN SGoto(s, "bulk.load_next") /\ UNCHANGED nid
                            ELSE SGoto(s, "bulk.store_head_packed") /\ nid' = [nid EXCEPT ![s] = e % B]
  /\ UNCHANGED <<head, tailIdx, tailBlk, blk, slots, h, pidx, tblk, bst, popi, got, bad>> /\ UNCH_O /\ UNCH_G
SStoreHeadPacked(s) ==
  /\ pcS[s] = "bulk.store_head_packed" /\ head' = [a |-> h[s].a, id |-> nid[s], bit |-> FALSE]
  /\ SGoto(s, "bulk.copy")
  /\ UNCHANGED <<tailIdx, tailBlk, blk, slots, h, pidx, tblk, bst, popi, nid, end, got, bad>> /\ UNCH_O /\ UNCH_G
SWaitOwnerBulk(s) ==
  /\ pcS[s] = "bulk.wait_owner" /\ end[s] <= tailIdx /\ SGoto(s, "bulk.copy")
  /\ UNCHANGED <<head, tailIdx, tailBlk, blk, slots, h, pidx, tblk, bst, popi, nid, end, got, bad>> /\ UNCH_O /\ UNCH_G
RECURSIVE Collect(_, _, _, _)
Collect(a, st, i, e) == IF i >= e THEN <<>> ELSE <<SlotVal(a, i - st)>> \o Collect(a, st, i + 1, e)
SCopy(s) ==
  /\ pcS[s] = "bulk.copy"
  /\ LET vs == Collect(h[s].a, bst[s], popi[s], end[s]) IN
       /\ Flag(\E k \in DOMAIN vs : vs[k] = NoVal /\ (popi[s] + k - 1) \notin skipped, "uninit slot read: bulk")
       /\ MarkRead(h[s].a, end[s] - popi[s])
       /\ SDone(s, SelectSeq(vs, LAMBDA v : v # NoVal))
  /\ UNCHANGED <<head, tailIdx, tailBlk, h, pidx, tblk, bst, popi, nid, end>> /\ UNCH_O /\ UNCH_G

OwnerDone == pcO = "next" /\ ip > Len(OwnerProg)
AllDone == OwnerDone /\ \A s \in Stealers : pcS[s] = "done"
Stutter == AllDone /\ UNCHANGED vars
\* a stealer that claimed a future slot legitimately waits for a push that this bounded
\* scenario never performs; that is "completes as soon as the slot has been filled", not a hang
WaitingForOwner == OwnerDone /\ \A s \in Stealers : pcS[s] \in {"done", "pop.wait_owner", "bulk.wait_owner"}
StutterW == WaitingForOwner /\ UNCHANGED vars

Next ==
  \/ ONext \/ OPushWrite \/ OPushAlloc \/ OPushLink \/ OPushStoreBlock \/ OPushPublish
  \/ OLoadHead \/ OCas \/ OLoadStart \/ ORestore \/ OLoadNext \/ OStoreHead \/ OSkip \/ ORead \/ OMark
  \/ \E s \in Stealers :
        SLoadHead(s) \/ SLoadPush(s) \/ SLoadTblk(s) \/ SCasPop(s) \/ SLoadStartPop(s)
        \/ SReloadPushPop(s) \/ SRestore(s) \/ SLoadNext(s) \/ SStoreHeadNext(s)
        \/ SWaitOwnerPop(s) \/ SReadPop(s) \/ SMarkPop(s) \/ SCasBulk(s) \/ SLoadStartBulk(s)
        \/ SReloadPushBulk(s) \/ SStoreHeadPacked(s) \/ SWaitOwnerBulk(s) \/ SCopy(s)
  \/ Stutter \/ StutterW
Spec == Init /\ [][Next]_vars

-----------------------------------------------------------------------------
Range(f) == {f[i] : i \in DOMAIN f}
AllGot == UNION {Range(got[x]) : x \in DOMAIN got}
TotalGot == LET RECURSIVE Sum(_)
                Sum(S) == IF S = {} THEN 0 ELSE LET x == CHOOSE x \in S : TRUE IN Len(got[x]) + Sum(S \ {x})
            IN Sum(DOMAIN got)
NothingBad   == bad = "ok"                          \* uaf / uninit / failed assert / null next
TakenOnce    == Cardinality(AllGot) = TotalGot /\ AllGot \subseteq pushed
Sorted(sq)   == \A i, j \in DOMAIN sq : i < j => sq[i] < sq[j]
OwnerOrder   == Sorted(got["o"])
BatchOrder   == \A s \in Stealers : Sorted(got[s])
\* at the end nothing is lost: what was pushed is either taken or still readable in the queue
InQueue == {t[3] : t \in slots}
NothingLost  == AllDone => pushed \subseteq (AllGot \cup InQueue)
\* diagnostic (not a property): does a taker ever claim a slot the owner has not published?
NoOverClaim == \A s \in Stealers : /\ (pcS[s] = "pop.wait_owner" => popi[s] < tailIdx)
                                    /\ (pcS[s] = "bulk.wait_owner" => end[s] <= tailIdx)
=============================================================================
