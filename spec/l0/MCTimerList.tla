---- MODULE MCTimerList ----
EXTENDS TimerList
N1 == [p \in {"p1", "p2"} |-> IF p = "p1" THEN <<1, 2>> ELSE <<3>>]
C1 == << <<"remove", 1>>, <<"pop">>, <<"remove", 2>>, <<"pop_if_t">> >>
C2 == << <<"pop_if_f">>, <<"remove", 3>>, <<"peek">>, <<"pop">>, <<"pop">> >>
C3 == << <<"pop">>, <<"remove", 1>>, <<"remove", 2>>, <<"pop">> >>
====
