----------------------------- MODULE MpscQueue -----------------------------
(* Literal model of may_queue/src/mpsc.rs push()/pop().
   One action per atomic operation; pc labels = hook site names.
   Blocks are numbered 0,1,2..; block k covers indices k*B .. k*B+B-1 and its
   `next` pointer is installed when nextSet[k] = TRUE.  tail is the packed word
   (block, slot index, bit63 "closing").  The queue starts at index Start, i.e. after a
   sequential prefix of Start push+pop pairs. *)
EXTENDS Naturals, FiniteSets, Sequences, TLC

CONSTANTS Producers, NPush, B, Start, NPop,
          SpinOnReserved   \* TRUE = code as written; FALSE = mutant: pop reports None
                           \* instead of spinning on a reserved-but-unwritten slot

ASSUME Start < B

Vals == Producers \X (1..NPush)

VARIABLES tail,          \* [blk, idx, closing]
          nextSet,       \* set of blocks whose `next` is installed
          val,           \* partial map slot -> value : set of <<blk, idx, v>>
          ready,         \* set of <<blk, idx>>
          freed,         \* set of freed blocks
          headIdx, headBlk, oldBlock,      \* consumer private (but block frees matter)
          pcP, kP, rtail, rslot,           \* producers: pc, #pushes done, snapshot, claimed slot
          pcC, nC, rval, rpush,            \* consumer
          \* ghosts
          pushDone,      \* set of values whose push() returned
          before,        \* value -> set of values whose push returned before this push began
          popped,        \* sequence of values returned by pop
          popStartDone,  \* pushDone at the invocation of the running pop
          noneOk         \* FALSE if some pop returned None illegally

vars == <<tail, nextSet, val, ready, freed, headIdx, headBlk, oldBlock, pcP, kP, rtail,
          rslot, pcC, nC, rval, rpush, pushDone, before, popped, popStartDone, noneOk>>

NoSlot == <<99, 99>>
Init ==
  /\ tail = [blk |-> 0, idx |-> Start, closing |-> FALSE]
  /\ nextSet = {0} /\ val = {} /\ ready = {} /\ freed = {}
  /\ headIdx = Start /\ headBlk = 0 /\ oldBlock = 99
  /\ pcP = [p \in Producers |-> "push.load_tail"] /\ kP = [p \in Producers |-> 1]
  /\ rtail = [p \in Producers |-> tail] /\ rslot = [p \in Producers |-> NoSlot]
  /\ pcC = "pop.try_get" /\ nC = 0 /\ rval = <<>> /\ rpush = 0
  /\ pushDone = {} /\ before = [v \in Vals |-> {}] /\ popped = <<>>
  /\ popStartDone = {} /\ noneOk = TRUE

Live(b) == b \notin freed         \* every access below asserts it through UseAfterFree

UNCH_C == UNCHANGED <<headIdx, headBlk, oldBlock, pcC, nC, rval, rpush, popped, popStartDone, noneOk, freed>>
UNCH_Q == UNCHANGED <<tail, nextSet, val, ready>>

CurVal(p) == <<p, kP[p]>>

PLoad(p) ==
  /\ pcP[p] = "push.load_tail" /\ kP[p] <= NPush
  /\ rtail' = [rtail EXCEPT ![p] = tail]
  /\ before' = [before EXCEPT ![CurVal(p)] = pushDone]
  /\ pcP' = [pcP EXCEPT ![p] = "push.cas"]
  /\ UNCHANGED <<kP, rslot, pushDone>> /\ UNCH_Q /\ UNCH_C

PCas(p) ==
  /\ pcP[p] = "push.cas"
  /\ LET t == [rtail[p] EXCEPT !.closing = FALSE] IN
     IF tail = t
       THEN /\ tail' = IF t.idx < B - 1 THEN [t EXCEPT !.idx = t.idx + 1]
                                        ELSE [t EXCEPT !.closing = TRUE]
            /\ rslot' = [rslot EXCEPT ![p] = <<t.blk, t.idx>>]
            /\ pcP' = [pcP EXCEPT ![p] = "push.write"]
            /\ UNCHANGED rtail
       ELSE /\ rtail' = [rtail EXCEPT ![p] = tail]
            /\ UNCHANGED <<tail, rslot, pcP>>
  /\ UNCHANGED <<nextSet, val, ready, kP, pushDone, before>> /\ UNCH_C

PWrite(p) ==
  /\ pcP[p] = "push.write"
  /\ val' = val \cup {<<rslot[p][1], rslot[p][2], CurVal(p)>>}
  /\ pcP' = [pcP EXCEPT ![p] = "push.set_ready"]
  /\ UNCHANGED <<tail, nextSet, ready, kP, rtail, rslot, pushDone, before>> /\ UNCH_C

Finish(p) ==
  /\ pushDone' = pushDone \cup {CurVal(p)}
  /\ kP' = [kP EXCEPT ![p] = kP[p] + 1]
  /\ pcP' = [pcP EXCEPT ![p] = "push.load_tail"]

PSetReady(p) ==
  /\ pcP[p] = "push.set_ready"
  /\ ready' = ready \cup {rslot[p]}
  /\ IF rslot[p][2] = B - 1
       THEN pcP' = [pcP EXCEPT ![p] = "push.wait_next"] /\ UNCHANGED <<pushDone, kP>>
       ELSE Finish(p)
  /\ UNCHANGED <<tail, nextSet, val, rtail, rslot, before>> /\ UNCH_C

PWaitNext(p) ==
  /\ pcP[p] = "push.wait_next" /\ rslot[p][1] \in nextSet
  /\ pcP' = [pcP EXCEPT ![p] = "push.link_nextnext"]
  /\ UNCHANGED <<kP, rtail, rslot, pushDone, before>> /\ UNCH_Q /\ UNCH_C

PLink(p) ==
  /\ pcP[p] = "push.link_nextnext"
  /\ nextSet' = nextSet \cup {rslot[p][1] + 1}
  /\ pcP' = [pcP EXCEPT ![p] = "push.store_tail"]
  /\ UNCHANGED <<tail, val, ready, kP, rtail, rslot, pushDone, before>> /\ UNCH_C

PStoreTail(p) ==
  /\ pcP[p] = "push.store_tail"
  /\ tail' = [blk |-> rslot[p][1] + 1, idx |-> 0, closing |-> FALSE]
  /\ Finish(p)
  /\ UNCHANGED <<nextSet, val, ready, rtail, rslot, before>> /\ UNCH_C

-----------------------------------------------------------------------------
UNCH_P == UNCHANGED <<pcP, kP, rtail, rslot, pushDone, before>>
HeadSlot == <<headBlk, headIdx % B>>
SlotVal(s) == CHOOSE v \in Vals : <<s[1], s[2], v>> \in val

PopRet(r) ==   \* r = <<>> for None, <<v>> for Some(v)
  /\ popped' = IF r = <<>> THEN popped ELSE Append(popped, r[1])
  /\ noneOk' = (noneOk /\ (r # <<>> \/ popStartDone \subseteq {popped[i] : i \in DOMAIN popped}))
  /\ nC' = nC + 1
  /\ pcC' = "pop.try_get"

CTryGet ==
  /\ pcC = "pop.try_get" /\ nC < NPop
  /\ popStartDone' = pushDone
  /\ IF HeadSlot \in ready
       THEN rval' = <<SlotVal(HeadSlot)>> /\ pcC' = "pop.store_index"
       ELSE rval' = <<>> /\ pcC' = "pop.load_tail"
  /\ UNCHANGED <<headIdx, headBlk, oldBlock, nC, rpush, popped, noneOk, freed>> /\ UNCH_Q /\ UNCH_P

CLoadTail ==
  /\ pcC = "pop.load_tail"
  /\ LET pi == tail.blk * B + tail.idx IN
     IF headIdx >= pi
       THEN PopRet(<<>>) /\ UNCHANGED rpush
       ELSE IF SpinOnReserved
              THEN pcC' = "pop.spin_ready" /\ rpush' = pi /\ UNCHANGED <<popped, noneOk, nC>>
              ELSE PopRet(<<>>) /\ UNCHANGED rpush
  /\ UNCHANGED <<headIdx, headBlk, oldBlock, rval, popStartDone, freed>> /\ UNCH_Q /\ UNCH_P

CSpinReady ==
  /\ pcC = "pop.spin_ready" /\ HeadSlot \in ready
  /\ rval' = <<SlotVal(HeadSlot)>> /\ pcC' = "pop.store_index"
  /\ UNCHANGED <<headIdx, headBlk, oldBlock, nC, rpush, popped, popStartDone, noneOk, freed>>
  /\ UNCH_Q /\ UNCH_P

CStoreIndex ==
  /\ pcC = "pop.store_index"
  /\ headIdx' = headIdx + 1
  /\ IF headIdx % B = B - 1
       THEN pcC' = "pop.retire_block" /\ UNCHANGED <<popped, noneOk, nC>>
       ELSE PopRet(rval)
  /\ UNCHANGED <<headBlk, oldBlock, rval, rpush, popStartDone, freed>> /\ UNCH_Q /\ UNCH_P

CRetire ==
  /\ pcC = "pop.retire_block"
  /\ freed' = IF oldBlock = 99 THEN freed ELSE freed \cup {oldBlock}
  /\ oldBlock' = headBlk
  /\ pcC' = "pop.wait_next"
  /\ UNCHANGED <<headIdx, headBlk, nC, rval, rpush, popped, popStartDone, noneOk>> /\ UNCH_Q /\ UNCH_P

CWaitNext ==
  /\ pcC = "pop.wait_next" /\ headBlk \in nextSet
  /\ headBlk' = headBlk + 1
  /\ PopRet(rval)
  /\ UNCHANGED <<headIdx, oldBlock, rval, rpush, popStartDone, freed>> /\ UNCH_Q /\ UNCH_P

ProducersDone == \A p \in Producers : kP[p] > NPush
Done == ProducersDone /\ nC = NPop
Stutter == Done /\ UNCHANGED vars

Next ==
  \/ \E p \in Producers : PLoad(p) \/ PCas(p) \/ PWrite(p) \/ PSetReady(p)
                          \/ PWaitNext(p) \/ PLink(p) \/ PStoreTail(p)
  \/ CTryGet \/ CLoadTail \/ CSpinReady \/ CStoreIndex \/ CRetire \/ CWaitNext
  \/ Stutter
Spec == Init /\ [][Next]_vars

-----------------------------------------------------------------------------
PoppedSet == {popped[i] : i \in DOMAIN popped}
NoDuplicate == Cardinality(PoppedSet) = Len(popped)
NoInvented  == \A i \in DOMAIN popped : \E s \in val : s[3] = popped[i]
PerProducerOrder ==
  \A i, j \in DOMAIN popped :
     (i < j /\ popped[i][1] = popped[j][1]) => popped[i][2] < popped[j][2]
\* real-time order across producers: a push that returned before another began is popped first
RealTimeFifo ==
  \A j \in DOMAIN popped : before[popped[j]] \subseteq {popped[i] : i \in 1..j}
NoneOnlyIfMaybeEmpty == noneOk
\* nobody touches a freed block
UseAfterFree ==
  \/ \E p \in Producers : pcP[p] \in {"push.write", "push.set_ready", "push.wait_next"}
                           /\ rslot[p][1] \in freed
  \/ \E p \in Producers : pcP[p] \in {"push.link_nextnext"} /\ (rslot[p][1] + 1) \in freed
  \/ headBlk \in freed
NoUseAfterFree == ~UseAfterFree
\* a slot is written at most once
SlotOnce == \A s, t \in val : (s[1] = t[1] /\ s[2] = t[2]) => s = t
=============================================================================
