SPECIFICATION Spec
CONSTANTS
  B = 2
  NAddr = 3
  NPush = 7
  NPop = 9
  RecycleInclusive = FALSE
INVARIANTS FifoExact NothingBad
CHECK_DEADLOCK FALSE
