#!/usr/bin/env python3
"""DRAFT. Edge-cover of a TLC state graph dumped with `-dump dot,actionlabels`.
Prints root-to-terminal paths (lists of action labels) that together traverse every edge.
Deterministic (sorted adjacency).  Usage: paths.py graph.dot [--limit N] [--json out]"""
import re, sys, json, collections
def load(path):
    edges = collections.defaultdict(list); nodes=set(); root=None
    e_re = re.compile(r'^(-?\d+) -> (-?\d+) \[label="([^"]*)"')
    n_re = re.compile(r'^(-?\d+) \[label=')
    with open(path) as f:
        for line in f:
            m = e_re.match(line)
            if m:
                s,d,l = m.groups()
                if s != d: edges[s].append((l,d))
                nodes.add(s); nodes.add(d); continue
            m = n_re.match(line)
            if m:
                nodes.add(m.group(1))
                if root is None and 'style = filled' in line: root = m.group(1)
    for s in edges: edges[s].sort()
    return root, nodes, edges
def cover(root, nodes, edges):
    uncovered = {(s,i) for s in edges for i in range(len(edges[s]))}
    # distance to nearest node having an uncovered out-edge is recomputed lazily by BFS
    paths=[]
    def bfs_to_uncovered(start):
        seen={start:None}; q=collections.deque([start])
        while q:
            n=q.popleft()
            if any((n,i) in uncovered for i in range(len(edges.get(n,[])))): 
                path=[]; 
                while seen[n] is not None:
                    p,i=seen[n]; path.append((p,i)); n=p
                return path[::-1]
            for i,(l,d) in enumerate(edges.get(n,[])):
                if d not in seen: seen[d]=(n,i); q.append(d)
        return None
    while uncovered:
        n=root; path=[]
        while True:
            outs=edges.get(n,[])
            if not outs: break
            pick=next((i for i in range(len(outs)) if (n,i) in uncovered), None)
            if pick is None:
                hop=bfs_to_uncovered(n)
                if hop is None:
                    # finish the path to a terminal: follow first edges avoiding cycles
                    seen={n}
                    while edges.get(n):
                        nxt=next(((i,d) for i,(l,d) in enumerate(edges[n]) if d not in seen), None)
                        if nxt is None: break
                        path.append(edges[n][nxt[0]][0]); n=nxt[1]; seen.add(n)
                    break
                for (p,i) in hop:
                    path.append(edges[p][i][0]); n=edges[p][i][1]
                continue
            uncovered.discard((n,pick)); path.append(outs[pick][0]); n=outs[pick][1]
        paths.append(path)
    return paths
if __name__=='__main__':
    root,nodes,edges=load(sys.argv[1])
    ps=cover(root,nodes,edges)
    ne=sum(len(v) for v in edges.values())
    print(f"nodes={len(nodes)} edges={ne} paths={len(ps)} avg_len={sum(map(len,ps))/len(ps):.1f} max_len={max(map(len,ps))}")
    if '--json' in sys.argv:
        json.dump(ps, open(sys.argv[sys.argv.index('--json')+1],'w'))
    print(ps[0]); print(ps[len(ps)//2])
