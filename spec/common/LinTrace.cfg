\* "Invariant NotDone is violated" == the history IS linearizable (first accepting behaviour found);
\* normal termination with the postcondition message == NOT linearizable
INIT Init
NEXT Next
CONSTRAINT Progress
INVARIANT NotDone
POSTCONDITION Accepted
CHECK_DEADLOCK FALSE
