------------------------------- MODULE LinTrace -------------------------------
(* DRAFT (round 0).  Property-level oracle for C03/C04-style checks: is a recorded history of
   calls and returns on a concurrent queue linearizable w.r.t. the abstract FIFO queue?
   Input (NDJSON, in the exact order the baton released the points):
       {"e":"call","t":<actor>,"op":"push","v":<int>}   {"e":"ret","t":<actor>,"v":0}
       {"e":"call","t":<actor>,"op":"pop","v":0}         {"e":"ret","t":<actor>,"v":<int, 0 = None>}
   A call becomes pending; a silent Lin(t) step applies it to the abstract queue at some moment
   between its call and its return; the return must match what Lin computed.  TLC searches the
   linearization orders; acceptance = some behaviour consumes the whole file. *)
EXTENDS Naturals, Sequences, Json, IOUtils, TLC
Rec == ndJsonDeserialize(IOEnv.TRACE)
Actors == {Rec[i].t : i \in DOMAIN Rec}
\* Single-consumer queues with unique values: the order in which values were popped IS the
\* order in which their pushes must be linearized (un-popped values come after all popped
\* ones).  Using it makes the search deterministic -- without it a wrong guess about the
\* order of two concurrent pushes is only refuted when the second one is popped, a whole
\* queue length later, and TLC's search is exponential (measured: > 4*10^7 states on 480
\* records before this constraint, 1.4*10^3 after).
RECURSIVE PopVals(_)
PopVals(i) == IF i > Len(Rec) THEN <<>>
              ELSE IF Rec[i].e = "ret" /\ Rec[i].v # 0 THEN <<Rec[i].v>> \o PopVals(i + 1) ELSE PopVals(i + 1)
PV == PopVals(1)
PVSet == {PV[i] : i \in DOMAIN PV}
VARIABLES q, pend, l, nlin
vars == <<q, pend, l, nlin>>
None == [op |-> "none", v |-> 0, done |-> FALSE, res |-> 0]
Init == q = <<>> /\ pend = [t \in Actors |-> None] /\ l = 1 /\ nlin = 0 /\ TLCSet(1, 1)
Call == /\ l <= Len(Rec) /\ Rec[l].e = "call" /\ pend[Rec[l].t].op = "none"
        /\ pend' = [pend EXCEPT ![Rec[l].t] = [op |-> Rec[l].op, v |-> Rec[l].v, done |-> FALSE, res |-> 0]]
        /\ l' = l + 1 /\ UNCHANGED <<q, nlin>>
\* linearization points commute with other actors' call events, so w.l.o.g. they are taken only
\* immediately before some return (keeps TLC's search narrow)
Lin(t) == /\ pend[t].op # "none" /\ ~pend[t].done /\ l <= Len(Rec) /\ Rec[l].e = "ret"
          /\ IF pend[t].op = "push"
               THEN /\ \/ (nlin < Len(PV) /\ pend[t].v = PV[nlin + 1])
                       \/ (nlin >= Len(PV) /\ pend[t].v \notin PVSet)
                    /\ q' = Append(q, pend[t].v) /\ pend' = [pend EXCEPT ![t].done = TRUE] /\ nlin' = nlin + 1
               ELSE /\ UNCHANGED nlin
                    /\ IF q = <<>> THEN UNCHANGED q /\ pend' = [pend EXCEPT ![t].done = TRUE, ![t].res = 0]
                                   ELSE q' = Tail(q) /\ pend' = [pend EXCEPT ![t].done = TRUE, ![t].res = Head(q)]
          /\ UNCHANGED l
Ret == /\ l <= Len(Rec) /\ Rec[l].e = "ret" /\ pend[Rec[l].t].done
       /\ (pend[Rec[l].t].op = "pop" => pend[Rec[l].t].res = Rec[l].v)
       /\ pend' = [pend EXCEPT ![Rec[l].t] = None] /\ l' = l + 1 /\ UNCHANGED <<q, nlin>>
Next == Call \/ Ret \/ \E t \in Actors : Lin(t)
\* acceptance is reported as the *violation* of NotDone so that TLC stops at the first accepting
\* behaviour instead of enumerating every other linearization
NotDone == l <= Len(Rec)
Progress == TLCSet(1, IF TLCGet(1) < l THEN l ELSE TLCGet(1))
Accepted == IF TLCGet(1) = Len(Rec) + 1 THEN TRUE
            ELSE Print(<<"NOT LINEARIZABLE: first unexplained record", TLCGet(1), Rec[TLCGet(1)]>>, FALSE)
=============================================================================
